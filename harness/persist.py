"""Binding of specs/Persist.tla to rsatoolbox saving and loading (property C16).

* catalogue      ``build(kind, cid, feature)``: real objects for an abstract content id, crossing the
                 eight kinds with descriptor value types, data values and sizes (one *feature* per
                 object, so a failure names its cause)
* oracle         ``compare_objects(a, b)``: field-wise equality demanded by the property (arrays with
                 ``numpy.array_equal(equal_nan=True)``, descriptor keys and element-wise values with
                 type-insensitive comparison of numbers / containers, model class, name and predictions,
                 Result evaluations, variances, dof and test outputs); ``eq_check``: ``==`` where the
                 class defines it; ``fingerprint`` is the STRICT (type-sensitive) snapshot used for
                 "saving does not change the in-memory object"
* projection     ``project_path``: which catalogue object a file holds EXACTLY (format sniffed from the
                 magic bytes, key tree read with h5py / pickle directly, no foreign key, and the
                 library's loader returns an object the oracle accepts)
* S -> I         ``replay``: a TLC history is executed in a scratch directory (paths and open file
                 handles), outcome / file system / loaded object / in-memory objects compared after
                 every step
* I -> S         ``record_history``: random admissible histories on real files, observations recorded
                 for Trace_Persist.tla
* clause c       ``rdms_structural`` / ``dataset_structural``: objects after random structural
                 histories, reloaded copies substituted in the middle of a history
"""
from __future__ import annotations

import copy
import gc
import hashlib
import io
import os
import pathlib
import pickle
import shutil
import tempfile
import zlib

import numpy as np

KINDS = ('RDMs', 'Dataset', 'TemporalDataset', 'ModelFixed', 'ModelWeighted', 'ModelSelect',
         'ModelInterpolate', 'Result')
MODEL_KINDS = ('ModelFixed', 'ModelWeighted', 'ModelSelect', 'ModelInterpolate')
CONTAINERS = ('RDMs', 'Dataset', 'TemporalDataset')
FMTS = ('hdf5', 'pkl')
HDF5_MAGIC = b'\x89HDF\r\n\x1a\n'
NONASCII = ['größe', '日本', 'naïve', 'café', 'αβ']


def _rng(*key):
    return np.random.default_rng(zlib.crc32(repr(key).encode()))


# ------------------------------------------------------------------------------------ catalogue
def _axes(kind):
    return {'RDMs': ('rdm', 'pattern'), 'Dataset': ('obs', 'channel'),
            'TemporalDataset': ('obs', 'channel', 'time')}[kind]


def _axis_len(spec, ax):
    d = spec['data']
    k = spec['ckind']
    if k == 'RDMs':
        n = d.shape[1]
        nc = int(round((1 + np.sqrt(1 + 8 * n)) / 2))
        return {'rdm': d.shape[0], 'pattern': nc}[ax]
    return {'obs': d.shape[0], 'channel': d.shape[1], 'time': d.shape[2] if d.ndim > 2 else 0}[ax]


def container_spec(ckind, cid, shape=None, tag='base'):
    """plain description of an RDMs / Dataset / TemporalDataset with only 'safe' value types"""
    r = _rng(tag, ckind, cid)
    if ckind == 'RDMs':
        n_rdm, n_cond = shape or (2, 4)
        data = np.round(r.random((n_rdm, n_cond * (n_cond - 1) // 2)), 4) + cid
        ax = {'rdm': {'subj': [f's{i}' for i in range(n_rdm)]},
              'pattern': {'cond': [f'c{i}' for i in range(n_cond)]}}
    elif ckind == 'Dataset':
        n_obs, n_ch = shape or (4, 3)
        data = np.round(r.standard_normal((n_obs, n_ch)), 4) + cid
        ax = {'obs': {'cond': [f'c{i % 2}' for i in range(n_obs)], 'run': [i // 2 for i in range(n_obs)]},
              'channel': {'roi': [f'v{i % 2}' for i in range(n_ch)]}}
    else:
        n_obs, n_ch, n_t = shape or (3, 2, 4)
        data = np.round(r.standard_normal((n_obs, n_ch, n_t)), 4) + cid
        ax = {'obs': {'cond': [f'c{i}' for i in range(n_obs)]},
              'channel': {'roi': [f'v{i}' for i in range(n_ch)]},
              'time': {'time': np.arange(n_t) * 0.25}}
    return {'ckind': ckind, 'data': data, 'measure': 'euclidean' if ckind == 'RDMs' else None,
            'desc': {'session': f'sess{cid}', f'own{cid}': cid}, 'ax': ax}


def base_spec(kind, cid):
    if kind in CONTAINERS:
        s = container_spec(kind, cid)
        s['kind'] = kind
        return s
    if kind in MODEL_KINDS:
        return {'kind': kind, 'name': f'model{cid}', 'from_vector': False,
                'rdm': container_spec('RDMs', cid, shape=(1 if kind == 'ModelFixed' else 3, 4), tag='model')}
    r = _rng('result', cid)
    mk = ['ModelFixed', 'ModelWeighted']
    models = [{'kind': k, 'name': f'm{cid}_{i}', 'from_vector': False,
               'rdm': container_spec('RDMs', 10 * cid + i, shape=(1 if k == 'ModelFixed' else 3, 4), tag='resmodel')}
              for i, k in enumerate(mk)]
    n_m = len(models)
    ev = np.round(r.random((1, n_m, 6)), 5) + 0.01 * cid
    cov = np.cov(np.concatenate([ev[0], r.random((2, 6))]))
    return {'kind': 'Result', 'models': models, 'evaluations': ev, 'variances': cov, 'dof': 5,
            'noise_ceiling': np.array([0.6, 0.8]) + 0.001 * cid, 'method': 'corr', 'cv_method': 'fixed',
            'n_rdm': 6, 'n_pattern': 4, 'lib': None}


def _vals(spec, fn):
    """add the per-item descriptor 'v' on every axis; fn(n, axis-number) -> container of n values"""
    for i, ax in enumerate(_axes(spec['ckind'])):
        spec['ax'][ax]['v'] = fn(_axis_len(spec, ax), i)


def _put(key, value):
    def f(spec):
        spec['desc'][key] = value() if callable(value) else value
    return f


def _ax(fn):
    def f(spec):
        _vals(spec, fn)
    return f


def _data(fn):
    def f(spec):
        spec['data'] = fn(spec['data'])
    return f


def _setnan(d):
    d = d.copy()
    d.flat[1] = np.nan
    d.flat[d.size - 1] = np.nan
    return d


def _setinf(d):
    d = d.copy()
    d.flat[0] = np.inf
    d.flat[d.size - 1] = -np.inf
    return d


def _shape(shapes):
    def f(spec):
        s2 = container_spec(spec['ckind'], 1, shape=shapes[spec['ckind']], tag='shape')
        spec['data'] = s2['data']
        spec['ax'] = s2['ax']
    return f


def _measure(m):
    def f(spec):
        spec['measure'] = m
    return f


# name -> (key class, demanded by the property?, function on a container spec)
CONTAINER_FEATURES = {
    'base': ('base', True, lambda s: None),
    'desc-str': ('scalar-str-descriptor', True, _put('v', 'abc def')),
    'desc-emptystr': ('scalar-str-descriptor', True, _put('v', '')),
    'desc-unicode': ('scalar-unicode-descriptor', True, _put('v', NONASCII[0] + ' ' + NONASCII[1])),
    'desc-int': ('scalar-number-descriptor', True, _put('v', 7)),
    'desc-negint': ('scalar-number-descriptor', True, _put('v', -3)),
    'desc-bigint': ('scalar-number-descriptor', True, _put('v', 2 ** 40 + 1)),
    'desc-float': ('scalar-number-descriptor', True, _put('v', 0.1)),
    'desc-nan': ('scalar-nan-descriptor', True, _put('v', float('nan'))),
    'desc-inf': ('scalar-number-descriptor', True, _put('v', float('-inf'))),
    'desc-bool': ('scalar-bool-descriptor', True, _put('v', True)),
    'desc-npint': ('scalar-number-descriptor', True, _put('v', lambda: np.int64(5))),
    'desc-npfloat32': ('scalar-number-descriptor', True, _put('v', lambda: np.float32(1.5))),
    'desc-intarray': ('array-descriptor', True, _put('v', lambda: np.array([3, 1, 2]))),
    'desc-floatarray-nan': ('array-descriptor', True, _put('v', lambda: np.array([0.1, np.nan, np.inf]))),
    'desc-floatlist': ('array-descriptor', True, _put('v', lambda: [0.1, 1 / 3, -2.7])),
    'desc-intlist': ('array-descriptor', True, _put('v', lambda: [3, 1, 2])),
    'desc-onelemlist': ('one-element-list-descriptor', True, _put('v', lambda: [3])),
    'desc-strlist': ('string-list-descriptor', True, _put('v', lambda: ['ab', 'c'])),
    'desc-strarray': ('string-list-descriptor', True, _put('v', lambda: np.array(['ab', 'c']))),
    'desc-matrix': ('matrix-descriptor', True,
                    _put('noise_prec', lambda: np.linalg.inv(np.array([[2., .5, 0.], [.5, 1., .2], [0., .2, 3.]])))),
    'desc-matrix-int': ('matrix-descriptor', True, _put('v', lambda: np.arange(6).reshape(2, 3))),
    'desc-3darray': ('matrix-descriptor', True, _put('v', lambda: np.arange(24.).reshape(2, 3, 4))),
    'desc-none': ('none-descriptor', True, _put('v', None)),
    'desc-unicode-strlist': ('non-ascii-list-descriptor', True, _put('v', lambda: [NONASCII[0], 'b'])),
    'desc-nested-dict': ('nested-dict-descriptor', False, _put('v', lambda: {'a': 1, 'b': 'x'})),
    'desc-tuple': ('tuple-descriptor', False, _put('v', (1, 2))),
    'ax-strlist': ('string-list-descriptor', True, _ax(lambda n, i: [f'lab{j}' for j in range(n)])),
    'ax-strarray': ('string-list-descriptor', True, _ax(lambda n, i: np.array([f'lab{j}' * (j + 1) for j in range(n)]))),
    'ax-npstrlist': ('string-list-descriptor', True, _ax(lambda n, i: [np.str_(f'q{j}') for j in range(n)])),
    'ax-emptystr': ('string-list-descriptor', True, _ax(lambda n, i: ['' if j == 0 else f'e{j}' for j in range(n)])),
    'ax-spacestr': ('string-list-descriptor', True, _ax(lambda n, i: [f'a {j} ' for j in range(n)])),
    'ax-intlist': ('number-list-descriptor', True, _ax(lambda n, i: [10 - j for j in range(n)])),
    'ax-intarray': ('number-list-descriptor', True, _ax(lambda n, i: np.arange(n)[::-1] * 3)),
    'ax-floatlist-nan': ('number-list-descriptor', True,
                         _ax(lambda n, i: [float('nan') if j == 0 else 0.1 + j / 3 for j in range(n)])),
    'ax-floatarray': ('number-list-descriptor', True, _ax(lambda n, i: np.linspace(-1, 1, n) / 3 + 0.1)),
    'ax-boollist': ('bool-list-descriptor', True, _ax(lambda n, i: [j % 2 == 0 for j in range(n)])),
    'ax-matrix': ('matrix-descriptor', True, _ax(lambda n, i: np.arange(3. * n).reshape(n, 3))),
    'ax-matrixlist': ('matrix-descriptor', True, _ax(lambda n, i: [np.eye(2) * (j + 1) for j in range(n)])),
    'ax-unicode-list': ('non-ascii-list-descriptor', True,
                        _ax(lambda n, i: [NONASCII[j % len(NONASCII)] + str(j) for j in range(n)])),
    'ax-unicode-array': ('non-ascii-list-descriptor', True,
                         _ax(lambda n, i: np.array([NONASCII[j % len(NONASCII)] + str(j) for j in range(n)]))),
    'ax-objstr-array': ('object-dtype-string-array', False,
                        _ax(lambda n, i: np.array([f'o{j}' for j in range(n)], dtype=object))),
    'data-nan': ('data-nan', True, _data(_setnan)),
    'data-inf': ('data-inf', True, _data(_setinf)),
    'data-float32': ('data-dtype', True, _data(lambda d: d.astype('float32'))),
    'data-int64': ('data-dtype', True, _data(lambda d: (d * 100).astype('int64'))),
    'data-int16': ('data-dtype', True, _data(lambda d: (d * 100).astype('int16'))),
    'data-fortran': ('data-layout', True, _data(lambda d: np.asfortranarray(d))),
    'data-tiny-huge': ('data-values', True, _data(lambda d: d * np.where(np.arange(d.size).reshape(d.shape) % 2, 1e-300, 1e300))),
    'size-min': ('size-one-dimensions', True, _shape({'RDMs': (1, 2), 'Dataset': (1, 1), 'TemporalDataset': (1, 1, 1)})),
    'size-onerow': ('size-one-dimensions', True, _shape({'RDMs': (1, 5), 'Dataset': (1, 4), 'TemporalDataset': (1, 3, 2)})),
    'size-big': ('size-larger', True, _shape({'RDMs': (7, 12), 'Dataset': (30, 17), 'TemporalDataset': (9, 5, 11)})),
    'measure-none': ('none-measure', True, _measure(None)),
    'measure-unicode': ('unicode-measure', True, _measure('distanz-' + NONASCII[0])),
    'no-descriptors': ('no-descriptors', True, lambda s: (s['desc'].clear(), [a.clear() for a in s['ax'].values() if 'time' not in a])),
}
# features used on the RDMs inside model kinds (keeps the catalogue small)
MODEL_FEATURES = ['base', 'desc-unicode', 'desc-matrix', 'desc-intarray', 'ax-strlist', 'ax-intarray',
                  'ax-floatlist-nan', 'ax-matrix', 'ax-unicode-list', 'measure-none', 'data-nan',
                  'size-big', 'no-descriptors', 'name-unicode', 'from-vector', 'multi-rdm']
RESULT_LIBS = ['eval_fixed', 'eval_bootstrap', 'eval_bootstrap_rdm', 'eval_bootstrap_pattern',
               'bootstrap_crossval', 'crossval', 'eval_dual_bootstrap']
LIB_SHAPES = {'': (7, 6), '-wide': (4, 7)}        # (n_rdm, n_cond) of the evaluated data
RESULT_FEATURES = ['base', 'all-model-classes', 'twelve-models', 'no-variances', 'variances-1d',
                   'evaluations-nan', 'evaluations-3models-bootstrap', 'noise-ceiling-nan',
                   'noise-ceiling-matrix', 'dof-zero', 'n-none', 'unicode-method',
                   'model-desc-matrix', 'single-model', 'single-model-no-variances', 'single-model-bootstrap'] + \
                  ['lib-' + x + w for x in RESULT_LIBS for w in LIB_SHAPES] + \
                  ['lib-' + x + w + '-single' for x in RESULT_LIBS[:4] for w in LIB_SHAPES]
# '-single': ONE model and a fixed (not bootstrapped) noise ceiling: variances is then a 0-d array


def features_of(kind):
    if kind in CONTAINERS:
        fs = list(CONTAINER_FEATURES)
        if kind != 'RDMs':
            fs = [f for f in fs if not f.startswith('measure-')]
        return fs
    if kind in MODEL_KINDS:
        fs = list(MODEL_FEATURES)
        if kind == 'ModelFixed':
            return fs
        return [f for f in fs if f != 'multi-rdm']
    return list(RESULT_FEATURES)


def feature_class(kind, feature):
    """(key class, demanded)"""
    if feature in CONTAINER_FEATURES:
        c, d, _ = CONTAINER_FEATURES[feature]
        return c, d
    if kind == 'Result':
        # the data shape and the number of models do not change the class of a library-made Result
        f = feature[:-7] if (feature.startswith('lib-') and feature.endswith('-single')) else feature
        return 'result-' + (f[:-5] if f.endswith('-wide') else f), True
    return {'name-unicode': ('unicode-model-name', True), 'from-vector': ('model-from-vector', True),
            'multi-rdm': ('model-fixed-multi-rdm', True)}.get(feature, (feature, True))


def make_spec(kind, cid, feature):
    s = base_spec(kind, cid)
    if kind in CONTAINERS:
        CONTAINER_FEATURES[feature][2](s)
    elif kind in MODEL_KINDS:
        if feature in CONTAINER_FEATURES:
            CONTAINER_FEATURES[feature][2](s['rdm'])
        elif feature == 'name-unicode':
            s['name'] = 'modell-' + NONASCII[0] + NONASCII[1]
        elif feature == 'from-vector':
            s['from_vector'] = True
        elif feature == 'multi-rdm':
            s['rdm'] = container_spec('RDMs', cid, shape=(3, 4), tag='model')
    else:
        _result_feature(s, cid, feature)
    return s


def _model_spec(kind, name, cid, shape=None):
    return {'kind': kind, 'name': name, 'from_vector': False,
            'rdm': container_spec('RDMs', cid, shape=shape or (1 if kind == 'ModelFixed' else 3, 4), tag='resmodel')}


def _result_feature(s, cid, feature):
    r = _rng('resfeat', cid, feature)
    if feature == 'base':
        return

    def remodel(models, n_boot=1, n_cv=6, nc_rows=2):
        n_m = len(models)
        s['models'] = models
        s['evaluations'] = np.round(r.random((n_boot, n_m, n_cv)), 5)
        s['variances'] = np.cov(np.concatenate([s['evaluations'][0], r.random((nc_rows, n_cv))]))
    if feature == 'all-model-classes':
        remodel([_model_spec(k, f'all{cid}_{k}', 20 * cid + i) for i, k in enumerate(MODEL_KINDS)])
    elif feature == 'twelve-models':
        remodel([_model_spec('ModelFixed', f'tw{cid}_{i:02d}', 30 * cid + i) for i in range(12)])
    elif feature == 'no-variances':
        s['variances'] = None
        s['dof'] = 1
    elif feature == 'variances-1d':
        s['variances'] = np.array([0.01, 0.02, 0.001, 0.002])
    elif feature == 'evaluations-nan':
        s['evaluations'] = s['evaluations'].copy()
        s['evaluations'][0, 0, 2] = np.nan
    elif feature == 'evaluations-3models-bootstrap':
        s['models'] = s['models'] + [_model_spec('ModelSelect', f'sel{cid}', 40 * cid)]
        ev = np.round(r.random((20, 3)), 5)
        ev[3] = np.nan
        s['evaluations'] = ev
        s['cv_method'] = 'bootstrap'
        s['variances'] = np.cov(np.concatenate([ev[~np.isnan(ev[:, 0])].T, r.random((2, 19))]))
        s['noise_ceiling'] = r.random((2, 20))
        s['dof'] = 19
    elif feature == 'noise-ceiling-nan':
        s['noise_ceiling'] = np.array([np.nan, np.nan])
    elif feature == 'noise-ceiling-matrix':
        s['noise_ceiling'] = np.round(r.random((2, 6)), 5)
    elif feature == 'dof-zero':
        s['dof'] = 0
        s['variances'] = None
    elif feature == 'n-none':
        s['n_rdm'] = None
        s['n_pattern'] = None
    elif feature == 'unicode-method':
        s['method'] = 'corr-' + NONASCII[0]
    elif feature == 'model-desc-matrix':
        for m in s['models']:
            m['rdm']['desc']['noise_prec'] = np.eye(3) * 2.
    elif feature.startswith('single-model'):
        s['models'] = s['models'][:1]
        if feature == 'single-model-bootstrap':
            ev = np.round(r.random((12, 1)), 5)
            s['evaluations'] = ev
            s['cv_method'] = 'bootstrap_rdm'
            s['variances'] = np.array(np.var(ev[:, 0]))          # 0-d, as np.cov of one model gives
            s['dof'] = 5
        else:
            s['evaluations'] = np.round(r.random((1, 1, 6)), 5)
            s['variances'] = None if feature.endswith('no-variances') else np.array(np.var(s['evaluations'][0, 0]) / 6)
            if feature.endswith('no-variances'):
                s['dof'] = 1
    elif feature.startswith('lib-'):
        single = feature.endswith('-single')
        f = feature[:-7] if single else feature
        wide = '-wide' if f.endswith('-wide') else ''
        name = f[4:len(f) - len(wide)]
        n_rdm, n_cond = LIB_SHAPES[wide]
        s['lib'] = (name, n_rdm, n_cond, single)
        s['models'] = [_model_spec('ModelFixed', f'lib{cid}_{i}', 50 * cid + i, shape=(1, n_cond))
                       for i in range(1 if single else 2)]
    else:
        raise KeyError(feature)


def _cp(v):
    """deep copy in which every float is a NEW object (dict `==` treats an identical NaN object as
    equal, which would make `==` look defined on NaN content)"""
    if isinstance(v, dict):
        return {k: _cp(x) for k, x in v.items()}
    if isinstance(v, list):
        return [_cp(x) for x in v]
    if type(v) is float:
        return v * 1.0
    return copy.deepcopy(v)


def construct(spec):
    """spec -> real rsatoolbox object (independent of the spec: everything is copied)"""
    import rsatoolbox
    kind = spec.get('kind', spec.get('ckind'))
    if kind == 'RDMs' or (kind not in KINDS and spec['ckind'] == 'RDMs'):
        return rsatoolbox.rdm.RDMs(spec['data'].copy(order='K'), dissimilarity_measure=spec['measure'],
                                   descriptors=_cp(spec['desc']), rdm_descriptors=_cp(spec['ax']['rdm']),
                                   pattern_descriptors=_cp(spec['ax']['pattern']))
    if kind == 'Dataset':
        return rsatoolbox.data.Dataset(spec['data'].copy(order='K'), descriptors=_cp(spec['desc']),
                                       obs_descriptors=_cp(spec['ax']['obs']),
                                       channel_descriptors=_cp(spec['ax']['channel']))
    if kind == 'TemporalDataset':
        return rsatoolbox.data.TemporalDataset(spec['data'].copy(order='K'), descriptors=_cp(spec['desc']),
                                               obs_descriptors=_cp(spec['ax']['obs']),
                                               channel_descriptors=_cp(spec['ax']['channel']),
                                               time_descriptors=_cp(spec['ax']['time']))
    if kind in MODEL_KINDS:
        cls = getattr(rsatoolbox.model, kind)
        rs = dict(spec['rdm'])
        rs['kind'] = 'RDMs'
        rdm = construct(rs)
        if spec['from_vector']:
            v = rdm.get_vectors()
            return cls(spec['name'], v[0].copy() if kind == 'ModelFixed' else v.copy())
        return cls(spec['name'], rdm)
    if kind == 'Result':
        models = [construct(m) for m in spec['models']]
        if spec.get('lib'):
            return _lib_result(spec['lib'], models, spec)
        return rsatoolbox.inference.Result(models, spec['evaluations'].copy(), spec['method'], spec['cv_method'],
                                           spec['noise_ceiling'].copy(),
                                           variances=None if spec['variances'] is None else spec['variances'].copy(),
                                           dof=spec['dof'], n_rdm=spec['n_rdm'], n_pattern=spec['n_pattern'])
    raise KeyError(kind)


def _lib_result(lib, models, spec):
    """a Result produced by the library's own evaluation functions (deterministic)"""
    import rsatoolbox
    from rsatoolbox import inference as I
    name, n_rdm, n_cond, single = lib
    fixed_nc = {'boot_noise_ceil': False} if single else {}
    r = _rng('libdata', name, n_rdm, n_cond)
    data = rsatoolbox.rdm.RDMs(np.round(r.random((n_rdm, n_cond * (n_cond - 1) // 2)), 4) + 0.5,
                               rdm_descriptors={'subj': [f's{i}' for i in range(n_rdm)]},
                               pattern_descriptors={'cond': [f'c{i}' for i in range(n_cond)]})
    import contextlib
    state = np.random.get_state()
    np.random.seed(zlib.crc32(name.encode()) % (2 ** 31))
    try:
        with open(os.devnull, 'w') as devnull:
            with contextlib.redirect_stderr(devnull), contextlib.redirect_stdout(devnull):
                if name == 'eval_fixed':
                    res = I.eval_fixed(models, data, method='cosine')
                elif name == 'eval_bootstrap':
                    res = I.eval_bootstrap(models, data, method='cosine', N=6, **fixed_nc)
                elif name == 'eval_bootstrap_rdm':
                    res = I.eval_bootstrap_rdm(models, data, method='cosine', N=6, **fixed_nc)
                elif name == 'eval_bootstrap_pattern':
                    res = I.eval_bootstrap_pattern(models, data, method='cosine', N=6, **fixed_nc)
                elif name == 'bootstrap_crossval':
                    res = I.bootstrap_crossval(models, data, method='cosine', N=4, k_pattern=2, k_rdm=2)
                elif name == 'crossval':
                    train, test, ceil = I.sets_k_fold(data, k_pattern=2, k_rdm=2)
                    res = I.crossval(models, data, train, test, ceil_set=ceil, method='cosine')
                elif name == 'eval_dual_bootstrap':
                    res = I.eval_dual_bootstrap(models, data, method='cosine', N=5, k_pattern=2, k_rdm=2)
                else:
                    raise KeyError(name)
    finally:
        np.random.set_state(state)
    return res


def build(kind, cid, feature):
    return construct(make_spec(kind, cid, feature))


def kind_of(obj):
    import rsatoolbox
    if isinstance(obj, rsatoolbox.rdm.RDMs):
        return 'RDMs'
    if isinstance(obj, rsatoolbox.data.TemporalDataset):
        return 'TemporalDataset'
    if isinstance(obj, rsatoolbox.data.Dataset):
        return 'Dataset'
    if isinstance(obj, rsatoolbox.inference.Result):
        return 'Result'
    if isinstance(obj, rsatoolbox.model.Model):
        return type(obj).__name__
    raise TypeError(type(obj))


# --------------------------------------------------------------------------------------- oracle
def _norm(v):
    """type-insensitive normal form of a descriptor value ("element-wise equal values")"""
    if v is None:
        return ('none',)
    if isinstance(v, (bytes, np.bytes_)):
        return ('bytes', bytes(v))
    if isinstance(v, (str, np.str_)):
        return ('str', str(v))
    if isinstance(v, dict):
        return ('dict', {str(k): _norm(x) for k, x in v.items()})
    try:
        a = np.asarray(v)
    except Exception:
        a = np.empty(len(v), dtype=object)
        for i, x in enumerate(v):
            a[i] = x
    if a.dtype.kind == 'U':
        return ('str', str(a[()])) if a.ndim == 0 else ('strs', a.shape, [str(x) for x in a.ravel()])
    if a.dtype.kind == 'S':
        return ('bytess', a.shape, [bytes(x) for x in a.ravel()])
    if a.dtype.kind == 'O':
        return ('objs', a.shape, [_norm(x) for x in a.ravel()])
    return ('num', a.shape, a)


def values_equal(a, b):
    na, nb = _norm(a), _norm(b)
    return _norm_eq(na, nb)


def _norm_eq(na, nb):
    if na[0] != nb[0]:
        # a 1-d object array of strings and a string array hold the same strings
        if {na[0], nb[0]} == {'objs', 'strs'}:
            o, s = (na, nb) if na[0] == 'objs' else (nb, na)
            return o[1] == s[1] and all(x == ('str', y) for x, y in zip(o[2], s[2]))
        return False
    if na[0] == 'num':
        return na[1] == nb[1] and bool(np.array_equal(na[2], nb[2], equal_nan=na[2].dtype.kind in 'fc' or nb[2].dtype.kind in 'fc'))
    if na[0] == 'dict':
        return set(na[1]) == set(nb[1]) and all(_norm_eq(na[1][k], nb[1][k]) for k in na[1])
    if na[0] == 'objs':
        return na[1] == nb[1] and all(_norm_eq(x, y) for x, y in zip(na[2], nb[2]))
    return na == nb


def _show(v):
    s = repr(v)
    return s if len(s) < 160 else s[:157] + '...'


def _cmp_array(field, a, b, out, dtype=False):
    a = np.asarray(a) if a is not None else None
    b = np.asarray(b) if b is not None else None
    if a is None or b is None:
        if not (a is None and b is None):
            out.append((f'{field}/none', f'{_show(a)} vs {_show(b)}'))
        return
    if a.shape != b.shape:
        out.append((f'{field}/shape', f'{a.shape} vs {b.shape}'))
    elif not np.array_equal(a, b, equal_nan=True):
        out.append((f'{field}/values', f'{_show(a)} vs {_show(b)}'))
    elif dtype and a.dtype != b.dtype:
        out.append((f'{field}/dtype', f'{a.dtype} vs {b.dtype}'))


def _cmp_desc(field, da, db, out):
    if not isinstance(db, dict):
        out.append((f'{field}/type', f'{type(db).__name__}'))
        return
    ka, kb = set(map(str, da)), set(map(str, db))
    if ka != kb:
        out.append((f'{field}/keys', f'missing {sorted(ka - kb)} extra {sorted(kb - ka)}'))
    for k in da:
        if k in db and not values_equal(da[k], db[k]):
            out.append((f'{field}/value', f'{k!r}: {_show(da[k])} vs {_show(db[k])}'))


def _cmp_scalar(field, a, b, out):
    if not values_equal(a, b):
        out.append((field, f'{_show(a)} vs {_show(b)}'))


def _thetas(model):
    k = type(model).__name__
    if k == 'ModelFixed' or not hasattr(model, 'n_rdm'):
        return [None]
    n = model.n_rdm
    if k == 'ModelSelect':
        return list(range(n))
    r = _rng('theta', n)
    return [None, np.ones(n), np.arange(1., n + 1), np.round(r.random(n), 3)]


def compare_objects(a, b, out=None, pre='', light=False):
    """field-wise equality the property demands of a reloaded object b for the original a.
    Returns a list of (field class, detail); empty = equal.  ``light`` skips what is a function of
    the compared fields (Result test outputs) - used where only the identity of a file's content
    is needed."""
    out = [] if out is None else out
    if type(a) is not type(b):
        out.append((pre + 'class', f'{type(a).__name__} vs {type(b).__name__}'))
        return out
    k = kind_of(a)
    with np.errstate(all='ignore'):
        if k == 'RDMs':
            _cmp_array(pre + 'dissimilarities', a.dissimilarities, b.dissimilarities, out, dtype=True)
            if (a.n_rdm, a.n_cond) != (b.n_rdm, b.n_cond):
                out.append((pre + 'n_rdm_n_cond', f'{(a.n_rdm, a.n_cond)} vs {(b.n_rdm, b.n_cond)}'))
            _cmp_scalar(pre + 'dissimilarity_measure', a.dissimilarity_measure, b.dissimilarity_measure, out)
            for f in ('descriptors', 'rdm_descriptors', 'pattern_descriptors'):
                _cmp_desc(pre + f, getattr(a, f), getattr(b, f), out)
        elif k in ('Dataset', 'TemporalDataset'):
            _cmp_array(pre + 'measurements', a.measurements, b.measurements, out, dtype=True)
            fs = ['descriptors', 'obs_descriptors', 'channel_descriptors'] + (['time_descriptors'] if k == 'TemporalDataset' else [])
            for f in fs:
                _cmp_desc(pre + f, getattr(a, f), getattr(b, f), out)
            dims = ('n_obs', 'n_channel') + (('n_time',) if k == 'TemporalDataset' else ())
            if any(getattr(a, d) != getattr(b, d) for d in dims):
                out.append((pre + 'dims', 'n_obs / n_channel / n_time differ'))
        elif k == 'Result':
            _cmp_array(pre + 'evaluations', a.evaluations, b.evaluations, out)
            _cmp_array(pre + 'variances', a.variances, b.variances, out)
            _cmp_array(pre + 'noise_ceiling', a.noise_ceiling, b.noise_ceiling, out)
            for f in ('dof', 'method', 'cv_method', 'n_rdm', 'n_pattern', 'n_model', 'n_bootstraps'):
                _cmp_scalar(pre + f, getattr(a, f), getattr(b, f), out)
            if len(a.models) != len(b.models):
                out.append((pre + 'models/count', f'{len(a.models)} vs {len(b.models)}'))
            else:
                for i, (ma, mb) in enumerate(zip(a.models, b.models)):
                    compare_objects(ma, mb, out, pre=pre + 'models/', light=light)
            for f in ('model_var', 'diff_var', 'noise_ceil_var'):
                _cmp_array(pre + 'derived/' + f, getattr(a, f), getattr(b, f), out)
            for tt in (() if light else ('t-test', 'bootstrap', 'ranksum')):
                for fn in ('test_all', 'test_pairwise', 'test_zero', 'test_noise'):
                    try:
                        ta = getattr(a, fn)(test_type=tt)
                    except Exception:
                        continue            # the test is not defined for this Result at all
                    try:
                        tb = getattr(b, fn)(test_type=tt)
                    except Exception as ex:
                        out.append((pre + f'tests/{tt}', f'{fn} raises {type(ex).__name__} after reload: {ex}'))
                        continue
                    ta = ta if isinstance(ta, tuple) else (ta,)
                    tb = tb if isinstance(tb, tuple) else (tb,)
                    for x, y in zip(ta, tb):
                        _cmp_array(pre + f'tests/{tt}', x, y, out)
            for fn in (() if light else ('get_means', 'get_sem')):
                try:
                    xa = getattr(a, fn)()
                except Exception:
                    continue
                try:
                    _cmp_array(pre + 'derived/' + fn, xa, getattr(b, fn)(), out)
                except Exception as ex:
                    out.append((pre + 'derived/' + fn, f'raises {type(ex).__name__}: {ex}'))
        else:   # a model
            _cmp_scalar(pre + 'name', a.name, b.name, out)
            if not isinstance(b.name, str):
                out.append((pre + 'name/type', type(b.name).__name__))
            _cmp_scalar(pre + 'n_param', a.n_param, b.n_param, out)
            if (a.rdm_obj is None) != (b.rdm_obj is None):
                out.append((pre + 'rdm_obj/none', ''))
            elif a.rdm_obj is not None:
                compare_objects(a.rdm_obj, b.rdm_obj, out, pre=pre + 'rdm_obj/')
                for th in (_thetas(a)[:2] if light else _thetas(a)):
                    try:
                        pa = a.predict(th)
                        ra = a.predict_rdm(th)
                    except Exception:
                        continue
                    try:
                        _cmp_array(pre + 'predict', pa, b.predict(th), out)
                        rb = b.predict_rdm(th)
                        _cmp_array(pre + 'predict_rdm', ra.dissimilarities, rb.dissimilarities, out)
                        _cmp_desc(pre + 'predict_rdm/pattern_descriptors', ra.pattern_descriptors,
                                  rb.pattern_descriptors, out)
                    except Exception as ex:
                        out.append((pre + 'predict/raises', f'{type(ex).__name__}: {ex}'))
    return out


def eq_holds(a, b):
    try:
        with np.errstate(all='ignore'):
            return bool(a == b) and bool(b == a)
    except Exception as ex:
        return f'raises {type(ex).__name__}: {ex}'


def eq_check(a, twin, b):
    """`==` between the original a and the reloaded b, where `==` is defined.
    `==` counts as defined when the class implements it (RDMs, Dataset, TemporalDataset), when it
    holds between a and an independently built twin of a (it is False for NaN content) and between
    b and a copy of b (it raises for array-valued entries of `descriptors`): these are limitations
    of __eq__, not of saving.  -> None (not defined) | True | False | 'raises ...'"""
    if kind_of(a) not in CONTAINERS:
        return None
    if eq_holds(a, twin) is not True:
        return None
    if eq_holds(b, copy.deepcopy(b)) is not True:
        return None
    return eq_holds(a, b)


def fingerprint(x, _depth=0):
    """strict, type-sensitive snapshot of an in-memory object (clause d)"""
    if _depth > 12:
        return 'deep'
    if x is None or isinstance(x, (bool, int, str, bytes)):
        return (type(x).__name__, x)
    if isinstance(x, float):
        return ('float', repr(x))
    if isinstance(x, np.ndarray):
        if x.dtype.kind == 'O':
            return ('ndarray', 'O', x.shape, tuple(fingerprint(v, _depth + 1) for v in x.ravel()))
        return ('ndarray', x.dtype.str, x.shape, hashlib.sha1(np.ascontiguousarray(x).tobytes()).hexdigest())
    if isinstance(x, np.generic):
        return (type(x).__name__, repr(x))
    if isinstance(x, dict):
        return ('dict', tuple((repr(k), fingerprint(v, _depth + 1)) for k, v in x.items()))
    if isinstance(x, (list, tuple)):
        return (type(x).__name__, tuple(fingerprint(v, _depth + 1) for v in x))
    if callable(x) and hasattr(x, '__name__'):
        return ('callable', x.__name__)
    if hasattr(x, '__dict__'):
        return (type(x).__name__, tuple((k, fingerprint(v, _depth + 1)) for k, v in vars(x).items()))
    return ('repr', repr(x))


def fp_diff(a, b, path=''):
    """first place where two fingerprints differ (for the report)"""
    if a == b:
        return None
    if isinstance(a, tuple) and isinstance(b, tuple) and len(a) == len(b) and a and a[0] == b[0]:
        for i, (x, y) in enumerate(zip(a, b)):
            d = fp_diff(x, y, f'{path}/{x[0] if isinstance(x, tuple) and x and isinstance(x[0], str) else i}')
            if d:
                return d
    return f'{path}: {_show(a)} -> {_show(b)}'


# ------------------------------------------------------------------------- public save / load
def do_save(obj, target, fmt, ow):
    """the public way to write an object.  Models have no save(): the dictionary form is written
    with the public dict writers, composed exactly like the save() methods of the other classes."""
    import rsatoolbox
    if isinstance(obj, rsatoolbox.model.Model):
        from rsatoolbox.util.file_io import remove_file
        from rsatoolbox.io.hdf5 import write_dict_hdf5
        from rsatoolbox.io.pkl import write_dict_pkl
        d = obj.to_dict()
        if ow:
            remove_file(target)
        (write_dict_hdf5 if fmt == 'hdf5' else write_dict_pkl)(target, d)
    else:
        obj.save(target, file_type=fmt, overwrite=bool(ow))


def do_load(kind, target, fmt):
    import rsatoolbox
    if kind == 'RDMs':
        return rsatoolbox.rdm.load_rdm(target, file_type=fmt)
    if kind in ('Dataset', 'TemporalDataset'):
        return rsatoolbox.data.load_dataset(target, file_type=fmt)
    if kind == 'Result':
        return rsatoolbox.inference.load_results(target, file_type=fmt)
    from rsatoolbox.io.hdf5 import read_dict_hdf5
    from rsatoolbox.io.pkl import read_dict_pkl
    return rsatoolbox.model.model_from_dict((read_dict_hdf5 if fmt == 'hdf5' else read_dict_pkl)(target))


def try_save(obj, target, fmt, ow):
    """-> ('Ok' | 'Refused' | 'Raises', exception or None)"""
    try:
        do_save(obj, target, fmt, ow)
        return 'Ok', None
    except Exception as ex:
        # the traceback keeps the writer's frame (and its h5py file) alive: drop it now, so that the
        # h5py file is released while the caller's file object is still open
        ex = ex.with_traceback(None)
        if isinstance(ex, ValueError) and 'File already exists' in str(ex):
            return 'Refused', ex
        gc.collect()
        return 'Raises', ex


def save_or_raise(obj, target, fmt, ow):
    out, ex = try_save(obj, target, fmt, ow)
    if ex is not None:
        raise ex


# ------------------------------------------------------------------- raw view of a file (no rsatoolbox)
class Corrupt(Exception):
    pass


def sniff(path):
    if not os.path.exists(path):
        return None
    with open(path, 'rb') as f:
        head = f.read(8)
    if not head:
        return 'empty'
    if head == HDF5_MAGIC:
        return 'hdf5'
    if head[:1] == b'\x80':
        return 'pkl'
    return 'unknown'


def raw_tree(path, fmt):
    """set of key paths stored in the file, read with h5py / pickle directly"""
    keys = set()
    if fmt == 'hdf5':
        import h5py
        try:
            with h5py.File(path, 'r') as f:
                def walk(g, pre):
                    for k in g.attrs.keys():
                        keys.add(pre + k)
                    for k in g.keys():
                        keys.add(pre + k)
                        if isinstance(g[k], h5py.Group):
                            walk(g[k], pre + k + '/')
                walk(f, '')
        except OSError as ex:
            raise Corrupt(f'h5py cannot open the file: {ex}')
    elif fmt == 'pkl':
        size = os.path.getsize(path)
        with open(path, 'rb') as f:
            try:
                d = pickle.load(f)
            except Exception as ex:
                raise Corrupt(f'pickle cannot read the file: {type(ex).__name__}: {ex}')
            rest = size - f.tell()
        if not isinstance(d, dict):
            raise Corrupt('the pickle is not a dict')

        def walk(dd, pre):
            for k, v in dd.items():
                keys.add(pre + str(k))
                if isinstance(v, dict):
                    walk(v, pre + str(k) + '/')
        walk(d, '')
        if rest:
            keys.add(f'<{rest} trailing bytes>')
    else:
        raise Corrupt(f'neither an HDF5 nor a pickle file ({fmt})')
    return keys


def dict_form(obj):
    """the documented dictionary layout of an object, derived from its public attributes
    (NOT from to_dict()); top-level keys are checked against the specification's KindKeys"""
    k = kind_of(obj)
    if k == 'RDMs':
        return {'dissimilarities': 0, 'descriptors': dict(obj.descriptors), 'rdm_descriptors': dict(obj.rdm_descriptors),
                'pattern_descriptors': dict(obj.pattern_descriptors), 'dissimilarity_measure': 0}
    if k in ('Dataset', 'TemporalDataset'):
        d = {'measurements': 0, 'descriptors': dict(obj.descriptors), 'obs_descriptors': dict(obj.obs_descriptors),
             'channel_descriptors': dict(obj.channel_descriptors), 'type': 0}
        if k == 'TemporalDataset':
            d['time_descriptors'] = dict(obj.time_descriptors)
        return d
    if k == 'Result':
        return {'evaluations': 0, 'dof': 0, 'variances': 0, 'noise_ceiling': 0, 'method': 0, 'cv_method': 0,
                'n_rdm': 0, 'n_pattern': 0,
                'models': {f'model_{i}': dict_form(m) for i, m in enumerate(obj.models)}}
    return {'rdm': dict_form(obj.rdm_obj) if obj.rdm_obj is not None else 0, 'name': 0, 'type': 0}


def expected_tree(obj):
    inner, leaves = set(), set()

    def walk(d, pre):
        for k, v in d.items():
            if isinstance(v, dict):
                inner.add(pre + str(k))
                walk(v, pre + str(k) + '/')
            else:
                leaves.add(pre + str(k))
    walk(dict_form(obj), '')
    return inner, leaves


def foreign_keys(path, fmt, obj):
    """keys in the file that the object did not put there"""
    inner, leaves = expected_tree(obj)
    out = []
    for k in sorted(raw_tree(path, fmt)):
        if k == 'rsatoolbox_version' or k in inner or k in leaves:
            continue
        if any(k.startswith(x + '/') for x in leaves):
            continue                       # a leaf value stored as a group (list fall-back / nested dict)
        out.append(k)
    return out


def file_hash(path):
    if not os.path.exists(path):
        return None
    with open(path, 'rb') as f:
        return hashlib.sha1(f.read()).hexdigest()


def project_path(path, cands):
    """observed abstract state of one path.  cands: {cid: pristine object}.
    -> {'ex', 'fmt', 'own', 'why'}; own = cid the file holds exactly, 0 nothing, -1 anything else"""
    fmt = sniff(path)
    if fmt is None:
        return {'ex': 0, 'fmt': '', 'own': 0, 'why': ''}
    if fmt == 'empty':
        return {'ex': 1, 'fmt': '', 'own': 0, 'why': ''}
    if fmt == 'unknown':
        return {'ex': 1, 'fmt': '', 'own': -1, 'why': 'corrupt: no HDF5 signature / pickle header at offset 0'}
    try:
        raw_tree(path, fmt)
    except Corrupt as ex:
        return {'ex': 1, 'fmt': fmt, 'own': -1, 'why': f'corrupt: {ex}'}
    why = []
    loaded = {}
    for cid, ob in sorted(cands.items()):
        k = kind_of(ob)
        lk = 'Dataset' if k == 'TemporalDataset' else ('Model' if k in MODEL_KINDS else k)
        if lk not in loaded:
            try:
                loaded[lk] = do_load(k, path, fmt)
            except Exception as ex:
                loaded[lk] = ex
        lo = loaded[lk]
        if isinstance(lo, Exception):
            why.append(f'{cid}: loader raises {type(lo).__name__}: {lo}')
            continue
        diff = compare_objects(ob, lo, light=True)
        if diff:
            why.append(f'{cid}: {diff[0][0]}: {diff[0][1]}')
            continue
        fk = foreign_keys(path, fmt, ob)
        if fk:
            return {'ex': 1, 'fmt': fmt, 'own': -1, 'why': f'foreign-keys: holds object {cid} plus {fk[:6]}'}
        return {'ex': 1, 'fmt': fmt, 'own': cid, 'why': ''}
    return {'ex': 1, 'fmt': fmt, 'own': -1, 'why': 'wrong-content: ' + ' | '.join(why)[:600]}


def identify_bytes(seg, cands):
    """catalogue id of the object a pickle holds (0: none of them)"""
    loaded = {}
    for cid, ob in sorted(cands.items()):
        k = kind_of(ob)
        lk = 'Dataset' if k == 'TemporalDataset' else ('Model' if k in MODEL_KINDS else k)
        if lk not in loaded:
            try:
                loaded[lk] = do_load(k, io.BytesIO(seg), 'pkl')
            except Exception as ex:
                loaded[lk] = ex
        if not isinstance(loaded[lk], Exception) and not compare_objects(ob, loaded[lk], light=True):
            return cid
    return 0


def not_refused_class(path, old, old_ob, new, new_ob):
    """what an unrequested write onto an existing file left behind"""
    obs = project_path(path, {new: new_ob})
    if obs['own'] == new:
        return 'not-refused-replaced'
    if obs['why'].startswith('foreign-keys'):
        return 'not-refused-merged'
    if old_ob is not None and old != new and project_path(path, {old: old_ob})['why'].startswith('foreign-keys'):
        return 'not-refused-merged'
    return 'not-refused-' + why_class(obs['why'])


def why_class(why):
    return why.split(':')[0] if why else 'wrong-content'


# ------------------------------------------------------------------------------- the file world
class World:
    """two paths in a scratch directory, kept handles, the catalogue objects of one history"""

    def __init__(self, directory, kinds, features, pathlib_ok=None):
        self.pathlib_ok = pathlib_ok or {}
        os.makedirs(os.path.dirname(directory) or '.', exist_ok=True)
        self.dir = directory = tempfile.mkdtemp(prefix=os.path.basename(directory) + '_', dir=os.path.dirname(directory) or '.')
        self.paths = {p: os.path.join(directory, f'file{p}.dat') for p in (1, 2)}
        self.kinds = list(kinds)
        self.features = list(features)
        self.obj = {o + 1: build(k, o + 1, f) for o, (k, f) in enumerate(zip(kinds, features))}
        self.pristine = {o + 1: build(k, o + 1, f) for o, (k, f) in enumerate(zip(kinds, features))}
        self.fp = {o: fingerprint(x) for o, x in self.obj.items()}
        self.kept = {}
        self.kept_used = set()
        self.loaded = None       # (cid, object, fingerprint)
        self.stream = None       # the one open binary stream of the pickle-stream events
        self.stream_buffer = False

    # ---- pickle streams: several objects through ONE handle
    def stream_handle(self):
        if self.stream is None:
            self.stream = io.BytesIO() if self.stream_buffer else open(os.path.join(self.dir, 'stream.dat'), 'w+b')
        return self.stream

    def stream_save(self, e):
        ob = self.loaded[1] if e['src'] == 1 else self.obj[e['o']]
        f = self.stream_handle()
        out, ex = try_save(ob, f, 'pkl', e['ow'])
        if f.closed and ex is None:
            out, ex = 'Raises', IOError("the save closed the caller's open file object")
        elif not f.closed:
            f.flush()
        return out, ex

    def stream_load(self, kind):
        return do_load(kind, self.stream_handle(), 'pkl')

    def stream_view(self):
        """OBSERVED content of the stream: the catalogue id of every pickle in it (raw split with the
        pickle module, each segment identified with the library's loader on a private buffer) and the
        number of pickles before the handle's position (-1: the position is inside a pickle)"""
        f = self.stream_handle()
        if f.closed:
            return {'items': [-1], 'pos': -1}
        pos = f.tell()
        if self.stream_buffer:
            data = f.getvalue()
        else:
            f.flush()
            with open(os.path.join(self.dir, 'stream.dat'), 'rb') as g:
                data = g.read()
        buf = io.BytesIO(data)
        bounds, items = [0], []
        while buf.tell() < len(data):
            start = buf.tell()
            try:
                pickle.load(buf)
            except Exception:
                items.append(-1)
                break
            seg = data[start:buf.tell()]
            bounds.append(buf.tell())
            items.append(identify_bytes(seg, self.pristine))
        return {'items': items, 'pos': bounds.index(pos) if pos in bounds else -1}

    def close(self):
        if self.stream is not None:
            try:
                self.stream.close()
            except Exception:
                pass
        for f in self.kept.values():
            try:
                f.close()
            except Exception:
                pass
        self.kept = {}
        shutil.rmtree(self.dir, ignore_errors=True)

    def situation(self, e):
        p = self.paths[e['p']]
        if e['mode'] == 'kept' and e['p'] in self.kept_used:
            s = 'reused-handle'
        elif os.path.exists(p) and os.path.getsize(p) > 0:
            s = 'existing'
        else:
            s = 'fresh'
        return s + ('-ow' if e['ow'] else '-noow')

    def _open(self, path):
        return open(path, 'r+b' if os.path.exists(path) else 'w+b')

    def name(self, e, op):
        """the file NAME handed to the library: a str, or for mode 'pathlib' a pathlib.Path - unless
        Path targets are not usable at all for this operation / format (reported once by
        pathlib_probe); then the str is used so that the rest of the history is still exercised"""
        path = self.paths[e['p']]
        if e['mode'] == 'pathlib' and self.pathlib_ok.get(f"{op}/{e['fmt']}", True):
            return pathlib.Path(path)
        return path

    def save(self, e):
        """-> (outcome, exception, the object that was saved)"""
        path = self.paths[e['p']]
        ob = self.loaded[1] if e['src'] == 1 else self.obj[e['o']]
        if e['mode'] in ('path', 'pathlib'):
            out, ex = try_save(ob, self.name(e, 'save'), e['fmt'], e['ow'])
        elif e['mode'] == 'fresh':
            f = self._open(path)
            try:
                out, ex = try_save(ob, f, e['fmt'], e['ow'])
            finally:
                f.close()
        else:
            f = self.kept.get(e['p'])
            if f is None:
                f = self.kept[e['p']] = self._open(path)
            out, ex = try_save(ob, f, e['fmt'], e['ow'])
            if f.closed:
                if ex is None:
                    out, ex = 'Raises', IOError("the save closed the caller's open file object")
            else:
                f.flush()
            self.kept_used.add(e['p'])
        return out, ex

    def load(self, e, kind):
        path = self.paths[e['p']]
        if e['mode'] in ('path', 'pathlib'):
            return do_load(kind, self.name(e, 'load'), e['fmt'])
        with open(path, 'rb') as f:
            return do_load(kind, f, e['fmt'])

    def close_handle(self, p):
        f = self.kept.pop(p, None)
        if f is not None:
            f.close()
        self.kept_used.discard(p)

    def mem_changed(self):
        """first in-memory object whose strict fingerprint changed, or None"""
        for o, x in self.obj.items():
            fp = fingerprint(x)
            if fp != self.fp[o]:
                return o, fp_diff(self.fp[o], fp)
        if self.loaded is not None:
            fp = fingerprint(self.loaded[1])
            if fp != self.loaded[2]:
                return 'loaded', fp_diff(self.loaded[2], fp)
        return None


HEAVY = ('twelve-models', 'size-big')     # matrix only: too slow to rebuild for every history


def pick_features(kinds, idx, safe):
    """feature of each content id for history number idx (rotating over the safe features)"""
    out = []
    for o, k in enumerate(kinds):
        fs = [f for f in safe[k] if not f.startswith('lib-') and f not in HEAVY] or ['base']
        out.append(fs[(idx * 7 + o * 3 + idx // len(fs)) % len(fs)])
    return out


# ------------------------------------------------------------------ S -> I: replay of TLC histories
def replay(rec, idx, directory, safe):
    """execute one TLC history.  -> (steps done, violation or None); a violation is
    (key suffix, what, detail dict)"""
    kinds = rec['kinds']
    feats = pick_features(kinds, idx, safe)
    w = World(os.path.join(directory, f'h{idx}'), kinds, feats, safe.get('__pathlib__'))
    # an in-memory buffer is a file object too (overwrite is not applied to buffers: real file then)
    w.stream_buffer = idx % 2 == 0 and not any(h['ev']['op'] == 'ssave' and h['ev']['ow'] for h in rec['hist'])
    case = {'kinds': kinds, 'features': feats, 'events': [h['ev'] for h in rec['hist']],
            'stream': 'BytesIO' if w.stream_buffer else 'file opened w+b'}
    try:
        for k, h in enumerate(rec['hist']):
            e = h['ev']
            v = _replay_step(w, e, h)
            if v is not None:
                key, what, detail = v
                case.update({'step': k, 'detail': detail, 'expected': {x: h[x] for x in ('out', 'res', 'post', 'spost')}})
                return k + 1, (key, what, case)
        return len(rec['hist']), None
    finally:
        w.close()


def _stream_step(w, e, h):
    """one pickle-stream event of a TLC history"""
    hashes = {q: file_hash(w.paths[q]) for q in (1, 2)}
    want = {'items': list(h['spost']['items']), 'pos': h['spost']['pos']}
    if e['op'] == 'sseek':
        w.stream_handle().seek(0)
    elif e['op'] == 'ssave':
        sit = 'overwrite' if e['ow'] else 'append'
        out, ex = w.stream_save(e)
        ch = w.mem_changed()
        if ch is not None:
            return ('d/pkl/object-changed', 'saving changed the in-memory object', {'object': ch[0], 'change': ch[1]})
        if out != 'Ok':
            return (f'e/pkl/stream/{sit}/raises-{type(ex).__name__}', 'saving through an open handle raises',
                    {'error': f'{type(ex).__name__}: {ex}'})
    else:
        exp = h['res']
        try:
            lo = w.stream_load(w.kinds[exp - 1])
        except Exception as ex:
            return (f'a/pkl/stream/load/raises-{type(ex).__name__}',
                    'objects saved one after the other through one handle: reading them back in order raises',
                    {'error': f'{type(ex).__name__}: {ex}', 'expected_content': exp})
        diff = compare_objects(w.pristine[exp], lo)
        if diff:
            got = [c for c, ob in w.pristine.items() if type(ob) is type(lo) and not compare_objects(ob, lo, light=True)]
            return ('a/pkl/stream/load/wrong-object',
                    'objects saved one after the other through one handle: a load does not return the object at the '
                    'handle position', {'expected_content': exp, 'returned_equals_content': got, 'diff': diff[:3]})
        w.loaded = (exp, lo, fingerprint(lo))
    got = w.stream_view()
    if got != want:
        return (f"e/pkl/stream/{e['op']}/stream-state", 'content or position of the stream after the call differs from the specification',
                {'observed': got, 'expected': want})
    if any(file_hash(w.paths[q]) != hashes[q] for q in (1, 2)):
        return (f"e/pkl/stream/{e['op']}/file-modified", 'a stream operation changed a file', {})
    return None


def _replay_step(w, e, h):
    fmt, mode = e['fmt'], e['mode']
    if e['op'] in ('ssave', 'sload', 'sseek'):
        return _stream_step(w, e, h)
    if e['op'] == 'close':
        w.close_handle(e['p'])
        return None
    other = 3 - e['p']
    other_hash = file_hash(w.paths[other])
    if e['op'] == 'save':
        sit = w.situation(e)
        pre = f'e/{fmt}/{mode}/{sit}'
        before = file_hash(w.paths[e['p']])
        out, ex = w.save(e)
        ch = w.mem_changed()
        if ch is not None:
            return (f'd/{fmt}/object-changed', 'saving changed the in-memory object',
                    {'object': ch[0], 'change': ch[1]})
        if out == 'Raises' and h['out'] == 'Refused' and mode == 'pathlib':
            # a pathlib.Path is refused by whatever exception the library raises ("refuses to replace an
            # existing HDF5 path"); what matters is that the file still holds exactly the old object
            old = h['post'][e['p'] - 1]
            obs = project_path(w.paths[e['p']], {old['own']: w.pristine[old['own']]} if old['own'] > 0 else {})
            if obs['own'] != old['own'] or obs['fmt'] != old['fmt']:
                return (f'{pre}/refused-but-modified',
                        f'the save raised {type(ex).__name__} but the existing file no longer holds exactly the old object',
                        {'error': f'{type(ex).__name__}: {ex}', 'observed': obs})
            if file_hash(w.paths[other]) != other_hash:
                return (f'{pre}/other-path-modified', 'a save changed the file at the other path', {})
            return None
        if out == 'Raises':
            return (f'{pre}/raises-{type(ex).__name__}',
                    f'save raises {type(ex).__name__} where the specification says {h["out"]}',
                    {'error': f'{type(ex).__name__}: {ex}'})
        if out != h['out']:
            if h['out'] == 'Refused':
                old = h['post'][e['p'] - 1]['own']
                return (f'{pre}/' + not_refused_class(w.paths[e['p']], old, w.pristine.get(old), e['o'], w.pristine[e['o']]),
                        'an existing HDF5 path was written to although overwrite was not requested', {})
            return (f'{pre}/refused-unexpectedly', f'save outcome {out}, specification says {h["out"]}', {})
        if file_hash(w.paths[other]) != other_hash:
            return (f'{pre}/other-path-modified', 'a save changed the file at the other path', {})
        if out == 'Refused':
            if file_hash(w.paths[e['p']]) != before:
                return (f'{pre}/refused-but-modified', 'a refused save changed the existing file', {})
            return None
        obs = project_path(w.paths[e['p']], {e['o']: w.pristine[e['o']]})
        if obs['own'] != e['o'] or obs['fmt'] != fmt:
            cls = why_class(obs['why'])
            return (f'{pre}/{cls if (obs["fmt"] == fmt or cls == "corrupt") else "wrong-format"}',
                    'after a successful save the file does not hold exactly the saved object',
                    {'observed': obs})
        return None
    # load
    exp = h['res']
    kind = w.kinds[exp - 1]
    try:
        lo = w.load(e, kind)
    except Exception as ex:
        return (f'a/{fmt}/history-load/raises-{type(ex).__name__}', 'load raises on a file the specification says is loadable',
                {'error': f'{type(ex).__name__}: {ex}'})
    diff = compare_objects(w.pristine[exp], lo)
    if diff:
        return (f'a/{fmt}/history-load/{diff[0][0]}', 'the loaded object differs from the last object saved to the path',
                {'diff': diff[:5]})
    r = eq_check(w.pristine[exp], w.obj[exp], lo)
    if r is not None and r is not True:
        return (f'a/{fmt}/history-load/eq-operator', '`==` is defined for the original but fails against the reloaded object',
                {'eq': r})
    if file_hash(w.paths[other]) != other_hash:
        return (f'a/{fmt}/history-load/other-path-modified', 'a load changed a file', {})
    w.loaded = (exp, lo, fingerprint(lo))
    ch = w.mem_changed()
    if ch is not None:
        return (f'd/{fmt}/object-changed-by-load', 'loading changed an in-memory object', {'object': ch[0], 'change': ch[1]})
    return None


# ----------------------------------------------------------- I -> S: record random histories
def record_history(seed, length, directory, safe, modes=('path', 'pathlib', 'fresh', 'kept')):
    """random admissible history on real files; everything logged is OBSERVED (outcome from the
    exception, file system from project_path, identity of a loaded object from the oracle).
    -> {'kinds', 'features', 'steps': [...]} ; a step with 'error' ends the history."""
    rng = np.random.default_rng(seed)
    kinds = [str(rng.choice(KINDS)) for _ in range(3)]
    if rng.random() < 0.5:
        kinds[1] = kinds[0]
    feats = pick_features(kinds, int(rng.integers(0, 10 ** 6)), safe)
    w = World(os.path.join(directory, f't{seed}'), kinds, feats, safe.get('__pathlib__'))
    steps = []
    view = {1: {'ex': 0, 'fmt': '', 'own': 0}, 2: {'ex': 0, 'fmt': '', 'own': 0}}
    held = set()
    loaded = 0
    w.stream_buffer = bool(rng.integers(0, 2))
    sview = {'items': [], 'pos': 0}
    mine = []                 # what this caller wrote to the stream (it picks the loader by that)
    try:
        tries = 0
        while len(steps) < length and tries < 40 * length:
            tries += 1
            p = int(rng.integers(1, 3))
            has = view[p]['ex'] == 1 and view[p]['own'] != 0
            u = rng.random()
            if u < 0.3:
                v = rng.random()
                n_items = len(sview['items'])
                if v < 0.45:
                    src = 1 if (loaded > 0 and rng.random() < 0.25) else 0
                    ow = 0 if w.stream_buffer else int(rng.random() < 0.2)
                    e = {'op': 'ssave', 'o': loaded if src else int(rng.integers(1, 4)), 'src': src, 'p': 0,
                         'fmt': 'pkl', 'ow': ow, 'mode': 'stream'}
                    if not ow and sview['pos'] != n_items:
                        continue
                elif v < 0.8:
                    if not (0 <= sview['pos'] < n_items) or len(mine) != n_items:
                        continue
                    e = {'op': 'sload', 'o': 0, 'src': 0, 'p': 0, 'fmt': 'pkl', 'ow': 0, 'mode': 'stream'}
                else:
                    if not n_items:
                        continue
                    e = {'op': 'sseek', 'o': 0, 'src': 0, 'p': 0, 'fmt': 'pkl', 'ow': 0, 'mode': 'stream'}
            elif u < 0.62:
                src = 1 if (loaded > 0 and rng.random() < 0.25) else 0
                e = {'op': 'save', 'o': loaded if src else int(rng.integers(1, 4)), 'src': src, 'p': p,
                     'fmt': str(rng.choice(FMTS)), 'ow': int(rng.integers(0, 2)), 'mode': str(rng.choice(modes))}
                if e['mode'] != 'kept' and p in held:
                    continue
                if e['mode'] not in ('path', 'pathlib') and not e['ow'] and has:
                    continue
            elif u < 0.92:
                if not has or view[p]['own'] < 0:
                    continue
                e = {'op': 'load', 'o': 0, 'src': 0, 'p': p, 'fmt': view[p]['fmt'], 'ow': 0,
                     'mode': str(rng.choice([m for m in modes if m != 'kept']))}
            else:
                if p not in held:
                    continue
                e = {'op': 'close', 'o': 0, 'src': 0, 'p': p, 'fmt': '', 'ow': 0, 'mode': ''}
            st = {'ev': e, 'out': 'Ok', 'res': 0, 'memok': 1, 'sit': '', 'why': ''}
            if e['op'] == 'sseek':
                w.stream_handle().seek(0)
            elif e['op'] == 'ssave':
                st['sit'] = 'overwrite' if e['ow'] else 'append'
                out, ex = w.stream_save(e)
                if out != 'Ok':
                    st['error'] = f'{type(ex).__name__}: {ex}'
                    st['errtype'] = type(ex).__name__
                    steps.append(st)
                    break
                mine = [e['o']] if e['ow'] else mine + [e['o']]
            elif e['op'] == 'sload':
                exp = mine[sview['pos']]
                try:
                    lo = w.stream_load(kinds[exp - 1])
                except Exception as ex:
                    st['error'] = f'{type(ex).__name__}: {ex}'
                    st['errtype'] = type(ex).__name__
                    steps.append(st)
                    break
                got = [c for c, ob in w.pristine.items() if type(ob) is type(lo) and not compare_objects(ob, lo)]
                st['res'] = exp if exp in got else (got[0] if got else 0)
                if st['res']:
                    w.loaded = (st['res'], lo, fingerprint(lo))
                    loaded = st['res']
                st['why'] = '' if st['res'] == exp else f'returned an object equal to content {got}, the handle was at content {exp}'
            elif e['op'] == 'close':
                w.close_handle(p)
                held.discard(p)
            elif e['op'] == 'save':
                st['sit'] = w.situation(e)
                out, ex = w.save(e)
                if e['mode'] == 'kept':
                    held.add(p)
                if out == 'Raises' and e['mode'] == 'pathlib' and e['fmt'] == 'hdf5' and not e['ow'] and view[p]['ex']:
                    out = 'Refused'         # refused by another exception; the logged file system decides
                    st['why'] = f'refused by {type(ex).__name__}'
                if out == 'Raises':
                    st['error'] = f'{type(ex).__name__}: {ex}'
                    st['errtype'] = type(ex).__name__
                    steps.append(st)
                    break
                st['out'] = out
                if out == 'Ok' and e['fmt'] == 'hdf5' and e['mode'] in ('path', 'pathlib') and not e['ow'] and view[p]['ex']:
                    old = view[p]['own']
                    st['nr'] = not_refused_class(w.paths[p], old, w.pristine.get(old), e['o'], w.pristine[e['o']])
            else:
                res, lo, err = 0, None, None
                for cid in (1, 2, 3):
                    try:
                        lo = w.load(e, kinds[cid - 1])
                    except Exception as ex:
                        err = ex
                        continue
                    if not compare_objects(w.pristine[cid], lo) and \
                            eq_check(w.pristine[cid], w.obj[cid], lo) in (None, True):
                        res = cid
                        break
                if res == 0 and err is not None and lo is None:
                    st['error'] = f'{type(err).__name__}: {err}'
                    st['errtype'] = type(err).__name__
                    steps.append(st)
                    break
                st['res'] = res
                if res:
                    w.loaded = (res, lo, fingerprint(lo))
                    loaded = res
                else:
                    diff = compare_objects(w.pristine[view[p]['own']], lo) if view[p]['own'] > 0 else []
                    st['why'] = diff[0][0] if diff else 'no catalogue object equals the loaded object'
            if w.mem_changed() is not None:
                st['memok'] = 0
                st['why'] = str(w.mem_changed())
            cands = dict(w.pristine)
            obs = {q: project_path(w.paths[q], cands) for q in (1, 2)}
            for q in (1, 2):
                if obs[q]['why'] and not st['why']:
                    st['why'] = obs[q]['why']
            view = {q: {'ex': obs[q]['ex'], 'fmt': obs[q]['fmt'], 'own': obs[q]['own']} for q in (1, 2)}
            st['post'] = [view[1], view[2]]
            if e['op'] in ('ssave', 'sload', 'sseek'):
                sview = w.stream_view()
            st['spost'] = {'items': list(sview['items']), 'pos': sview['pos']}
            steps.append(st)
            if sview['pos'] < 0 or any(x <= 0 for x in sview['items']):
                break                     # the stream left the model; the trace spec will say where
            if any(view[q]['own'] < 0 for q in (1, 2)):
                break                     # the file system left the model; the trace spec will say where
    finally:
        w.close()
    return {'kinds': kinds, 'features': feats, 'steps': steps}


# --------------------------------------------------------------- round-trip matrix (clauses a b d)
def matrix_case(kind, cid, feature, directory, second_generation=True):
    """every object of the catalogue x format x target kind: save, load, compare.
    -> list of (key suffix, what, detail) and the number of round trips done"""
    os.makedirs(directory, exist_ok=True)
    directory = tempfile.mkdtemp(prefix='mx_', dir=directory)
    try:
        return _matrix_case(kind, cid, feature, directory, second_generation)
    finally:
        shutil.rmtree(directory, ignore_errors=True)


def _matrix_case(kind, cid, feature, directory, second_generation):
    cls, demanded = feature_class(kind, feature)
    out, n = [], 0
    failed = set()
    try:
        ob = build(kind, cid, feature)
        pristine = build(kind, cid, feature)
    except Exception as ex:
        return [('build', None, f'{type(ex).__name__}: {ex}', {'kind': kind, 'feature': feature})], n
    for fmt in FMTS:
        for mode in ('path', 'fresh', 'bytesio'):
            fp = fingerprint(ob)
            path = os.path.join(directory, f'm_{kind}_{feature}_{fmt}_{mode}.dat')
            if os.path.exists(path):
                os.remove(path)
            n += 1
            case = {'kind': kind, 'feature': feature, 'fmt': fmt, 'target': mode}
            try:
                if mode == 'path':
                    save_or_raise(ob, path, fmt, False)
                    lo = do_load(kind, path, fmt)
                elif mode == 'fresh':
                    with open(path, 'w+b') as f:
                        save_or_raise(ob, f, fmt, True)
                    with open(path, 'rb') as f:
                        lo = do_load(kind, f, fmt)
                else:
                    buf = io.BytesIO()
                    save_or_raise(ob, buf, fmt, False)
                    buf.seek(0)
                    lo = do_load(kind, buf, fmt)
            except Exception as ex:
                gc.collect()
                failed.add(fmt)
                out.append((f'a/{fmt}/{cls}/{type(ex).__name__}', demanded,
                            f'save/load raises {type(ex).__name__}: {ex}', case))
                continue
            finally:
                if os.path.exists(path):
                    os.remove(path)
            fp2 = fingerprint(ob)
            if fp2 != fp:
                out.append((f'd/{fmt}/{cls}/object-changed', True, 'saving changed the in-memory object',
                            {**case, 'change': fp_diff(fp, fp2)}))
            diff = compare_objects(pristine, lo)
            if diff:
                clause = 'b' if any(x in diff[0][0] for x in ('tests/', 'derived/')) else 'a'
                out.append((f'{clause}/{fmt}/{cls}/{diff[0][0]}', demanded,
                            'the reloaded object differs from the saved one', {**case, 'diff': diff[:6]}))
                continue
            r = eq_check(pristine, ob, lo)
            if r is not None and r is not True:
                out.append((f'a/{fmt}/{cls}/eq-operator', demanded,
                            '`==` holds between copies of the original but not against the reloaded object',
                            {**case, 'eq': r}))
            if second_generation and mode == 'path':
                # the reloaded object is itself an object: it must round-trip too (other format as well)
                for fmt2 in FMTS:
                    if fmt2 in failed or (fmt2 == 'pkl' and fmt == 'hdf5' and 'hdf5' in failed):
                        continue           # this object cannot be written in fmt2 at all (reported above)
                    n += 1
                    try:
                        save_or_raise(lo, path, fmt2, True)
                        lo2 = do_load(kind, path, fmt2)
                    except Exception as ex:
                        gc.collect()
                        out.append((f'a/{fmt2}/{cls}/second-generation/{type(ex).__name__}', demanded,
                                    f'saving a reloaded object raises {type(ex).__name__}: {ex}', {**case, 'fmt2': fmt2}))
                        continue
                    finally:
                        if os.path.exists(path):
                            os.remove(path)
                    diff = compare_objects(pristine, lo2)
                    if diff:
                        out.append((f'a/{fmt2}/{cls}/second-generation/{diff[0][0]}', demanded,
                                    'an object saved, loaded, saved and loaded again differs from the original',
                                    {**case, 'fmt2': fmt2, 'diff': diff[:6]}))
    return out, n


def pathlib_probe(directory):
    """are pathlib.Path targets usable at all?  every kind x format: save to a fresh Path, load from a
    Path (explicit file_type).  -> ({'save/hdf5': bool, ...}, [(key, demanded, what, case)], n)"""
    os.makedirs(directory, exist_ok=True)
    ok = {f'{op}/{fmt}': True for op in ('save', 'load') for fmt in FMTS}
    out, n = [], 0
    for kind in KINDS:
        ob = build(kind, 1, 'base')
        for fmt in FMTS:
            path = os.path.join(directory, f'pl_{kind}_{fmt}.dat')
            if os.path.exists(path):
                os.remove(path)
            n += 1
            case = {'kind': kind, 'fmt': fmt}
            try:
                save_or_raise(ob, pathlib.Path(path), fmt, False)
            except Exception as ex:
                ok[f'save/{fmt}'] = False
                out.append((f'a/{fmt}/pathlib-target/save-raises-{type(ex).__name__}', True,
                            f'saving to a pathlib.Path raises {type(ex).__name__}: {ex}', case))
                if os.path.exists(path):
                    os.remove(path)
                save_or_raise(ob, path, fmt, False)
            try:
                lo = do_load(kind, pathlib.Path(path), fmt)
                diff = compare_objects(ob, lo)
                if diff:
                    out.append((f'a/{fmt}/pathlib-target/{diff[0][0]}', True, 'round trip through a pathlib.Path differs',
                                {**case, 'diff': diff[:4]}))
            except Exception as ex:
                ok[f'load/{fmt}'] = False
                out.append((f'a/{fmt}/pathlib-target/load-raises-{type(ex).__name__}', True,
                            f'loading from a pathlib.Path raises {type(ex).__name__}: {ex}', case))
            finally:
                if os.path.exists(path):
                    os.remove(path)
    return ok, out, n


def infer_type_cases(directory):
    """load_* with file_type=None infers the format from the file name"""
    out, n = [], 0
    for kind in ('RDMs', 'Dataset', 'TemporalDataset', 'Result'):
        ob = build(kind, 1, 'base')
        for suffix, fmt in (('.h5', 'hdf5'), ('.hdf5', 'hdf5'), ('.pkl', 'pkl')):
            path = os.path.join(directory, f'infer_{kind}{suffix}')
            if os.path.exists(path):
                os.remove(path)
            n += 1
            try:
                save_or_raise(ob, path, fmt, False)
                lo = do_load(kind, path, None)
                diff = compare_objects(ob, lo)
                if diff:
                    out.append((f'a/{fmt}/infer-file-type/{diff[0][0]}', True, 'round trip with inferred file type differs',
                                {'kind': kind, 'suffix': suffix, 'diff': diff[:4]}))
            except Exception as ex:
                out.append((f'a/{fmt}/infer-file-type/{type(ex).__name__}', True,
                            f'{type(ex).__name__}: {ex}', {'kind': kind, 'suffix': suffix}))
            finally:
                if os.path.exists(path):
                    os.remove(path)
            if kind != 'RDMs':
                continue
            n += 1                          # the same with the name given as a pathlib.Path
            try:
                save_or_raise(ob, path, fmt, False)
                lo = do_load(kind, pathlib.Path(path), None)
                diff = compare_objects(ob, lo)
                if diff:
                    out.append((f'a/{fmt}/infer-file-type-pathlib/{diff[0][0]}', True,
                                'round trip with inferred file type differs', {'kind': kind, 'suffix': suffix}))
            except Exception as ex:
                out.append((f'a/{fmt}/infer-file-type-pathlib/{type(ex).__name__}', True,
                            f'load_rdm(pathlib.Path(..{suffix})) without file_type: {type(ex).__name__}: {ex}',
                            {'kind': kind, 'suffix': suffix}))
            finally:
                if os.path.exists(path):
                    os.remove(path)
    return out, n


def roundtrip(ob, kind, fmt, mode, directory, tag):
    """one save/load of an arbitrary object; returns the reloaded object"""
    path = os.path.join(directory, f'rt_{tag}.dat')
    if os.path.exists(path):
        os.remove(path)
    try:
        if mode == 'path':
            save_or_raise(ob, path, fmt, False)
            return do_load(kind, path, fmt)
        if mode == 'fresh':
            with open(path, 'w+b') as f:
                save_or_raise(ob, f, fmt, True)
            with open(path, 'rb') as f:
                return do_load(kind, f, fmt)
        buf = io.BytesIO()
        save_or_raise(ob, buf, fmt, False)
        buf.seek(0)
        return do_load(kind, buf, fmt)
    finally:
        if os.path.exists(path):
            os.remove(path)


MODES3 = ('path', 'fresh', 'bytesio')


# ------------------------------------------------------- clause c: objects after structural histories
def _ev(op, o, o2=0, by='', vals=()):
    return {'op': op, 'o': o, 'o2': o2, 'by': by, 'vals': list(vals), 'by2': '', 'vals2': []}


# scripted structural histories that are part of every run (seed independent): compositions whose
# result carries library-made descriptors (p_inv of permute_rdms, descriptors demoted by from_partials)
RDMS_SCRIPTS = {
    'permute-then-from_partials': [_ev('subset', 1, by='subj', vals=[2]), _ev('permute', 1, vals=[2, 1, 4, 3]),
                                   _ev('drop', 1), _ev('from_partials', 2, 3)],
    'permute-then-concat': [_ev('getitem', 1, vals=[1]), _ev('permute', 2, vals=[2, 3, 4, 1]), _ev('drop', 1),
                            _ev('concat', 3, 3)],
    'permute-inverse': [_ev('permute', 1, vals=[4, 3, 2, 1]), _ev('inverse_permute', 2), _ev('drop', 1)],
    'subsample-append': [_ev('subset', 1, by='subj', vals=[1]), _ev('subset', 1, by='subj', vals=[3]),
                         _ev('append', 2, 3)],
    'partials-of-subsets': [_ev('subset_pattern', 1, by='cond', vals=[1, 2, 3]), _ev('getitem', 2, vals=[1]),
                            _ev('drop', 2), _ev('subset_pattern', 1, by='cond', vals=[2, 3, 4]), _ev('drop', 1),
                            _ev('from_partials', 3, 2)],
    'sort-subsample_pattern': [_ev('sort_alpha', 1, by='cat'), _ev('subsample_pattern', 1, by='cond', vals=[3, 3, 1])],
}


def rdms_structural(seed, length, directory, const=None, script=None):
    """RDMs: a random history of C10 operations (harness/rdmstore.py) is run twice on real objects -
    run A plainly, run B with live objects replaced by their save/load copies at random points.
    Every later step must give the same projected heap (so every invariant RdmsStore proves for A
    holds for B).  Finally every live object is round-tripped and compared with the oracle.
    -> dict(viol=[...], steps, trace (run B in Trace_RdmsStore format) or None, skipped reason)"""
    from harness import rdmstore as S
    os.makedirs(directory, exist_ok=True)
    directory = tempfile.mkdtemp(prefix='rs_', dir=directory)       # private to this job
    try:
        return _rdms_structural(S, seed, length, directory, const, script)
    finally:
        shutil.rmtree(directory, ignore_errors=True)


def _rdms_structural(S, seed, length, directory, const, script):
    rng = np.random.default_rng(seed)
    const = const or {'NR': 3, 'NC': 4, 'MaxObj': 3, 'MaxRows': 4, 'MaxPats': 4, 'NanPairs': {(2, 1, 3)}}
    flavour = S.FLAVOURS[seed % 4]
    ops = ['getitem', 'subset', 'subsample', 'subset_pattern', 'subsample_pattern', 'reorder', 'sort_alpha',
           'sort_list', 'append', 'concat', 'from_partials', 'permute', 'inverse_permute', 'copy', 'dict',
           'matrices', 'to_df', 'drop']
    if script is None:
        events = S.random_trace(rng, const, flavour, length, ops, scratch=directory)
        if not events or events[-1].get('post') is None:
            return {'viol': [], 'steps': 0, 'trace': None, 'skipped': 'the C10 history itself fails (not a C16 matter)'}
    else:
        events = [{'ev': e, 'ret': [[], []]} for e in RDMS_SCRIPTS[script]]
    evs = [x['ev'] for x in events]
    variants = [int(v) for v in rng.integers(0, 12, size=len(evs))]
    maxobj = const['MaxObj']

    producer = {1: 'source'}

    def run(reload_plan):
        heap = {1: S.make_source(const['NR'], const['NC'], const['NanPairs'], flavour)}
        posts = []
        for k, e in enumerate(evs):
            for (slot, fmt, mode) in reload_plan.get(k, []):
                if slot in heap:
                    heap[slot] = roundtrip(heap[slot], 'RDMs', fmt, mode, directory, f's{seed}_{k}_{slot}')
            before = set(heap)
            if S.free_slot(heap, maxobj) is None and e['op'] not in ('reorder', 'sort_alpha', 'sort_list', 'append', 'to_df', 'drop'):
                raise RuntimeError('scripted history needs a free slot')
            extra = S.apply_event(heap, e, flavour, maxobj, scratch=directory, variant=variants[k])
            new = set(heap) - before
            if e['op'] not in ('to_df', 'drop', 'copy', 'dict', 'matrices'):
                producer[new.pop() if new else e['o']] = e['op']
            elif new:
                producer[new.pop()] = producer.get(e['o'], 'source')
            posts.append((S.project_heap(heap, maxobj),
                          extra[1].to_dict('list') if (extra is not None and extra[0] == 'df') else None))
        return heap, posts
    try:
        heap_a, posts_a = run({})
    except Exception as ex:
        return {'viol': [], 'steps': 0, 'trace': None, 'skipped': f'run A raises {type(ex).__name__} (C10 matter)'}
    plan = {}
    for k in range(len(evs)):
        if rng.random() < 0.6:
            plan[k] = [(int(rng.integers(1, maxobj + 1)), str(rng.choice(FMTS)), str(rng.choice(MODES3)))
                       for _ in range(int(rng.integers(1, 3)))]
    viol = []
    case = {'seed': seed, 'flavour': flavour, 'events': evs, 'reloads': {str(k): v for k, v in plan.items()}}
    try:
        heap_b, posts_b = run(plan)
    except Exception as ex:
        import traceback
        tb = traceback.extract_tb(ex.__traceback__)
        where = next((f.name for f in reversed(tb) if 'rsatoolbox' in f.filename), '?')
        viol.append((f'c/rdms/continue-after-reload/raises-{type(ex).__name__}',
                     'a history that works on the original objects raises once an object is replaced by its reloaded copy',
                     {**case, 'error': f'{type(ex).__name__}: {ex}', 'where': where}))
        return {'viol': viol, 'steps': len(evs), 'trace': None, 'skipped': None}
    for k, (pa, pb) in enumerate(zip(posts_a, posts_b)):
        if pa[0] != pb[0]:
            slot = next(i for i in range(maxobj) if pa[0][i] != pb[0][i])
            f = S.diff(pb[0][slot], pa[0][slot])
            viol.append((f"c/rdms/continue-after-reload/{evs[k]['op']}/{f}",
                         'the same operation gives a different result on a reloaded copy',
                         {**case, 'step': k, 'slot': slot + 1, 'original': pa[0][slot][f], 'reloaded': pb[0][slot][f]}))
            return {'viol': viol, 'steps': len(evs), 'trace': None, 'skipped': None}
        if pa[1] is not None and fingerprint(_df_norm(pa[1])) != fingerprint(_df_norm(pb[1])):
            viol.append(('c/rdms/continue-after-reload/to_df', 'to_df differs on a reloaded copy', {**case, 'step': k}))
            return {'viol': viol, 'steps': len(evs), 'trace': None, 'skipped': None}
    # final objects: every format / target
    nrt = 0
    for slot, ob in sorted(heap_a.items()):
        for fmt in FMTS:
            mode = MODES3[(seed + slot) % 3]
            nrt += 1
            try:
                lo = roundtrip(ob, 'RDMs', fmt, mode, directory, f'f{seed}_{slot}')
            except Exception as ex:
                viol.append((f'c/{fmt}/rdms/after-{producer.get(slot, "history")}/raises-{type(ex).__name__}',
                             'an RDMs object produced by structural operations cannot be saved / loaded',
                             {**case, 'slot': slot, 'error': f'{type(ex).__name__}: {ex}'}))
                continue
            diff = compare_objects(ob, lo)
            if not diff and S.project(lo, check=False) != S.project(ob, check=False):
                diff = [('projection', 'projected abstract state differs')]
            if diff:
                viol.append((f'c/{fmt}/rdms/after-{producer.get(slot, "history")}/{diff[0][0]}',
                             'an RDMs object produced by structural operations does not round-trip',
                             {**case, 'slot': slot, 'diff': diff[:5]}))
            elif eq_check(ob, copy.deepcopy(ob), lo) not in (None, True):
                viol.append((f'c/{fmt}/rdms/after-{producer.get(slot, "history")}/eq-operator', '`==` fails against the reloaded copy',
                             {**case, 'slot': slot}))
    trace = [dict(x, post=p[0]) for x, p in zip(events, posts_b)]       # keeps any further logged field (e.g. 'ret')
    return {'viol': viol, 'steps': len(evs) + nrt, 'trace': trace, 'skipped': None,
            'nreload': sum(len(v) for v in plan.values())}


def _df_norm(d):
    """DataFrame as a dict of columns, column ORDER ignored (HDF5 returns descriptor keys sorted)"""
    return {k: [x if not isinstance(x, float) or x == x else 'nan' for x in map(_py, d[k])] for k in sorted(d)}


def _py(x):
    if isinstance(x, np.generic):
        return x.item()
    return x


def _uniq(col):
    """distinct scalar values in order of first appearance; None if the entries are not scalars"""
    seen = []
    for v in col:
        v = _py(v)
        if not isinstance(v, (str, int, float, bool)):
            return None
        if v not in seen:
            seen.append(v)
    return seen


def _ds_ops(ob, rng):
    """one random admissible Dataset / TemporalDataset operation, chosen from the state of ob.
    -> (name, function obj -> result object (or the same object for in-place ops))"""
    import rsatoolbox
    from rsatoolbox.data.ops import merge_datasets
    temporal = kind_of(ob) == 'TemporalDataset'
    cands = []
    for by in list(ob.obs_descriptors):
        vals = _uniq(ob.obs_descriptors[by])
        if not vals:
            continue
        v = vals[int(rng.integers(0, len(vals)))]
        cands.append((f'subset_obs', lambda o, by=by, v=v: o.subset_obs(by, v)))
        cands.append((f'split_obs', lambda o, by=by, i=int(rng.integers(0, len(vals))): o.split_obs(by)[i]))
        cands.append((f'sort_by', lambda o, by=by: (o.sort_by(by), o)[1]))
        cands.append((f'split_merge', lambda o, by=by: merge_datasets(o.split_obs(by))))
        if not temporal and len(vals) >= 2:
            cands.append((f'odd_even_split', lambda o, by=by, i=int(rng.integers(0, 2)): o.odd_even_split(by)[i]))
    for by in list(ob.channel_descriptors):
        vals = _uniq(ob.channel_descriptors[by])
        if not vals:
            continue
        v = vals[int(rng.integers(0, len(vals)))]
        cands.append((f'subset_channel', lambda o, by=by, v=v: o.subset_channel(by, v)))
        cands.append((f'split_channel', lambda o, by=by, i=int(rng.integers(0, len(vals))): o.split_channel(by)[i]))
    cands.append(('copy', lambda o: o.copy()))
    if temporal:
        for by in list(ob.time_descriptors):
            vals = _uniq(ob.time_descriptors[by])
            if not vals:
                continue
            i = int(rng.integers(0, len(vals)))
            cands.append(('split_time', lambda o, by=by, i=i: o.split_time(by)[i]))
            if all(isinstance(v, (int, float)) for v in vals):
                lo, hi = sorted([vals[int(rng.integers(0, len(vals)))], vals[int(rng.integers(0, len(vals)))]])
                cands.append(('subset_time', lambda o, by=by, lo=lo, hi=hi: o.subset_time(by, lo, hi)))
                if len(vals) >= 2:
                    h = len(vals) // 2
                    bins = [np.array(vals[:h]), np.array(vals[h:])]
                    cands.append(('bin_time', lambda o, by=by, bins=bins: o.bin_time(by, bins)))
        cands.append(('time_as_channels', lambda o: o.time_as_channels()))
        cands.append(('time_as_observations', lambda o: o.time_as_observations('time')))
    return cands[int(rng.integers(0, len(cands)))]


def dataset_structural(seed, length, directory, safe):
    """Dataset / TemporalDataset: random operation histories run in lock-step on the original (A)
    and on a twin (B) that is replaced by its save/load copy at random points; the oracle compares
    A and B after every step, and the final object is round-tripped in every format."""
    os.makedirs(directory, exist_ok=True)
    directory = tempfile.mkdtemp(prefix='ds_', dir=directory)       # private to this job
    try:
        return _dataset_structural(seed, length, directory, safe)
    finally:
        shutil.rmtree(directory, ignore_errors=True)


def _dataset_structural(seed, length, directory, safe):
    rng = np.random.default_rng(seed)
    kind = 'TemporalDataset' if seed % 2 else 'Dataset'
    fs = [f for f in safe[kind] if not f.startswith('size-min')]
    feature = fs[int(rng.integers(0, len(fs)))]
    shape = {'Dataset': (6, 4), 'TemporalDataset': (4, 3, 4)}[kind]

    def mk():
        s = container_spec(kind, 1 + seed % 3, shape=shape, tag='struct')
        s['kind'] = kind
        if not feature.startswith('size-'):
            CONTAINER_FEATURES[feature][2](s)
        return construct(s)
    a, b = mk(), mk()
    viol, steps, names, nreload = [], 0, [], 0
    case = {'seed': seed, 'kind': kind, 'feature': feature}
    for k in range(length):
        if rng.random() < 0.6:
            fmt, mode = str(rng.choice(FMTS)), str(rng.choice(MODES3))
            try:
                b2 = roundtrip(b, kind_of(b), fmt, mode, directory, f'd{seed}_{k}')
            except Exception as ex:
                viol.append((f'c/{fmt}/dataset/after-history/raises-{type(ex).__name__}',
                             'a dataset produced by structural operations cannot be saved / loaded',
                             {**case, 'ops': names, 'error': f'{type(ex).__name__}: {ex}'}))
                break
            diff = compare_objects(a, b2)
            if diff:
                viol.append((f'c/{fmt}/dataset/after-history/{diff[0][0]}',
                             'a dataset produced by structural operations does not round-trip',
                             {**case, 'ops': names, 'diff': diff[:5]}))
                break
            b = b2
            nreload += 1
        name, fn = _ds_ops(a, rng)
        try:
            with np.errstate(all='ignore'):
                a2 = fn(a)
        except Exception:
            continue                        # not admissible on the original: not a C16 matter
        names.append(name)
        steps += 1
        try:
            with np.errstate(all='ignore'):
                b2 = fn(b)
        except Exception as ex:
            viol.append((f'c/dataset/continue-after-reload/{name}/raises-{type(ex).__name__}',
                         'an operation that works on the original raises on its reloaded copy',
                         {**case, 'ops': list(names), 'error': f'{type(ex).__name__}: {ex}'}))
            b2 = copy.deepcopy(a2)          # reported; re-synchronise the twin and go on
        diff = compare_objects(a2, b2)
        if diff:
            viol.append((f'c/dataset/continue-after-reload/{name}/{diff[0][0]}',
                         'the same operation gives a different result on a reloaded copy',
                         {**case, 'ops': list(names), 'diff': diff[:5]}))
            b2 = copy.deepcopy(a2)
        a, b = a2, b2
        if a.measurements.size == 0:
            break
    if not any('/after-history/' in v[0] for v in viol):
        for fmt in FMTS:
            for mode in MODES3:
                steps += 1
                try:
                    lo = roundtrip(a, kind_of(a), fmt, mode, directory, f'e{seed}')
                except Exception as ex:
                    viol.append((f'c/{fmt}/dataset/after-history/raises-{type(ex).__name__}',
                                 'a dataset produced by structural operations cannot be saved / loaded',
                                 {**case, 'ops': names, 'error': f'{type(ex).__name__}: {ex}'}))
                    break
                diff = compare_objects(a, lo)
                if diff:
                    viol.append((f'c/{fmt}/dataset/after-history/{diff[0][0]}',
                                 'a dataset produced by structural operations does not round-trip',
                                 {**case, 'ops': names, 'diff': diff[:5]}))
                    break
    return {'viol': viol, 'steps': steps, 'ops': names, 'nreload': nreload}
