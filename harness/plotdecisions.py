"""Drivers for the growth check X01 (specs/PlotDecisions.tla): the only place that knows how rsatoolbox.vis
and matplotlib look.

What is compared is the DECISION layer of the plotting functions - what is drawn where - read back from
the Figure / Axes objects the functions return (Agg backend, nothing is rendered):

Specification -> implementation
    check_bars_group   one TLC vector group (one input, one record per admissible bar order): a Result is
                       built from the integer grid, plot_model_comparison is called with option flavours
                       chosen per vector, and the picture is read back (bar order / tops / colours, error-bar
                       segments, tick labels, markers above 0 / below the ceiling, ceiling rectangle, and the
                       elements of the upper panel for nili / nili2 / golan / arrows / cliques) and compared
                       with the expected picture of the record whose order was drawn.
    check_grid         show_rdm: grid shape, which RDM sits in which panel, image contents, titles, tick
                       labels, colour bars, shared colour scale.
    check_cscale / check_tdisp / check_family   color_scale, plot_timecourse, get_node_position.
    probes             every documented option value of plot_model_comparison that the rotation does not
                       use (because it raises on the current tree) on a few Results: totality + decisions.
Implementation -> specification
    record_trace       Results from the real eval_fixed / eval_bootstrap_* (and numpy-generated ones) are
                       plotted with random options; the p-values of Result.test_all, the means, the ceiling
                       and the decisions read off the picture are logged as scaled integers for
                       Trace_PlotDecisions.tla.

Every function returns findings as (key, what, case) tuples; nothing here talks to ctx.
"""
from __future__ import annotations

import json
import math
import warnings
from fractions import Fraction

import matplotlib
matplotlib.use('Agg')
import matplotlib.pyplot as plt          # noqa: E402
import numpy as np                       # noqa: E402
import scipy.stats as st                 # noqa: E402
from matplotlib import cm                # noqa: E402
from matplotlib.colors import to_rgba    # noqa: E402
from matplotlib.container import BarContainer, ErrorbarContainer   # noqa: E402
from matplotlib.path import Path as MPath                            # noqa: E402

import rsatoolbox                                                   # noqa: E402
from rsatoolbox.inference import Result                             # noqa: E402
from rsatoolbox.model import ModelFixed                             # noqa: E402
from rsatoolbox.rdm import RDMs                                     # noqa: E402
from rsatoolbox.vis import plot_model_comparison, show_rdm, show_rdm_panel   # noqa: E402
from rsatoolbox.vis.colors import color_scale, rdm_colormap_classic          # noqa: E402
from rsatoolbox.vis.modelfamily_graph import get_node_position               # noqa: E402
from rsatoolbox.vis.modelfamily_graph import show_family_graph               # noqa: E402
from rsatoolbox.model.model_family import ModelFamily                        # noqa: E402
from rsatoolbox.vis.timecourse import plot_timecourse                        # noqa: E402

TOL = 1e-12           # a handful of float operations on dyadic numbers against an exact rational
PSCALE = 100000       # recorded p-values: floor(p * PSCALE)
HSCALE = 1000000      # recorded heights
NEAR = 2.0 / PSCALE   # a recorded p-value this close to a threshold is not decided by the scaled integer
SORTNAME = {0: 'unsorted', 1: 'descending', 2: 'ascending'}
MPTNAME = {0: 'uncorrected', 1: 'fdr', 2: 'bonferroni'}
SORT_FLAV = {0: [False], 1: [True, 'descending', 'descend', 'Descending'], 2: ['ascending', 'ascend', 'ASCENDING']}
MPT_FLAV = {0: ['uncorrected', None, 'Uncorrected'], 1: ['fdr', 'FDR'], 2: ['fwer', 'FWER', 'Bonferroni', 'bonferroni']}
STYLES = ['arrows', 'nili', 'nili2', 'golan', 'cliques', True, 'NILI', 'Golan', 'Cliques', 'Arrows', False, None]
STYLE_CLASS = {'arrows': 'arrows', 'nili': 'nili', 'nili2': 'nili2', 'golan': 'golan', 'cliques': 'cliques', True: 'arrows',
               'NILI': 'nili', 'Golan': 'golan', 'Cliques': 'cliques', 'Arrows': 'arrows', False: 'none', None: 'none'}
ZERO_FLAV = [True, 'dewdrops', 'icicles', 'Icicles']
NC_FLAV = [True, 'dewdrops', 'icicles', 'Dewdrops', False, None]
METHODS = ['corr', 'cosine', 'spearman', 'corr_cov', 'cosine_cov', 'kendall', 'tau-a', 'rho-a', 'neg_riem_dist']
BOOT_CV = ['bootstrap_rdm', 'bootstrap_pattern', 'bootstrap', 'bootstrap_crossval']
DEFAULT_BLUE = (0.0, 0.4, 0.9, 1.0)
_MODELS = {}


def mix(idx, field, mod):
    """decorrelated per-vector choice number `field` (flavours, sampling)"""
    h = ((int(idx) + 1) * 2654435761 + field * 40503) & 0xFFFFFFFF
    h ^= h >> 15
    h = (h * 2246822519) & 0xFFFFFFFF
    h ^= h >> 13
    return h % mod


def models(k):
    if k not in _MODELS:
        _MODELS[k] = [ModelFixed(f'm{i + 1}', np.arange(3.0) + i + 1) for i in range(k)]
    return _MODELS[k]


def fr(r):
    return Fraction(r[0], r[1])


def quiet():
    w = warnings.catch_warnings()
    w.__enter__()
    warnings.simplefilter('ignore')
    return w


# ------------------------------------------------------------------------------------------------
# fingerprints (clause f)
# ------------------------------------------------------------------------------------------------
def _fp_arr(a):
    if a is None:
        return None
    a = np.asarray(a)
    return (a.shape, str(a.dtype), a.tobytes())


def fp_result(r):
    return (_fp_arr(r.evaluations), _fp_arr(r.noise_ceiling), _fp_arr(r.variances), _fp_arr(r.model_var),
            _fp_arr(r.diff_var), _fp_arr(r.noise_ceil_var), r.dof, r.method, r.cv_method, r.n_rdm, r.n_pattern,
            tuple(m.name for m in r.models), tuple(id(m) for m in r.models), r.n_model, r.n_bootstraps)


def fp_rdms(r):
    return (_fp_arr(r.dissimilarities), r.dissimilarity_measure,
            json.dumps({k: np.asarray(v).tolist() for k, v in r.rdm_descriptors.items()}, sort_keys=True, default=str),
            json.dumps({k: np.asarray(v).tolist() for k, v in r.pattern_descriptors.items()}, sort_keys=True, default=str),
            json.dumps(r.descriptors, sort_keys=True, default=str), r.n_rdm, r.n_cond)


# ------------------------------------------------------------------------------------------------
# reading a model-comparison picture back
# ------------------------------------------------------------------------------------------------
def _marker_kind(l):
    m = l.get_marker()
    if isinstance(m, MPath):
        v = np.asarray(m.vertices)
        if v[:, 0].max() >= 1.9:
            return 'head_right'
        if v[:, 0].min() <= -1.9:
            return 'head_left'
        return 'wedge_up' if v[:, 1].max() > 0.5 else 'wedge_down'
    return m


def read_lines(ax):
    out = []
    for l in ax.lines:
        x = np.atleast_1d(np.asarray(l.get_xdata(), dtype=float))
        y = np.atleast_1d(np.asarray(l.get_ydata(), dtype=float))
        out.append({'x': x.tolist(), 'y': y.tolist(), 'marker': _marker_kind(l), 'color': tuple(to_rgba(l.get_color())),
                    'mfc': l.get_markerfacecolor(), 'lw': float(l.get_linewidth()), 'ls': l.get_linestyle()})
    return out


def read_picture(ax, axbar):
    pic = {}
    bcs = [c for c in ax.containers if isinstance(c, BarContainer)]
    if len(bcs) != 1:
        raise ValueError(f'{len(bcs)} bar containers')
    bars = list(bcs[0].patches)
    pic['x'] = [float(p.get_x() + p.get_width() / 2) for p in bars]
    pic['top'] = [float(p.get_y() + p.get_height()) for p in bars]
    pic['bottom'] = [float(p.get_y()) for p in bars]
    pic['colour'] = [tuple(float(c) for c in p.get_facecolor()) for p in bars]
    ecs = [c for c in ax.containers if isinstance(c, ErrorbarContainer)]
    pic['err'] = None
    if ecs:
        segs = ecs[0].lines[2][0].get_segments() if ecs[0].lines[2] else []
        pic['err'] = [(float(s[0][0]), float(s[0][1]), float(s[1][1])) for s in segs if len(s) == 2]      # NaN limits: empty segments
    pic['ceil'] = [(float(p.get_x()), float(p.get_y()), float(p.get_width()), float(p.get_height()))
                   for p in ax.patches if p not in bars]
    pic['labels'] = [t.get_text() for t in ax.get_xticklabels()]
    pic['xticks'] = [float(v) for v in ax.get_xticks()]
    pic['zero'] = None
    pic['nc'] = None
    for l in read_lines(ax):
        which = 'nc' if l['color'][3] == 0 else 'zero'
        pic[which] = {'x': l['x'], 'y': l['y'], 'marker': l['marker']}
    pic['upper'] = None
    if axbar is not None:
        pic['upper'] = {'lines': read_lines(axbar), 'texts': [(t.get_text(),) + tuple(float(v) for v in t.get_position())
                                                              for t in axbar.texts],
                        'ylim': tuple(float(v) for v in axbar.get_ylim())}
    return pic


def _isint(v):
    return abs(v - round(v)) < 1e-9


def parse_nili(lines):
    """-> (significant segments, non-significant segments) as lists of (i, j, height)"""
    sig, ns = [], []
    for l in lines:
        if len(l['x']) != 2 or l['y'][0] != l['y'][1]:
            continue
        i, j = l['x']
        if l['color'][:3] == (1.0, 1.0, 1.0):
            continue                                   # white gap behind the 'n.s.' text
        if not (_isint(i) and _isint(j)):
            continue
        (sig if l['color'][:3] == (0.0, 0.0, 0.0) else ns).append((int(round(i)), int(round(j)), l['y'][0]))
    return sig, ns


def parse_golan(lines):
    """-> wings bottom to top: dict(a=anchor, f=set of feathers, span=(lo, hi), down=all feathers point down, h=height)"""
    anchors, feathers, spans = [], [], []
    for l in lines:
        if len(l['x']) == 1:
            anchors.append((l['y'][0], int(round(l['x'][0]))))
        elif len(l['x']) == 2 and l['x'][0] == l['x'][1]:
            feathers.append((l['y'][0], int(round(l['x'][0])), l['y'][1] < l['y'][0]))
        elif len(l['x']) == 2:
            spans.append((l['y'][0], (int(round(min(l['x']))), int(round(max(l['x']))))))
    wings = []
    for h, a in sorted(anchors):
        fs = [(x, d) for (hh, x, d) in feathers if hh == h]
        sp = [s for (hh, s) in spans if hh == h]
        wings.append({'a': a, 'f': sorted(x for x, _ in fs), 'down': all(d for _, d in fs), 'span': sp, 'h': h})
    stray = len(feathers) - sum(len(w['f']) for w in wings) + len(spans) - sum(len(w['span']) for w in wings)
    return wings, stray


def parse_arrows(lines):
    """-> elements (type, x1, x2, height, lo, hi): 1 double arrow, 2 arrow (dot x1, head towards x2), 3 plain line"""
    els, i, s = [], 0, 0.45
    while i < len(lines):
        l = lines[i]
        if len(l['x']) == 1:
            if i + 2 >= len(lines):
                raise ValueError('incomplete arrow')
            mid, last = lines[i + 1], lines[i + 2]
            h = l['y'][0]
            if l['marker'] == 'o':
                x1 = l['x'][0]
                d = 1 if last['marker'] == 'head_right' else -1
                if last['marker'] not in ('head_right', 'head_left'):
                    raise ValueError(f"arrow without head: {last['marker']}")
                x2 = last['x'][0] + d * s
                els.append((2, int(round(x1)), int(round(x2)), h, min(x1, x2), max(x1, x2)))
            elif l['marker'] == 'head_left' and last['marker'] == 'head_right':
                x1, x2 = l['x'][0] - s, last['x'][0] + s
                els.append((1, int(round(x1)), int(round(x2)), h, x1, x2))
            else:
                raise ValueError(f"unknown arrow element {l['marker']} .. {last['marker']}")
            if len(mid['x']) != 2 or mid['y'][0] != h:
                raise ValueError('arrow shaft missing')
            i += 3
        else:
            a, b = l['x']
            els.append((3, int(round(min(a, b))), int(round(max(a, b))), l['y'][0], min(a, b), max(a, b)))
            i += 1
    return els


def parse_cliques(lines):
    """-> list of dict(span=(i, j), members=[...], h=height)"""
    out = []
    for l in lines:
        if len(l['x']) == 2:
            out.append({'span': (int(round(min(l['x']))), int(round(max(l['x'])))), 'members': [], 'h': l['y'][0]})
        elif out:
            out[-1]['members'].append(int(round(l['x'][0])))
        else:
            raise ValueError('clique member before any clique bar')
    return out


def cover(el, k):
    """pairs (0-based, i < j) an arrows element speaks about - Cov of the specification"""
    t, a, b = el[0], el[1], el[2]
    if t == 1:
        lo, hi = min(a, b), max(a, b)
        return {(p, q) for p in range(0, lo + 1) for q in range(hi, k) if p < q}
    if t == 2:
        if a < b:
            return {(a, q) for q in range(b, k)}
        return {(q, a) for q in range(0, b + 1)}
    return {(min(a, b), max(a, b))}


# ------------------------------------------------------------------------------------------------
# building Results from TLC vectors
# ------------------------------------------------------------------------------------------------
def boot_result(inp, idx):
    k, nb, den = inp['k'], inp['nb'], inp['den']
    ev = np.array(inp['ev'], dtype=float) / den
    nc = np.array([inp['ncl'], inp['ncu']], dtype=float) / den
    var = np.array(inp['var'], dtype=float) / (den * den)
    cvm = BOOT_CV[mix(idx, 1, len(BOOT_CV))]
    if mix(idx, 2, 3) == 0:
        # crossvalidation folds inside every bootstrap sample: mean over the trailing axis is the grid value (dyadic: exact)
        d = (np.arange(nb * k).reshape(nb, k) % 3 + 1) / 256.0
        ev = np.stack([ev + d, ev - d], axis=2)
    method = METHODS[mix(idx, 3, len(METHODS))] if mix(idx, 4, 3) == 0 else 'corr'
    if method == 'neg_riem_dist' and float(np.max(nc)) > 1:
        method = 'corr'
    return Result(models(k), ev, method, cvm, nc, variances=var, dof=nb - 1)


GIVEN_DOF = 7
GIVEN_NC = (0.5, 0.625)


def given_result(inp, idx):
    """a fixed-evaluation Result whose t-test p-values are the given ones (to ~1e-13)"""
    k = inp['k']
    perf = np.array(inp['rk'], dtype=float) / 32.0
    dof = GIVEN_DOF
    lo, up = GIVEN_NC
    v = np.empty(k)
    for m in range(k):
        t = st.t.ppf(1 - float(fr(inp['pz'][m])), dof)
        v[m] = (perf[m] / t) ** 2
    vlo = 1.0
    V = np.zeros((k + 2, k + 2))
    for m in range(k):
        V[m, m] = v[m]
    V[k, k] = vlo
    V[k + 1, k + 1] = 2.0
    for i in range(k):
        for j in range(i + 1, k):
            t = st.t.ppf(1 - float(fr(inp['pp'][i][j])) / 2, dof)
            dv = ((perf[i] - perf[j]) / t) ** 2
            V[i, j] = V[j, i] = (v[i] + v[j] - dv) / 2
        t = st.t.ppf(1 - float(fr(inp['pn'][i])) / 2, dof)
        ncv = ((perf[i] - lo) / t) ** 2
        V[i, k] = V[k, i] = (v[i] + vlo - ncv) / 2
    nsub = dof + 1
    spread = (np.arange(nsub) - (nsub - 1) / 2) / 64.0
    ev = (perf[:, None] + spread[None, :] * (1 + np.arange(k))[:, None])[None]
    nc = np.array([np.full(nsub, lo), np.full(nsub, up)])
    return Result(models(k), ev, 'corr', 'fixed', nc, variances=V, dof=dof)


# ------------------------------------------------------------------------------------------------
# option flavours and the call
# ------------------------------------------------------------------------------------------------
def colour_option(idx, k):
    """-> (name, argument, expected colour per MODEL (None: relational check only))"""
    c = mix(idx, 5, 8)
    base = [(0.1 + 0.2 * m, 0.9 - 0.15 * m, 0.25 + 0.1 * (m % 3)) for m in range(k)]
    if c in (0, 1):
        return 'none', None, [DEFAULT_BLUE] * k
    if c == 2:
        return 'single', [0.8, 0.2, 0.1], [(0.8, 0.2, 0.1, 1.0)] * k
    if c == 3:
        return 'single-rgba', np.array([0.2, 0.7, 0.1, 0.5]), [(0.2, 0.7, 0.1, 0.5)] * k
    if c in (4, 5):
        return 'per-model', [list(b) for b in base], [b + (1.0,) for b in base]
    if c == 6:
        return 'per-model-array', np.array([b + (0.75,) for b in base]), [b + (0.75,) for b in base]
    return 'gradient', [[1.0, 0.0, 0.0], [0.0, 0.0, 1.0], [0.0, 1.0, 0.0]][:2 if k != 2 else 3], None


def choose_options(inp, idx, test_type):
    o = {'sort': SORT_FLAV[inp['sort']][mix(idx, 6, len(SORT_FLAV[inp['sort']]))],
         'multiple_pair_testing': MPT_FLAV[inp['mpt']][mix(idx, 7, len(MPT_FLAV[inp['mpt']]))],
         'test_pair_comparisons': STYLES[mix(idx, 8, len(STYLES))],
         'test_above_0': ZERO_FLAV[mix(idx, 9, len(ZERO_FLAV))],
         'test_below_noise_ceil': NC_FLAV[mix(idx, 10, len(NC_FLAV))],
         'alpha': inp['alpha'][0] / inp['alpha'][1], 'test_type': test_type}
    if test_type == 'bootstrap':
        o['error_bars'] = ['sem', 'SEM', 'ci50', 'CI60', 'sem'][mix(idx, 11, 5)]
    else:
        o['error_bars'] = ['sem', 'SEM', 'ci', 'CI90', 'ci99.5'][mix(idx, 11, 5)]
    return o


class Unreadable(Exception):
    """the returned Axes do not hold the artists a model-comparison plot consists of"""


def call_plot(res, opts, colours=None):
    """-> (picture, None) or (None, exception raised by plot_model_comparison / Unreadable)"""
    opts = dict(opts)
    if 'colors' in opts:
        colours = opts.pop('colors')
    w = quiet()
    try:
        try:
            with np.errstate(all='ignore'):
                fig, ax, axbar = plot_model_comparison(res, colors=colours, **opts)
        except Exception as e:  # noqa: BLE001   reported by the caller as a totality failure
            plt.close('all')
            return None, e
        try:
            return read_picture(ax, axbar), None
        except Exception as e:  # noqa: BLE001
            return None, Unreadable(f'{type(e).__name__}: {e}')
        finally:
            plt.close(fig)
    finally:
        w.__exit__(None, None, None)


def optkey(v):
    return 'None' if v is None else (str(v) if isinstance(v, bool) else str(v).lower())


# ------------------------------------------------------------------------------------------------
# comparing a picture with the expected decisions
# ------------------------------------------------------------------------------------------------
def _close(a, b, tol=TOL):
    return abs(a - b) <= tol * max(1.0, abs(b))


def _assoc_or_value(got, exp, tol=TOL):
    """None if equal; 'assoc' if a permutation of the expected values; 'value' otherwise"""
    if len(got) != len(exp):
        return 'value'
    if all(_close(g, e, tol) for g, e in zip(got, exp)):
        return None
    return 'assoc' if all(_close(g, e, tol) for g, e in zip(sorted(got), sorted(exp))) else 'value'


def compare_upper(F, pic, exp, k, cls, mptname, case):
    """exp: dict with 0-based 'sig' pairs (set), 'nili2', 'golan' [(a, [f])], 'cliques' set of frozensets"""
    up = pic['upper']
    if cls == 'none':
        if up is not None:
            F.append((f'X01/layout/none/axes', 'an upper panel exists although test_pair_comparisons is off', case))
        return
    if up is None:
        F.append((f'X01/layout/{cls}/missing', 'no upper panel although pairwise tests were requested', case))
        return
    lines = up['lines']
    top = up['ylim'][1]
    try:
        if cls in ('nili', 'nili2'):
            sig, ns = parse_nili(lines)
            got, other, want = (sig, ns, exp['sig']) if cls == 'nili' else (ns, sig, exp['nili2'])
            gotset = {(i, j) for i, j, _ in got}
            if gotset != want or len(got) != len(want) or other:
                tooMany = sorted(gotset - want)
                miss = sorted(want - gotset)
                F.append((f'X01/c/pairs/{mptname}/{cls}', f'{cls} bars drawn for {sorted(gotset)} (plus {len(other)} of the other '
                          f'kind), expected {sorted(want)}: not expected {tooMany}, missing {miss}', case))
            hs = [h for _, _, h in got]
            if len(set(hs)) != len(hs) or any(not (0 < h <= top) for h in hs):
                F.append((f'X01/layout/{cls}/heights', f'bars share a height or leave the panel: {hs}, ylim top {top}', case))
            if cls == 'nili2':
                ntext = sum(1 for t in up['texts'] if t[0] == 'n.s.')
                if ntext != len(want):
                    F.append((f'X01/layout/nili2/texts', f"{ntext} 'n.s.' labels for {len(want)} bars", case))
        elif cls == 'golan':
            wings, stray = parse_golan(lines)
            got = [(w['a'], w['f']) for w in wings]
            if got != exp['golan'] or stray:
                key = 'order' if sorted(got) == sorted(exp['golan']) and not stray else 'wings'
                F.append((f'X01/c/pairs/{mptname}/golan/{key}', f'wings (anchor, feathers) bottom to top {got}, expected {exp["golan"]}', case))
            else:
                for w in wings:
                    lo, hi = min([w['a']] + w['f']), max([w['a']] + w['f'])
                    if w['span'] != [(lo, hi)] or not w['down']:
                        F.append((f'X01/layout/golan/span', f"wing of model position {w['a']}: line {w['span']}, expected {(lo, hi)}; "
                                  f"feathers down: {w['down']}", case))
                hs = [w['h'] for w in wings]
                if len(set(hs)) != len(hs) or any(not (0 < h <= top) for h in hs):
                    F.append((f'X01/layout/golan/heights', f'wings share a height or leave the panel: {hs}, ylim top {top}', case))
        elif cls == 'arrows':
            els = parse_arrows(lines)
            cov = set()
            for e in els:
                cov |= cover(e, k)
            if cov - exp['sig']:
                F.append((f'X01/c/pairs/{mptname}/arrows/unsound', f'elements {[(e[0], e[1], e[2]) for e in els]} assert the pairs '
                          f'{sorted(cov - exp["sig"])} which are not significant (significant: {sorted(exp["sig"])})', case))
            miss = exp['sig'] - cov
            if miss:
                # two mechanisms of plot_arrows, one class each: its last loop (`for j in range(0, i-1)`) never collects a plain line
                # for ADJACENT bars, and the collected lines (i > j) are only drawn if they start in the outer halves
                # (`if i == m` / `if j == n-1-m`).  Anything else that is missing (or any unsound element) keeps the clause key.
                if cov - exp['sig']:
                    key = f'X01/c/pairs/{mptname}/arrows/incomplete'
                elif all(b - a == 1 for a, b in miss):
                    key = 'X01/c/arrows/adjacent-pair-not-drawn'
                else:
                    key = 'X01/c/arrows/distant-pair-not-drawn'
                F.append((key, f'significant pairs {sorted(miss)} (bar positions) are not shown by any element; elements '
                          f'{[(e[0], e[1], e[2]) for e in els]}, significant {sorted(exp["sig"])}', case))
            for a in range(len(els)):
                for b in range(a + 1, len(els)):
                    if els[a][3] == els[b][3] and min(els[a][5], els[b][5]) - max(els[a][4], els[b][4]) > 1e-9:
                        F.append((f'X01/layout/arrows/overlap', f'elements {els[a]} and {els[b]} overlap on one height', case))
            if any(not (0 < e[3] <= top) for e in els):
                F.append((f'X01/layout/arrows/heights', f'an element leaves the panel (ylim top {top})', case))
        elif cls == 'cliques':
            cl = parse_cliques(lines)
            got = [frozenset(c['members']) for c in cl]
            if set(got) != exp['cliques'] or len(got) != len(exp['cliques']):
                F.append((f'X01/c/pairs/{mptname}/cliques', f'cliques {sorted(sorted(c) for c in got)}, expected '
                          f'{sorted(sorted(c) for c in exp["cliques"])}', case))
            else:
                for c in cl:
                    if c['span'] != (min(c['members']), max(c['members'])):
                        F.append((f'X01/layout/cliques/span', f"clique {c['members']} drawn with bar {c['span']}", case))
                for a in range(len(cl)):
                    for b in range(a + 1, len(cl)):
                        if cl[a]['h'] == cl[b]['h'] and min(cl[a]['span'][1], cl[b]['span'][1]) >= max(cl[a]['span'][0], cl[b]['span'][0]):
                            F.append((f'X01/layout/cliques/overlap', f'cliques {cl[a]} and {cl[b]} overlap on one height', case))
    except ValueError as e:
        F.append((f'X01/layout/{cls}/unreadable', f'upper panel cannot be read as {cls} elements: {e}', case))


def compare_marks(F, pic, which, opt, exp_pos, ypos, case):
    """markers above zero / below the ceiling: positions, height, marker family"""
    cls = 'off' if not opt else ('icicles' if str(opt).lower() == 'icicles' else 'dewdrops')
    m = pic[which]
    if cls == 'off':
        if m is not None and m['x']:
            F.append((f'X01/c/{which}/off', f'{which} markers drawn although the test is switched off', case))
        return
    got = sorted(int(round(x)) for x in (m['x'] if m else []))
    if got != sorted(exp_pos):
        F.append((f'X01/c/{which}/{cls}', f'{which} markers at positions {got}, expected {sorted(exp_pos)}', case))
        return
    if m and m['x']:
        fam = 'icicles' if m['marker'] in (10, 11) else 'dewdrops'
        if fam != cls:
            F.append((f'X01/layout/{which}/marker', f'marker {m["marker"]} for option {opt!r}', case))
        if any(abs(y - ypos) > 1e-3 for y in m['y']):
            F.append((f'X01/layout/{which}/height', f'markers at y = {m["y"]}, expected {ypos}', case))


def expected_from_record(rec):
    k = rec['inp']['k']
    sig = {(i, j) for i in range(k) for j in range(i + 1, k) if rec['sig'][i][j]}
    return {'sig': sig,
            'nili2': {(a - 1, b - 1) for a, b in rec['lay']['nili2']},
            'nili': {(a - 1, b - 1) for a, b in rec['lay']['nili']},
            'golan': [(w['a'] - 1, sorted(f - 1 for f in w['f'])) for w in rec['lay']['golan']],
            'cliques': {frozenset(m - 1 for m in c) for c in rec['lay']['cliques']}}


def check_bars_group(recs, idx, corrupt=None):
    """recs: the records of ONE input (one per admissible order).  -> findings, stats"""
    F, S = [], {'evals': 0, 'classes': set(), 'nontriv': set()}
    inp = recs[0]['inp']
    k, src = inp['k'], inp['src']
    test_type = 'bootstrap' if src == 'boot' else 't-test'
    sortname, mptname = SORTNAME[inp['sort']], MPTNAME[inp['mpt']]
    if src == 'given' and recs[0]['tie']:
        S['classes'].add('given/tie-skipped')
        return F, S
    res = boot_result(inp, idx) if src == 'boot' else given_result(inp, idx)
    if src == 'given':
        # machinery: the realisation reproduces the given p-values
        pp, pz, pn = res.test_all('t-test')
        for i in range(k):
            ok = abs(pz[i] - float(fr(inp['pz'][i]))) < 1e-9 and abs(pn[i] - float(fr(inp['pn'][i]))) < 1e-9
            for j in range(k):
                ok = ok and (i == j or abs(pp[i, j] - float(fr(inp['pp'][i][j]))) < 1e-9)
            if not ok:
                raise RuntimeError(f'realisation of given p-values failed: {inp}')
    opts = choose_options(inp, idx, test_type)
    if test_type == 'bootstrap' and opts['error_bars'].lower().startswith('ci'):
        # generator constraint: a percentile interval that does not contain the mean (skewed samples, narrow interval) cannot be
        # drawn as a pair of non-negative bar lengths (matplotlib refuses it): such vectors get the SEM instead
        lo_, hi_ = res.get_errorbars(opts['error_bars'], test_type)
        if np.any(np.asarray(lo_) < 0) or np.any(np.asarray(hi_) < 0):
            opts['error_bars'] = 'sem'
            S['classes'].add('eb/ci-not-around-mean')
    cname, carg, cexp = colour_option(idx, k)
    case = {'inp': inp, 'options': {a: (b if isinstance(b, (bool, int, float, str, type(None))) else repr(b)) for a, b in opts.items()},
            'colors': cname, 'cv_method': res.cv_method, 'method': res.method, 'ev_ndim': int(res.evaluations.ndim)}
    cls = STYLE_CLASS[opts['test_pair_comparisons']]
    eb = opts['error_bars'].lower()
    sig0 = {(a, b) for a in range(k) for b in range(a + 1, k) if recs[0]['sig'][a][b]}
    # ---- statistics for the vacuity guards: what is ATTEMPTED (independent of the order drawn and of the outcome)
    S['classes'] |= {f'src/{src}', f'sort/{sortname}', f'mpt/{mptname}', f'style/{cls}', f'styleopt/{optkey(opts["test_pair_comparisons"])}',
                     f'k/{k}', f'eb/{eb[:2]}', f'colors/{cname}', f'zero/{optkey(opts["test_above_0"])}',
                     f'nc/{optkey(opts["test_below_noise_ceil"])}', f'sortopt/{optkey(opts["sort"])}',
                     f'mptopt/{optkey(opts["multiple_pair_testing"])}', f'cv/{res.cv_method}', f'ndim/{res.evaluations.ndim}',
                     f'method/{"riem" if res.method == "neg_riem_dist" else "other"}'}
    npair = k * (k - 1) // 2
    S['classes'].add(f'pairs/{mptname}/' + ('none' if not sig0 else 'all' if len(sig0) == npair else 'some'))
    S['classes'].add('zero/' + ('marked' if recs[0]['zero'] else 'unmarked') if len(recs[0]['zero']) in (0, k) else 'zero/mixed')
    S['classes'].add('nc/' + ('marked' if recs[0]['nc'] else 'unmarked') if len(recs[0]['nc']) in (0, k) else 'nc/mixed')
    if recs[0]['tie']:
        S['classes'].add(f'tie/{mptname}')
    if len(recs) > 1:
        S['classes'].add('order/ties')
    if cls != 'none' and sig0 and len(sig0) < npair:
        S['classes'].add(f'stylesome/{cls}')
    if inp['mpt'] == 1 and recs[0]['thr'][0] * inp['alpha'][1] not in (0, inp['alpha'][0] * recs[0]['thr'][1]) and \
            fr(recs[0]['thr']) != fr(inp['alpha']) / npair:
        S['classes'].add('fdr/intermediate-rank')
    if sig0 or recs[0]['zero'] or recs[0]['nc']:
        S['nontriv'].add(json.dumps([inp.get('ev') or inp.get('pp'), inp['alpha'], inp['mpt'], inp['sort']]))
    before = fp_result(res)
    pic, exc = call_plot(res, opts, carg)
    S['evals'] += 1
    after = fp_result(res)
    if before != after:
        F.append(('X01/f/frame/plot_model_comparison', 'plot_model_comparison changed the Result it was given', case))
    cls = STYLE_CLASS[opts['test_pair_comparisons']]
    if exc is not None:
        npair0 = k * (k - 1) // 2
        nsig0 = sum(1 for i in range(k) for j in range(i + 1, k) if recs[0]['sig'][i][j])
        if isinstance(exc, Unreadable):
            key = f'X01/layout/unreadable/{cls}'
        elif cls == 'cliques' and nsig0 == npair0:
            key = f'X01/total/plot_model_comparison/cliques/all-significant/{type(exc).__name__}'
        else:
            key = f'X01/total/plot_model_comparison/rotation/{cls}/{type(exc).__name__}'
        F.append((key, f'plot_model_comparison raises {type(exc).__name__}: {str(exc)[:160]}', dict(case)))
        # the decisions of this input are still checked, with the style that always works
        opts['test_pair_comparisons'] = 'nili'
        cls = 'nili'
        case['options']['test_pair_comparisons'] = 'nili (after the requested style raised)'
        pic, exc = call_plot(res, opts, carg)
        S['evals'] += 1
        if exc is not None:
            F.append((f'X01/total/plot_model_comparison/rotation/nili/{type(exc).__name__}',
                      f'plot_model_comparison raises {type(exc).__name__}: {str(exc)[:160]}', case))
            return F, S
    # ---- clause a: order
    names = [m.name for m in res.models]
    if sorted(pic['labels']) != sorted(names) or pic['xticks'] != [float(i) for i in range(k)] or \
            any(abs(x - i) > 1e-9 for i, x in enumerate(pic['x'])):
        F.append((f'X01/a/labels/{sortname}', f'tick labels {pic["labels"]} at {pic["xticks"]}, bars at {pic["x"]}: not one label per model '
                  'at the bar positions 0..k-1', case))
        return F, S
    order = [names.index(n) + 1 for n in pic['labels']]
    rec = next((r for r in recs if r['ord'] == order), None)
    if rec is None:
        F.append((f'X01/a/order/{sortname}', f'bars drawn in model order {order}; the orders that sort the performances '
                  f'{[str(fr(h)) for h in recs[0]["h"]]} (drawn order of the first) are {[r["ord"] for r in recs]}', case))
        return F, S
    if corrupt is not None:
        rec = corrupt(json.loads(json.dumps(rec)))
    case['order'] = order
    # ---- clauses a + b: heights
    exp_h = [float(fr(h)) / (1.0 if src == 'boot' else 32.0) for h in rec['h']]      # given: performance = rank / 32
    bad = _assoc_or_value(pic['top'], exp_h)
    if bad:
        F.append((f'X01/{"a/assoc" if bad == "assoc" else "b"}/height', f'bar tops {pic["top"]}, expected {exp_h}', case))
    if res.method == 'neg_riem_dist':
        if any(abs(b - min(exp_h)) > 1e-12 for b in pic['bottom']):
            F.append(('X01/layout/bars/bottom', f'neg_riem_dist bars start at {pic["bottom"]}, expected the smallest performance', case))
    elif any(b != 0 for b in pic['bottom']):
        F.append(('X01/layout/bars/bottom', f'bars start at {pic["bottom"]}', case))
    # ---- error bars
    eb = opts['error_bars'].lower()
    if eb == 'sem':
        if src == 'boot':
            sem = [math.sqrt(inp['var'][m - 1]) / inp['den'] for m in order]
        else:
            sem = [float(res.get_sem()[m - 1]) for m in order]
        exp_lo, exp_hi = sem, sem
    else:
        lo, hi = res.get_errorbars(opts['error_bars'], test_type)
        exp_lo, exp_hi = [float(lo[m - 1]) for m in order], [float(hi[m - 1]) for m in order]
    if pic['err'] is None or len(pic['err']) != k:
        F.append((f'X01/b/errorbar/{eb}/{test_type}/missing', f'{0 if pic["err"] is None else len(pic["err"])} error bars for {k} models', case))
    else:
        got_lo = [t - e[1] for t, e in zip(pic['top'], pic['err'])]
        got_hi = [e[2] - t for t, e in zip(pic['top'], pic['err'])]
        b1, b2 = _assoc_or_value(got_lo, exp_lo, 1e-11), _assoc_or_value(got_hi, exp_hi, 1e-11)
        if b1 or b2:
            kind = 'a/assoc/errorbar' if 'value' not in (b1, b2) else f'b/errorbar/{eb}/{test_type}'
            F.append((f'X01/{kind}', f'error bars reach (down, up) {list(zip(got_lo, got_hi))}, expected {list(zip(exp_lo, exp_hi))}', case))
        if any(abs(e[0] - i) > 1e-9 for i, e in enumerate(pic['err'])):
            F.append(('X01/layout/errorbar/x', f'error bars at x = {[e[0] for e in pic["err"]]}', case))
    # ---- colours
    if cexp is not None:
        want = [tuple(cexp[m - 1]) for m in order]
        got = pic['colour']
        if any(max(abs(a - b) for a, b in zip(g, w)) > 1e-9 for g, w in zip(got, want)):
            perm = sorted(got) == sorted(want)
            F.append((f'X01/a/assoc/colour/{cname}' if perm else f'X01/layout/colour/{cname}', f'bar colours {got}, expected {want}', case))
    elif inp['sort'] != 0:
        o2 = dict(opts, sort=False, test_pair_comparisons=False)
        pic2, exc2 = call_plot(res, o2, carg)
        S['evals'] += 1
        if exc2 is None:
            want = [pic2['colour'][m - 1] for m in order]
            if any(max(abs(a - b) for a, b in zip(g, w)) > 1e-9 for g, w in zip(pic['colour'], want)):
                F.append((f'X01/a/assoc/colour/{cname}', f'interpolated colours do not follow the models when the bars are sorted: '
                          f'{pic["colour"]}, unsorted plot by model {pic2["colour"]}', case))
    # ---- clause d: ceiling
    if src == 'boot':
        lo, up = float(fr(rec['ceil'][0])), float(fr(rec['ceil'][1]))
    else:
        lo, up = GIVEN_NC
    if len(pic['ceil']) != 1:
        F.append(('X01/d/ceiling/count', f'{len(pic["ceil"])} noise-ceiling rectangles', case))
    else:
        x0, y0, w, h = pic['ceil'][0]
        if not (_close(y0, lo) and _close(y0 + h, up)):
            F.append(('X01/d/ceiling/bounds', f'noise-ceiling box spans [{y0}, {y0 + h}], expected [{lo}, {up}]', case))
        if not (_close(x0, -0.5) and _close(w, k)):
            F.append(('X01/d/ceiling/width', f'noise-ceiling box from x = {x0} with width {w} for {k} bars', case))
    # ---- clause c
    exp = expected_from_record(rec)
    compare_upper(F, pic, exp, k, cls, mptname, case)
    compare_marks(F, pic, 'zero', opts['test_above_0'], [x - 1 for x in rec['zero']], 0.0, case)
    nc_y = lo + (0.0007 if str(opts['test_below_noise_ceil']).lower() == 'icicles' else 0.0)
    compare_marks(F, pic, 'nc', opts['test_below_noise_ceil'], [x - 1 for x in rec['nc']], nc_y, case)
    return F, S


# ------------------------------------------------------------------------------------------------
# probes: documented option values outside the rotation
# ------------------------------------------------------------------------------------------------
def _probe_results(seed):
    rng = np.random.default_rng(seed)
    out = []
    k, n = 4, 6
    perf = np.array([0.12, 0.33, 0.21, 0.42])
    ev = perf[None, :, None] + 0.05 * rng.standard_normal((1, k, n))
    nc = np.stack([0.5 + 0.02 * rng.standard_normal(n), 0.7 + 0.02 * rng.standard_normal(n)])
    var = np.cov(np.concatenate([ev[0], nc]), ddof=0) / n
    out.append(('fixed', Result(models(k), ev, 'corr', 'fixed', nc, variances=var, dof=n - 1, n_rdm=n)))
    nb = 16
    evb = perf[None, :] + 0.08 * rng.standard_normal((nb, k))
    ncb = np.stack([0.5 + 0.02 * rng.standard_normal(nb), 0.7 + 0.02 * rng.standard_normal(nb)])
    varb = np.cov(np.concatenate([evb.T, ncb]))
    out.append(('bootstrap_rdm', Result(models(k), evb, 'cosine', 'bootstrap_rdm', ncb, variances=varb, dof=5, n_rdm=6)))
    return out


def _basic(res, pic, sort=0):
    """heights / order of a probe picture against the Result accessors; -> description of a mismatch or None"""
    means = np.asarray(res.get_means(), dtype=float)
    names = [m.name for m in res.models]
    if sorted(pic['labels']) != sorted(names):
        return f'labels {pic["labels"]}'
    order = [names.index(n) for n in pic['labels']]
    if sort == 0 and order != list(range(len(names))):
        return f'order {order}'
    if any(abs(t - means[m]) > 1e-12 for t, m in zip(pic['top'], order)):
        return f'tops {pic["top"]} for means {means.tolist()} in order {order}'
    return None


def _sig_uncorrected(res, tt, alpha, thr=None):
    pp = np.asarray(res.test_all(tt)[0])
    k = pp.shape[0]
    return {(i, j) for i in range(k) for j in range(i + 1, k) if pp[i, j] < (alpha if thr is None else thr)}


def probes(seed):
    """-> findings, number of calls, set of probe names run.  Every probe is a documented option value."""
    F, n, ran = [], 0, set()
    base = 'X01/total/plot_model_comparison'

    def run(name, res, **kw):
        nonlocal n
        n += 1
        ran.add(name)
        before = fp_result(res)
        pic, exc = call_plot(res, kw)
        if fp_result(res) != before:
            F.append(('X01/f/frame/plot_model_comparison', 'plot_model_comparison changed the Result it was given', {'probe': name}))
        if exc is not None:
            F.append((f'{base}/{name}/{type(exc).__name__}', f'documented call plot_model_comparison(result, '
                      f'{", ".join(f"{a}={b!r}" for a, b in kw.items())}) on a {res.cv_method} Result raises {type(exc).__name__}: {str(exc)[:160]}',
                      {'probe': name, 'cv_method': res.cv_method, 'options': {a: repr(b) for a, b in kw.items()}}))
            return None
        bad = _basic(res, pic)
        if bad:
            F.append((f'X01/b/height/probe/{name}', f'probe {name}: {bad}', {'probe': name}))
        return pic

    for cvn, res in _probe_results(seed):
        tt = 't-test'
        k = res.n_model
        sem = np.asarray(res.get_sem(), dtype=float)
        # error_bars: True = SEM; False / None = none; 'ci', 'CI', 'ci90' = confidence interval of the t-test; 'dots'
        pic = run('error_bars=True', res, error_bars=True)
        if pic is not None and (pic['err'] is None or any(abs((e[2] - e[1]) / 2 - s) > 1e-12 for e, s in zip(pic['err'], sem))):
            F.append(('X01/b/errorbar/true', 'error_bars=True does not draw the SEM', {'cv': cvn}))
        for v in (False, None):
            pic = run(f'error_bars={v}', res, error_bars=v)
            if pic is not None and pic['err']:
                F.append(('X01/b/errorbar/off', f'error_bars={v} draws error bars', {'cv': cvn}))
        for v in ('ci', 'CI', 'ci90'):
            pic = run(f'error_bars={v.lower()}/t-test', res, error_bars=v)
            if pic is not None:
                lo, hi = res.get_errorbars(v, tt)
                got = [(t - e[1], e[2] - t) for t, e in zip(pic['top'], pic['err'] or [])]
                if len(got) != k or any(abs(g[0] - a) > 1e-10 or abs(g[1] - b) > 1e-10 for g, a, b in zip(got, lo, hi)):
                    F.append((f'X01/b/errorbar/ci/t-test', f'error_bars={v!r}: bars reach {got}, Result.get_errorbars gives '
                              f'{list(zip(np.asarray(lo).tolist(), np.asarray(hi).tolist()))}', {'cv': cvn}))
        run('error_bars=dots', res, error_bars='dots')
        # multiple_pair_testing: 'none' / False = uncorrected
        for v in ('none', False):
            pic = run(f'multiple_pair_testing={v}', res, multiple_pair_testing=v, test_pair_comparisons='nili', alpha=0.05)
            if pic is not None:
                got = {(i, j) for i, j, _ in parse_nili(pic['upper']['lines'])[0]}
                if got != _sig_uncorrected(res, tt, 0.05):
                    F.append(('X01/c/pairs/uncorrected/nili', f'multiple_pair_testing={v!r}: bars {sorted(got)}', {'cv': cvn}))
        # test_above_0 off while the ceiling test is on, and the other way round
        for v in (False, None):
            pic = run(f'test_above_0={v}', res, test_above_0=v)
            if pic is not None and pic['zero'] is not None and pic['zero']['x']:
                F.append(('X01/c/zero/off', f'test_above_0={v} draws markers', {'cv': cvn}))
        # cliques when every pair is significant; when none is
        pic = run('cliques/all-significant', res, test_pair_comparisons='cliques', alpha=0.99, multiple_pair_testing='uncorrected')
        if pic is not None and len(_sig_uncorrected(res, tt, 0.99)) == k * (k - 1) // 2 and parse_cliques(pic['upper']['lines']):
            F.append(('X01/c/pairs/uncorrected/cliques', 'cliques drawn although every pair is significant', {'cv': cvn}))
        run('cliques/none-significant', res, test_pair_comparisons='cliques', alpha=1e-12)
        # a matplotlib colour map, as the docstring suggests
        run('colors=colormap', res, colors=cm.coolwarm)
        # switching everything off
        pic = run('all-off', res, test_pair_comparisons=False, test_above_0=False, test_below_noise_ceil=False, error_bars=False)
        if pic is not None and (pic['upper'] is not None or pic['err']):
            F.append(('X01/layout/none/axes', 'everything switched off, still an upper panel / error bars', {'cv': cvn}))
        # a single model
        r1 = Result(models(k)[:1], res.evaluations[:, :1], res.method, res.cv_method, res.noise_ceiling,
                    variances=np.asarray(res.variances)[np.ix_([0, k, k + 1], [0, k, k + 1])], dof=res.dof, n_rdm=res.n_rdm)
        for st_ in ('arrows', 'nili', 'golan', 'cliques'):
            run(f'one-model/{st_}', r1, test_pair_comparisons=st_)
        for v in ('fdr', 'bonferroni', 'uncorrected'):
            run(f'one-model/{v}', r1, multiple_pair_testing=v)
    # bootstrap-type Result with a NaN sample, as the evaluators write it (all models and the ceiling NaN)
    cvn, res = _probe_results(seed)[1]
    ev = np.array(res.evaluations)
    nc = np.array(res.noise_ceiling)
    ev[3] = np.nan
    nc[:, 3] = np.nan
    rn = Result(res.models, ev, res.method, res.cv_method, nc, variances=res.variances, dof=res.dof, n_rdm=res.n_rdm)
    for tt in ('t-test', 'bootstrap'):
        pic = run(f'nan-sample/{tt}', rn, test_type=tt)
        if pic is not None and len(pic['ceil']) == 1:
            y0, h = pic['ceil'][0][1], pic['ceil'][0][3]
            if not (_close(y0, float(np.nanmean(nc[0]))) and _close(y0 + h, float(np.nanmean(nc[1])))):
                F.append(('X01/d/ceiling/bounds', f'NaN sample: ceiling [{y0}, {y0 + h}]', {'cv': cvn}))
    # crossvalidation Result: no uncertainty - tests and error bars are deactivated (with a warning)
    rc = Result(res.models, np.array(res.evaluations)[None, :5].transpose(0, 2, 1), 'corr', 'crossvalidation',
                np.array(res.noise_ceiling)[:, :5])
    pic = run('crossvalidation/defaults', rc)
    if pic is not None and (pic['upper'] is not None or (pic['zero'] and pic['zero']['x']) or (pic['nc'] and pic['nc']['x'])):
        F.append(('X01/c/crossvalidation/tests', 'a crossvalidation Result (no uncertainty estimate) is drawn with test results', {}))
    run('crossvalidation/dots', rc, error_bars='dots')
    # show_family_graph with its defaults (node_property='color')
    fam = ModelFamily(models(2))
    sc = np.array([0.2, 0.3, 0.5])
    rf = Result([ModelFixed(f'f{j}', np.arange(3.0)) for j in range(3)], np.stack([sc, sc], axis=1)[None], 'corr', 'fixed',
                np.array([[0.8, 0.8], [0.9, 0.9]]))
    n += 1
    ran.add('show_family_graph/defaults')
    fig = plt.figure()
    w = quiet()
    try:
        show_family_graph(fam, rf)
    except Exception as e:  # noqa: BLE001
        F.append((f'X01/total/show_family_graph/defaults/{type(e).__name__}',
                  f'show_family_graph(model_family, results) with its defaults raises {type(e).__name__}: {str(e)[:160]}', {'probe': 'show_family_graph'}))
    finally:
        w.__exit__(None, None, None)
        plt.close('all')
    return F, n, ran


# ------------------------------------------------------------------------------------------------
# show_rdm
# ------------------------------------------------------------------------------------------------
def make_rdms(n, ncond, idx):
    npair = ncond * (ncond - 1) // 2
    d = np.array([[(3 + 7 * r + 5 * p + (r * p) % 4 + mix(idx, 20 + r, 3)) % 23 + 1 + r for p in range(npair)] for r in range(n)], dtype=float)
    return RDMs(d, dissimilarity_measure=['euclidean', 'correlation', None][mix(idx, 19, 3)],
                rdm_descriptors={'name': [f'r{i + 1}' for i in range(n)], 'session': [i % 2 for i in range(n)]},
                pattern_descriptors={'cond': [f'c{(i * 3) % ncond}' for i in range(ncond)]})


def check_grid(rec, idx):
    F, S = [], {'evals': 1, 'classes': set(), 'nontriv': set()}
    g, out = rec['inp'], rec['out']
    n = g['n']
    ncond = 4 + mix(idx, 21, 2)
    rdms = make_rdms(n, ncond, idx)
    pd = [None, 'cond', 'cond'][mix(idx, 22, 3)]
    rdopt = mix(idx, 23, 3)
    rd = [None, 'name', 'all the same'][rdopt]
    nmopt = mix(idx, 24, 3)
    custom = np.eye(ncond, dtype=bool)
    custom[0, 1] = custom[1, 0] = True
    nanmask = ['diagonal', None, custom][nmopt]
    mask = [np.eye(ncond, dtype=bool), np.zeros((ncond, ncond), dtype=bool), custom][nmopt]
    vopt = mix(idx, 25, 4)
    vmin, vmax = [(None, None), (None, None), (0, 30.0), (2.0, None)][vopt]
    cmap = ['bone_r', 'classic', 'viridis'][mix(idx, 26, 3)]
    cb = [None, 'panel', 'figure'][g['cb']]
    kw = dict(pattern_descriptor=pd, rdm_descriptor=rd, n_row=g['nrow'] or None, n_column=g['ncol'] or None, show_colorbar=cb,
              nanmask=nanmask, vmin=vmin, vmax=vmax, cmap=cmap)
    gcls = ('both-none' if not g['nrow'] and not g['ncol'] else 'rows' if not g['ncol'] else 'columns' if not g['nrow'] else 'both') \
        + ('/figure-colorbar' if g['cb'] == 2 else '')
    case = {'inp': g, 'n_cond': ncond, 'options': {a: (b if not isinstance(b, np.ndarray) else 'custom mask') for a, b in kw.items()}}
    S['classes'] |= {f'grid/{gcls}', f'cb/{g["cb"]}', f'pd/{pd}', f'rd/{rdopt}', f'nanmask/{nmopt}',
                     f'empty/{int(out["shape"][0] * out["shape"][1] > n)}'}
    if n > 1:
        S['nontriv'].add(json.dumps(g, sort_keys=True))
    mats = rdms.get_matrices().copy()
    before = fp_rdms(rdms)
    w = quiet()
    try:
        fig, axs, handles = show_rdm(rdms, **kw)
    except Exception as e:  # noqa: BLE001
        plt.close('all')
        F.append((f'X01/total/show_rdm/{gcls}/{type(e).__name__}', f'show_rdm raises {type(e).__name__}: {str(e)[:160]}', case))
        return F, S
    finally:
        w.__exit__(None, None, None)
    try:
        if fp_rdms(rdms) != before:
            F.append(('X01/f/frame/show_rdm', 'show_rdm changed the RDMs object it was given', case))
        R, C = out['shape']
        if tuple(axs.shape) != (R, C):
            F.append((f'X01/e/grid-shape/{gcls}', f'{axs.shape[0]} x {axs.shape[1]} panels, expected {R} x {C}', case))
            return F, S
        labels = rdms.pattern_descriptors['cond']
        xshown = yshown = 0
        clims = []
        for p in range(R * C):
            ax = axs[p // C, p % C]
            want = out['cells'][p]
            if (want != 0) != bool(ax.get_visible()) or (want != 0 and len(ax.images) < 1):
                F.append((f'X01/e/panel-visible/{gcls}', f'panel {p} (reading order) visible={ax.get_visible()} with {len(ax.images)} images, '
                          f'expected RDM number {want} (0 = empty)', case))
                continue
            if want == 0:
                continue
            img = np.ma.filled(np.ma.masked_invalid(np.ma.asarray(ax.images[0].get_array(), dtype=float)), np.nan)
            expm = np.where(mask, np.nan, mats[want - 1])
            if img.shape != expm.shape or not np.array_equal(np.isnan(img), np.isnan(expm)) or \
                    not np.array_equal(np.nan_to_num(img), np.nan_to_num(expm)):
                which = [i + 1 for i in range(n) if img.shape == expm.shape and
                         np.array_equal(np.nan_to_num(img), np.nan_to_num(np.where(mask, np.nan, mats[i])))]
                F.append((f'X01/e/panel-rdm' if which else f'X01/e/panel-image/nanmask={["diagonal", "none", "custom"][nmopt]}',
                          f'panel {p} should show RDM {want}; its image equals RDM(s) {which}', case))
            t = ax.get_title()
            tw = '' if rd is None else (rdms.rdm_descriptors['name'][want - 1] if rd == 'name' else rd)
            if t != tw:
                F.append((f'X01/e/title/{["none", "descriptor", "direct"][rdopt]}', f'panel {p} (RDM {want}) has title {t!r}, expected {tw!r}', case))
            for axis, name in ((ax.xaxis, 'x'), (ax.yaxis, 'y')):
                tl = [x.get_text() for x in axis.get_ticklabels(minor=True)]
                if any(tl):
                    if pd is None or tl != list(labels):
                        F.append((f'X01/e/labels/wrong', f'panel {p}: {name} tick labels {tl}, pattern_descriptor={pd!r} holds {list(labels)}', case))
                    if name == 'x':
                        xshown += 1
                    else:
                        yshown += 1
            clims.append(tuple(float(v) for v in ax.images[0].get_clim()))
            hascb = 'colorbar' in handles.get(p, {})
            if hascb != (g['cb'] == 1):
                F.append((f'X01/e/colorbar/panel', f'panel {p}: colour bar {hascb} with show_colorbar={cb!r}', case))
        if pd is not None:
            # labels are only ever set by visible panels of the first row (x) / first column (y)
            row0 = any(out['cells'][p] for p in range(C))
            col0 = any(out['cells'][r * C] for r in range(R))
            if not xshown:
                F.append((f'X01/e/labels/x-missing/{"first-row-empty" if not row0 else "other"}',
                          f'pattern_descriptor={pd!r} but no panel shows x tick labels ({R} x {C} panels, {n} RDMs, show_colorbar={cb!r})', case))
            if not yshown:
                F.append((f'X01/e/labels/y-missing/{"first-column-empty" if not col0 else "other"}',
                          f'pattern_descriptor={pd!r} but no panel shows y tick labels ({R} x {C} panels, {n} RDMs, show_colorbar={cb!r})', case))
        nbars = len(fig.axes) - R * C
        if nbars != out['bars'] or (('colorbar' in handles.get(-1, {})) != (g['cb'] == 2)):
            F.append((f'X01/e/colorbar/count', f'{nbars} colour-bar axes with show_colorbar={cb!r} for {n} RDMs, expected {out["bars"]}', case))
        if g['cb'] == 2 and clims:
            vals = mats[:, ~mask]
            wmin = vmin if vmin is not None else float(vals.min())
            wmax = vmax if vmax is not None else float(vals.max())
            if len(set(clims)) != 1:
                F.append(('X01/e/colorbar/shared-scale', f'panels do not share one colour scale: {sorted(set(clims))}', case))
            elif clims[0] != (wmin, wmax):
                F.append((f'X01/e/colorbar/scale/vmin={vmin}', f'shared scale {clims[0]}, expected ({wmin}, {wmax}) (given vmin={vmin}, vmax={vmax}, '
                          f'data {float(vals.min())}..{float(vals.max())})', case))
        elif vmin is not None or vmax is not None:
            for c in clims:
                if (vmin is not None and c[0] != vmin) or (vmax is not None and c[1] != vmax):
                    F.append(('X01/e/colorbar/scale/given', f'colour limits {c} with vmin={vmin}, vmax={vmax}', case))
                    break
    finally:
        plt.close(fig)
    return F, S


def check_mask(rec, idx):
    """show_rdm overlay / contour: which cells are highlighted, which sides get a border"""
    from rsatoolbox.vis.rdm_plot import Symmetry
    F, S = [], {'evals': 0, 'classes': set(), 'nontriv': set()}
    i, out = rec['inp'], rec['out']
    nc, symi = i['nc'], i['sym']
    sym = [Symmetry.BOTH, Symmetry.UPPER, Symmetry.LOWER][symi]
    pairs = [(a, b) for a in range(1, nc + 1) for b in range(a + 1, nc + 1)]       # the order of the condensed RDM vector
    marked = {tuple(p) for p in i['marked']}
    vec = np.array([1.0 if p in marked else 0.0 for p in pairs])
    rdms = make_rdms(1, nc, idx)
    cells = {(r - 1, c - 1) for r, c in out['cells']}
    case = {'inp': i}
    for what in ('overlay', 'contour'):
        S['evals'] += 1
        before = fp_rdms(rdms)
        v0 = vec.copy()
        w = quiet()
        try:
            fig, axs, _ = show_rdm(rdms, **{what: vec, what + '_symmetry': sym})
        except Exception as e:  # noqa: BLE001
            plt.close('all')
            last = any(nc in p for p in marked)
            cls = 'last-condition' if what == 'contour' and last and isinstance(e, IndexError) else f'sym{symi}'
            F.append((f'X01/total/show_rdm/{what}/{cls}/{type(e).__name__}', f'show_rdm({what}=vector marking the pairs {sorted(marked)} of {nc} '
                      f'conditions, {what}_symmetry={sym.name}) raises {type(e).__name__}: {str(e)[:120]}', case))
            continue
        finally:
            w.__exit__(None, None, None)
        try:
            ax = axs[0, 0]
            if fp_rdms(rdms) != before or not np.array_equal(v0, vec):
                F.append((f'X01/f/frame/show_rdm/{what}', f'show_rdm changed the RDMs / the {what} vector', case))
            if what == 'overlay':
                if not cells:
                    if len(ax.images) != 1:
                        F.append(('X01/e/overlay/empty', 'an overlay image is drawn although no pair is marked', case))
                    continue
                if len(ax.images) != 2:
                    F.append(('X01/e/overlay/missing', f'{len(ax.images)} images, expected the RDM and its overlay', case))
                    continue
                arr = np.asarray(ax.images[1].get_array())
                got = {(int(r), int(c)) for r, c in zip(*np.nonzero(arr))}
                if got != cells:
                    F.append((f'X01/e/overlay/cells/sym{symi}', f'overlay highlights the cells (row, column) {sorted(got)}, expected {sorted(cells)}', case))
            else:
                # sides of a cell (row r, column c) in image coordinates: x = column, y = row
                def ends(r, c, sd):
                    x, y = c - 1, r - 1
                    return {1: ((x - .5, y - .5), (x + .5, y - .5)), 2: ((x + .5, y - .5), (x + .5, y + .5)),
                            3: ((x - .5, y + .5), (x + .5, y + .5)), 4: ((x - .5, y - .5), (x - .5, y + .5))}[sd]
                want = sorted(tuple(sorted(ends(*e))) for e in out['edges'])
                got = sorted(tuple(sorted(tuple(float(v) for v in q) for q in np.asarray(p.get_xy())[:2])) for p in ax.patches)
                if got != want:
                    F.append((f'X01/e/contour/edges/sym{symi}', f'border segments {got}, expected {want}', case))
                S['classes'].add('mask/contour-checked')
        finally:
            plt.close(fig)
    S['classes'].add(f'mask/sym{symi}')
    if not cells:
        S['classes'].add('mask/empty')
    if cells:
        S['nontriv'].add(json.dumps(i))
    return F, S


def check_rdm_panel(seed):
    """show_rdm_panel: one RDM on a given axis; more than one RDM is refused"""
    F, n = [], 0
    for idx in range(6):
        rdms = make_rdms(1 + (idx % 2) * 2, 4, seed * 31 + idx)
        fig, ax = plt.subplots()
        before = fp_rdms(rdms)
        try:
            n += 1
            w = quiet()
            try:
                im = show_rdm_panel(rdms, ax=ax, rdm_descriptor='name')
            finally:
                w.__exit__(None, None, None)
            if rdms.n_rdm > 1:
                F.append(('X01/e/panel/many', 'show_rdm_panel accepts several RDMs', {'n_rdm': rdms.n_rdm}))
            else:
                img = np.ma.filled(np.ma.masked_invalid(np.ma.asarray(im.get_array(), dtype=float)), np.nan)
                expm = np.where(np.eye(4, dtype=bool), np.nan, rdms.get_matrices()[0])
                if not np.array_equal(np.nan_to_num(img), np.nan_to_num(expm)) or not np.array_equal(np.isnan(img), np.isnan(expm)):
                    F.append(('X01/e/panel-image/show_rdm_panel', 'image differs from the RDM with a NaN diagonal', {}))
                if ax.get_title() != 'r1':
                    F.append(('X01/e/title/show_rdm_panel', f'title {ax.get_title()!r}', {}))
        except ValueError as e:
            if rdms.n_rdm == 1:
                F.append((f'X01/total/show_rdm_panel/ValueError', f'show_rdm_panel(rdms with one RDM, ax=ax) raises ValueError: {str(e)[:160]}', {}))
        except Exception as e:  # noqa: BLE001
            F.append((f'X01/total/show_rdm_panel/{type(e).__name__}',
                      f'show_rdm_panel(rdms with {rdms.n_rdm} RDM(s), ax=ax, rdm_descriptor="name") raises {type(e).__name__}: {str(e)[:160]}', {}))
        finally:
            plt.close(fig)
        if fp_rdms(rdms) != before:
            F.append(('X01/f/frame/show_rdm_panel', 'show_rdm_panel changed the RDMs object', {}))
    return F, n


# ------------------------------------------------------------------------------------------------
# colours
# ------------------------------------------------------------------------------------------------
def check_cscale(rec, idx):
    F, S = [], {'evals': 1, 'classes': {f'cscale/anchors{len(rec["inp"]["anchors"])}'}, 'nontriv': set()}
    i = rec['inp']
    anchors = np.array(i['anchors'], dtype=float)
    before = anchors.copy()
    try:
        cols = color_scale(i['n'], anchors)
    except Exception as e:  # noqa: BLE001
        F.append((f'X01/total/color_scale/{type(e).__name__}', f'color_scale({i["n"]}, {len(anchors)} anchors) raises {e}', {'inp': i}))
        return F, S
    exp = np.array([[float(fr(c)) for c in row] for row in rec['out']])
    if cols.shape != exp.shape or not np.allclose(cols, exp, rtol=0, atol=1e-12):
        F.append(('X01/colors/color_scale/value', f'color_scale gives {np.asarray(cols).tolist()}, expected {exp.tolist()}', {'inp': i}))
    if not np.array_equal(before, anchors):
        F.append(('X01/f/frame/color_scale', 'color_scale changed the anchors', {'inp': i}))
    if i['n'] > 2:
        S['nontriv'].add(json.dumps(i))
    return F, S


def check_classic(n):
    """rdm_colormap_classic: "goes from blue to yellow and has grey for intermediate values", increasing V"""
    F = []
    cmap = rdm_colormap_classic(n)
    cols = np.asarray(cmap(np.linspace(0, 1, n)))[:, :3]
    if len(cols) != n or cmap.N != n:
        F.append(('X01/colors/classic/size', f'{cmap.N} colours for n_cols={n}', {'n': n}))
    first, last = cols[0], cols[-1]
    if not (first[2] > 0 and first[0] < 1e-9 and first[1] < 1e-9):
        F.append(('X01/colors/classic/blue-end', f'first colour {first.tolist()} is not blue', {'n': n}))
    if not (abs(last[0] - 1) < 1e-9 and abs(last[1] - 1) < 1e-9 and last[2] < 1e-9):
        F.append(('X01/colors/classic/yellow-end', f'last colour {last.tolist()} is not yellow', {'n': n}))
    v = cols.max(axis=1)
    if np.any(np.diff(v) < -1e-12):
        F.append(('X01/colors/classic/value-monotone', 'brightness (V) is not increasing along the map', {'n': n}))
    if n % 2 == 1 and n >= 5:
        mid = cols[n // 2]
        if np.ptp(mid) > 1e-9:
            F.append(('X01/colors/classic/grey-middle', f'middle colour {mid.tolist()} is not grey', {'n': n}))
    if tuple(cmap(np.nan)) != (1.0, 1.0, 1.0, 1.0):
        F.append(('X01/colors/classic/bad-white', f'NaN is drawn as {cmap(np.nan)}', {'n': n}))
    return F


# ------------------------------------------------------------------------------------------------
# timecourse
# ------------------------------------------------------------------------------------------------
def check_tdisp(recs, idx):
    """recs: all admissible displayed-index sequences of one (T, nd)"""
    F, S = [], {'evals': 1, 'classes': set(), 'nontriv': set()}
    i = recs[0]['inp']
    T, nd = i['T'], i['nd']
    nsub, ncond = 2, 4
    npair = ncond * (ncond - 1) // 2
    rng = np.random.default_rng(idx)
    times = np.repeat(np.arange(T) * 0.05, nsub)
    d = rng.integers(1, 40, size=(T * nsub, npair)).astype(float)
    order = rng.permutation(T * nsub)            # the movie need not come sorted by time
    rdms = RDMs(d[order], dissimilarity_measure='euclidean', rdm_descriptors={'time': times[order]},
                pattern_descriptors={'cond': [f'c{j}' for j in range(ncond)]})
    n = min(T, nd)
    kw = {'n_t_display': nd}
    if n < 3:
        kw['timecourse_plot_rel_height'] = 1     # the default (n // 3) is 0 rows for fewer than three displayed time points
    coloured = mix(idx, 30, 3) == 0
    if coloured:
        kw['colored_conditions'] = ['a', 'a', 'b', 'b']
    case = {'inp': i, 'options': kw}
    S['classes'] |= {f'tdisp/{"all" if n == T else "subset"}', f'tdisp/coloured{int(coloured)}', f'tdisp/adm{min(len(recs), 2)}'}
    if n < T:
        S['nontriv'].add(json.dumps(i, sort_keys=True))
    before = fp_rdms(rdms)
    w = quiet()
    try:
        fig, axes = plot_timecourse(rdms, 'time', **kw)
    except Exception as e:  # noqa: BLE001
        plt.close('all')
        F.append((f'X01/total/plot_timecourse/{type(e).__name__}', f'plot_timecourse raises {type(e).__name__}: {str(e)[:160]}', case))
        return F, S
    finally:
        w.__exit__(None, None, None)
    try:
        if fp_rdms(rdms) != before:
            F.append(('X01/f/frame/plot_timecourse', 'plot_timecourse changed the RDMs object', case))
        tc, panels = axes[0], axes[1:]
        titles = [a.get_title() for a in panels]
        ms = {f'{np.round(t * 1000, 2):0.0f} ms': j for j, t in enumerate(np.arange(T) * 0.05)}
        if any(t not in ms for t in titles):
            F.append(('X01/time/panels/title', f'panel titles {titles}', case))
            return F, S
        shown = [ms[t] for t in titles]
        adm = [r['out'] for r in recs]
        if shown not in adm:
            F.append(('X01/time/panels/which', f'{len(shown)} panels for time points {shown}; n_t_display={nd} of {T} time points '
                      f'demands {adm}', case))
        for j, a in zip(shown, panels):
            expm = rdms.subset('time', j * 0.05).get_matrices().mean(axis=0)
            img = np.asarray(a.images[0].get_array(), dtype=float) if a.images else None
            if img is None or not np.allclose(img, expm, rtol=0, atol=1e-12):
                F.append(('X01/time/panels/image', f'panel of time point {j} does not show the mean RDM of that time point', case))
                break
        tl = [t.get_text() for t in tc.get_xticklabels()]
        want = [f'{np.round(j * 50.0, 2):0.0f} ms' if j in shown else '' for j in range(T)]
        if tl != want:
            F.append(('X01/time/ticks', f'time axis labels {tl}, expected {want}', case))
        dotted = sorted(round(float(l.get_xdata()[0]) / 0.05) for l in tc.lines if l.get_linestyle() == ':')
        if dotted != sorted(shown):
            F.append(('X01/time/markers', f'dotted markers at time points {dotted}, panels for {shown}', case))
        curves = [l for l in tc.lines if l.get_linestyle() != ':']
        if not coloured:
            if len(curves) != npair:
                F.append(('X01/time/curves/count', f'{len(curves)} curves for {npair} dissimilarities', case))
            else:
                mean = np.stack([rdms.subset('time', j * 0.05).dissimilarities.mean(axis=0) for j in range(T)])     # T x pairs
                got = np.stack([np.asarray(l.get_ydata(), dtype=float) for l in curves], axis=1)
                if got.shape != mean.shape or not np.allclose(got, mean, rtol=0, atol=1e-12):
                    F.append(('X01/time/curves/value', 'curve p is not the mean over RDMs of dissimilarity p per time point', case))
    finally:
        plt.close(fig)
    return F, S


def check_family(rec, idx):
    F, S = [], {'evals': 0, 'classes': {'family'}, 'nontriv': set()}
    n = rec['inp']['n']
    out = rec['out']
    if isinstance(out, dict):          # a function over 0..N-1 is printed as an object
        out = [out[str(j)] for j in range(len(out))]
    if len(out) != 2 ** n - 1:
        raise RuntimeError(f'family vector with {len(out)} members for {n} models')
    for j, e in enumerate(out):
        S['evals'] += 1
        try:
            x, y = get_node_position(j, n)
        except Exception as ex:  # noqa: BLE001
            F.append((f'X01/total/get_node_position/{type(ex).__name__}', f'get_node_position({j}, {n}) raises {ex}', {'n': n, 'index': j}))
            continue
        if int(y) != e['y'] or abs(float(x) - float(fr(e['x']))) > 1e-12:
            F.append(('X01/family/node-position', f'get_node_position({j}, {n}) = {(float(x), int(y))}, expected '
                      f'({float(fr(e["x"]))}, {e["y"]})', {'n': n, 'index': j}))
    if n > 1:
        S['nontriv'].add(f'family{n}')
    return F, S


def check_famgraph(rec, idx):
    """show_family_graph: nodes, their labels and positions, the edges and where they point"""
    F, S = [], {'evals': 1, 'classes': set(), 'nontriv': set()}
    i, out = rec['inp'], rec['out']
    n, sc = i['n'], i['sc']
    N = 2 ** n - 1
    fam = ModelFamily(models(n))
    members = [sorted(m - 1 for m in mem) for mem in out['members']]
    if [list(t) for t in fam.family_list] != members:
        raise RuntimeError(f'ModelFamily lists its members as {fam.family_list}, the specification as {members}')
    scores = np.array(sc, dtype=float) / 16.0
    res = Result([ModelFixed(f'f{j}', np.arange(3.0)) for j in range(N)], np.stack([scores, scores], axis=1)[None], 'corr', 'fixed',
                 np.array([[0.8, 0.8], [0.9, 0.9]]))
    lab = ['presence', 'binary'][mix(idx, 40, 2)]
    case = {'inp': i, 'node_labels': lab}
    S['classes'].add(f'famgraph/{lab}')
    if len(set(sc)) < len(sc):
        S['classes'].add('famgraph/ties')
    if n > 1:
        S['nontriv'].add(json.dumps(i))
    before = fp_result(res)
    fig = plt.figure()
    w = quiet()
    try:
        show_family_graph(fam, res, node_labels=lab, node_property='area')
    except Exception as e:  # noqa: BLE001
        plt.close('all')
        F.append((f'X01/total/show_family_graph/area/{type(e).__name__}', f'show_family_graph(node_property="area") raises {type(e).__name__}: {str(e)[:160]}', case))
        return F, S
    finally:
        w.__exit__(None, None, None)
    try:
        if fp_result(res) != before:
            F.append(('X01/f/frame/show_family_graph', 'show_family_graph changed the Result', case))
        ax = fig.axes[0]
        pos = [tuple(float(v) for v in o) for o in ax.collections[0].get_offsets()]
        want_pos = [tuple(float(v) for v in get_node_position(j, n)) for j in range(N)]
        if pos != want_pos:
            F.append(('X01/family/graph/positions', f'nodes at {pos}, get_node_position gives {want_pos}', case))
            return F, S
        texts = [t.get_text() for t in ax.texts]
        want = [''.join(str(m) for m in mem) if lab == 'presence' else ''.join('1' if m in mem else '0' for m in range(n)) for mem in members]
        if texts != want:
            F.append((f'X01/family/graph/labels/{lab}', f'node labels {texts}, expected {want}', case))
        edges = set()
        for pa in ax.patches:
            a, b = (tuple(float(v) for v in q) for q in pa._posA_posB)
            if a not in pos or b not in pos:
                F.append(('X01/family/graph/edges/unreadable', f'edge between {a} and {b}: not node positions', case))
                return F, S
            edges.add((pos.index(a), pos.index(b)))
        wante = {tuple(e) for e in out['edges']}
        if edges != wante or len(ax.patches) != len(wante):
            und = {frozenset(e) for e in edges} == {frozenset(e) for e in wante}
            F.append((f'X01/family/graph/edges/{"direction" if und else "which"}', f'edges (from, to) {sorted(edges)}, expected {sorted(wante)} '
                      f'for the scores {sc}', case))
        sizes = [float(v) for v in ax.collections[0].get_sizes()]
        if len(sizes) == N and any((sc[a] < sc[b]) != (sizes[a] < sizes[b]) and sc[a] != sc[b] for a in range(N) for b in range(N)):
            F.append(('X01/family/graph/area', f'node areas {sizes} are not ordered like the scores {sc}', case))
    finally:
        plt.close(fig)
    return F, S


# ------------------------------------------------------------------------------------------------
# implementation -> specification: recorded plots
# ------------------------------------------------------------------------------------------------
def _real_result(rng, which):
    from rsatoolbox.inference import eval_fixed, eval_bootstrap_rdm, eval_bootstrap_pattern, eval_bootstrap
    ncond = int(rng.integers(6, 9))
    nsub = int(rng.integers(5, 8))
    k = int(rng.integers(2, 6))
    npair = ncond * (ncond - 1) // 2
    mods = rng.random((k, npair)) + 0.1
    w = rng.random(k) ** 2
    truth = w @ mods
    data = truth[None, :] + (0.3 + rng.random()) * rng.standard_normal((nsub, npair))
    drdms = RDMs(data, pattern_descriptors={'index': list(range(ncond))})
    ms = [ModelFixed(f'm{i + 1}', mods[i]) for i in range(k)]
    method = ['corr', 'cosine', 'spearman'][int(rng.integers(3))]
    if which == 'eval_fixed':
        return eval_fixed(ms, drdms, method=method)
    if which == 'eval_bootstrap_rdm':
        return eval_bootstrap_rdm(ms, drdms, method=method, N=int(rng.integers(20, 41)))
    if which == 'eval_bootstrap_pattern':
        return eval_bootstrap_pattern(ms, drdms, method=method, N=int(rng.integers(20, 41)))
    return eval_bootstrap(ms, drdms, method=method, N=int(rng.integers(20, 41)))


def _synthetic_result(rng):
    k = int(rng.integers(2, 7))
    n = int(rng.integers(5, 12))
    perf = rng.random(k) * 0.5
    if rng.random() < 0.3:
        perf[int(rng.integers(k))] *= -0.3
    ev = perf[None, :, None] + (0.02 + 0.2 * rng.random()) * rng.standard_normal((1, k, n)) * (0.3 + rng.random(k))[None, :, None]
    nc = np.stack([0.45 + 0.05 * rng.standard_normal(n), 0.7 + 0.05 * rng.standard_normal(n)])
    var = np.cov(np.concatenate([ev[0], nc]), ddof=0) / n
    return Result(models(k), ev, ['corr', 'cosine', 'spearman'][int(rng.integers(3))], 'fixed', nc, variances=var, dof=n - 1, n_rdm=n)


REAL = ['eval_fixed', 'eval_bootstrap_rdm', 'eval_bootstrap_pattern', 'eval_bootstrap']
ALPHAS = [(1, 100), (1, 20), (1, 10), (1, 4), (1, 1000)]


def bars_event(res, source, rng):
    """plot once with random options; -> event dict, or (None, reason) when the recorder must not log it"""
    k = res.n_model
    nanrows = bool(np.isnan(np.asarray(res.evaluations).reshape(len(res.evaluations), -1)[:, 0]).any())
    boot = res.cv_method not in ('fixed',)
    tts = ['t-test']
    if boot and not nanrows:
        tts.append('bootstrap')
    if not boot and res.evaluations.shape[-1] >= 6:
        tts.append('ranksum')
    tt = tts[int(rng.integers(len(tts)))]
    an, ad = ALPHAS[int(rng.integers(len(ALPHAS)))]
    alpha = an / ad
    mpt, sort = int(rng.integers(3)), int(rng.integers(3))
    style = ['nili', 'nili2', 'golan', 'cliques', 'arrows', False][int(rng.integers(6))]
    zopt = [True, 'icicles'][int(rng.integers(2))]
    nopt = [True, 'icicles', False][int(rng.integers(3))]
    opts = {'sort': SORT_FLAV[sort][int(rng.integers(len(SORT_FLAV[sort])))],
            'multiple_pair_testing': MPT_FLAV[mpt][int(rng.integers(len(MPT_FLAV[mpt])))],
            'test_pair_comparisons': style, 'test_above_0': zopt, 'test_below_noise_ceil': nopt, 'alpha': alpha,
            'test_type': tt, 'error_bars': 'sem'}
    with warnings.catch_warnings(), np.errstate(all='ignore'):
        warnings.simplefilter('ignore')
        pp, pz, pn = (np.asarray(a, dtype=float) for a in res.test_all(tt))
        means = np.asarray(res.get_means(), dtype=float)
        sem = np.asarray(res.get_sem(), dtype=float)
    if np.isnan(pp).any() or np.isnan(pz).any() or np.isnan(pn).any() or np.isnan(means).any():
        return None, 'nan-pvalue'
    m = k * (k - 1) // 2
    thr = [alpha * i / m for i in range(1, m + 1)] + [alpha / k]
    allp = np.concatenate([pp[np.triu_indices(k, 1)], pz, pn])
    if min(abs(p - t) for p in allp for t in thr) < NEAR:
        return None, 'near-threshold'
    sm = np.sort(means)
    if np.any(np.diff(sm) < 2.0 / HSCALE):
        return None, 'near-tie-in-performance'
    before = fp_result(res)
    pic, exc = call_plot(res, opts)
    ev = {'op': 'bars', 'source': source, 'tt': tt, 'k': k, 'alpha': [an, ad], 'mpt': mpt, 'sort': sort,
          'style': 'none' if style is False else style, 'zon': 1, 'non': 0 if nopt is False else 1,
          'frame': int(fp_result(res) == before), 'raised': '' if exc is None else type(exc).__name__ + ': ' + str(exc)[:120],
          'perf': [int(round(v * HSCALE)) for v in means],
          'pp': [[int(math.floor(min(v, 1.0) * PSCALE)) for v in row] for row in pp],
          'pz': [int(math.floor(min(max(v, 0.0), 1.0) * PSCALE)) for v in pz], 'pn': [int(math.floor(min(v, 1.0) * PSCALE)) for v in pn],
          'sem': [int(round(v * HSCALE)) for v in sem],
          'ceilexp': [int(round(float(np.nanmean(res.noise_ceiling[0])) * HSCALE)), int(round(float(np.nanmean(res.noise_ceiling[1])) * HSCALE))],
          'ord': [], 'h': [], 'err': [], 'zero': [], 'nc': [], 'ceil': [], 'segs': [], 'wings': [], 'cliques': [], 'elems': [], 'unreadable': ''}
    if exc is not None:
        return ev, None
    names = [mm.name for mm in res.models]
    if sorted(pic['labels']) != sorted(names):
        ev['unreadable'] = f'labels {pic["labels"]}'
        return ev, None
    ev['ord'] = [names.index(nm) + 1 for nm in pic['labels']]
    ev['h'] = [int(round(v * HSCALE)) for v in pic['top']]
    ev['err'] = [int(round((e[2] - e[1]) / 2 * HSCALE)) for e in (pic['err'] or [])]
    ev['zero'] = sorted(int(round(x)) + 1 for x in (pic['zero']['x'] if pic['zero'] else []))
    ev['nc'] = sorted(int(round(x)) + 1 for x in (pic['nc']['x'] if pic['nc'] else []))
    ev['ceil'] = [[int(round(c[1] * HSCALE)), int(round((c[1] + c[3]) * HSCALE))] for c in pic['ceil']]
    try:
        if style in ('nili', 'nili2'):
            sig, ns = parse_nili(pic['upper']['lines'])
            got, other = (sig, ns) if style == 'nili' else (ns, sig)
            if other:
                ev['unreadable'] = 'bars of the other kind'
            ev['segs'] = sorted([i + 1, j + 1] for i, j, _ in got)
            if len({h for _, _, h in got}) != len(got):
                ev['unreadable'] = 'bars share a height'
        elif style == 'golan':
            wings, stray = parse_golan(pic['upper']['lines'])
            ev['wings'] = [{'a': w['a'] + 1, 'f': [f + 1 for f in w['f']]} for w in wings]
            if stray:
                ev['unreadable'] = 'stray wing elements'
        elif style == 'cliques':
            ev['cliques'] = sorted(sorted(mm + 1 for mm in c['members']) for c in parse_cliques(pic['upper']['lines']))
        elif style == 'arrows':
            ev['elems'] = [[e[0], e[1] + 1, e[2] + 1] for e in parse_arrows(pic['upper']['lines'])]
    except ValueError as e:
        ev['unreadable'] = str(e)[:100]
    return ev, None


def grid_event(rng):
    n = int(rng.integers(1, 9))
    nrow, ncol = int(rng.integers(0, 4)), int(rng.integers(0, 4))
    cb = int(rng.integers(0, 3))
    npan = n + (cb == 2)
    if nrow and ncol and nrow * ncol < npan:
        ncol = 0
    rdms = make_rdms(n, 4, int(rng.integers(1 << 20)))
    mats = rdms.get_matrices()
    ev = {'op': 'grid', 'n': n, 'nrow': nrow, 'ncol': ncol, 'cb': cb, 'shape': [0, 0], 'cells': [], 'bars': 0, 'raised': ''}
    w = quiet()
    try:
        fig, axs, _ = show_rdm(rdms, n_row=nrow or None, n_column=ncol or None, show_colorbar=[None, 'panel', 'figure'][cb])
    except Exception as e:  # noqa: BLE001   logged: the trace specification rejects the event
        plt.close('all')
        ev['raised'] = f'{type(e).__name__}: {str(e)[:120]}'
        return ev
    finally:
        w.__exit__(None, None, None)
    cells = []
    for a in axs.reshape(-1):
        if not a.get_visible() or not a.images:
            cells.append(0)
            continue
        img = np.nan_to_num(np.ma.filled(np.ma.masked_invalid(np.ma.asarray(a.images[0].get_array(), dtype=float)), np.nan))
        hit = [i + 1 for i in range(n) if np.array_equal(img, np.where(np.eye(4, dtype=bool), 0.0, mats[i]))]
        cells.append(hit[0] if len(hit) == 1 else -1)
    ev.update({'shape': [int(axs.shape[0]), int(axs.shape[1])], 'cells': cells, 'bars': len(fig.axes) - axs.size})
    plt.close(fig)
    return ev


def record_trace(seed):
    """-> (events, skipped reasons)"""
    rng = np.random.default_rng(seed)
    np.random.seed(seed % (2 ** 32))          # the bootstrap evaluators draw from numpy's global generator
    which = int(rng.integers(0, 7))
    skipped = {}
    events = []
    if which < len(REAL):
        source = REAL[which]
        with warnings.catch_warnings(), np.errstate(all='ignore'):
            warnings.simplefilter('ignore')
            res = _real_result(rng, source)
    else:
        source = 'synthetic-fixed'
        res = _synthetic_result(rng)
    for _ in range(4):
        ev, why = bars_event(res, source, rng)
        if ev is None:
            skipped[why] = skipped.get(why, 0) + 1
        else:
            events.append(ev)
    if rng.random() < 0.5:
        events.append(grid_event(rng))
    return events, skipped


def trace_chunk(seeds):
    out = []
    for s in seeds:
        try:
            ev, sk = record_trace(s)
            out.append((s, ev, sk, None))
        except Exception as e:  # noqa: BLE001   reported by the caller (machinery)
            out.append((s, [], {}, f'{type(e).__name__}: {e}'))
    return out


# ------------------------------------------------------------------------------------------------
# multiprocessing entry points
# ------------------------------------------------------------------------------------------------
def _merge(stats, by_key, F, S, idx, lines):
    stats['evals'] += S['evals']
    stats['classes'] |= S['classes']
    stats['nontriv'] |= S['nontriv']
    for key, what, case in F:
        if key not in by_key:
            by_key[key] = [0, what, dict(case, idx=idx, group=lines)]      # enough to replay the case
        by_key[key][0] += 1


def replay_chunk(args):
    """args: (list of (index, kind, [json lines of one group]), seed) -> stats, findings by key"""
    groups, seed = args
    stats = {'evals': 0, 'classes': set(), 'nontriv': set(), 'groups': 0}
    by_key = {}
    for idx, kind, lines in groups:
        recs = [json.loads(l) for l in lines]
        j = idx * 7919 + seed * 104729
        if kind == 'bars':
            F, S = check_bars_group(recs, j)
        elif kind == 'grid':
            F, S = check_grid(recs[0], j)
        elif kind == 'cscale':
            F, S = check_cscale(recs[0], j)
        elif kind == 'tdisp':
            F, S = check_tdisp(recs, j)
        elif kind == 'famgraph':
            F, S = check_famgraph(recs[0], j)
        elif kind == 'mask':
            F, S = check_mask(recs[0], j)
        else:
            F, S = check_family(recs[0], j)
        stats['groups'] += 1
        _merge(stats, by_key, F, S, j, lines)
    return stats, by_key
