"""Binding of specs/Compare.tla (+ Trace_Compare.tla) to rsatoolbox.rdm.compare  (C03, C17 clause h).

This is the only file that knows how the comparison API of rsatoolbox looks.  It holds

* the TRUSTED KERNELS: the last, irrational step from the exact sufficient statistics TLC emits to a
  float (``value_from_stat``: ab/sqrt(aa*bb), numpy.linalg.solve for V^-1, sqrt of the squared
  fidelity), and textbook ARRAY-FORM kernels on float data (``array_kernel``) that are cross-checked
  against the TLA+ statistics on every emitted grid vector before they judge real-valued inputs
  (``scipy.linalg.sqrtm`` for Bures);
* the drivers that build RDMs objects / plain ndarrays from the vectors of a TLC test vector, call
  ``rsatoolbox.rdm.compare`` and every ``compare_*`` function and compare the result with the kernel;
* the replay of the "moved" states (joint permutation, swap, strictly increasing maps, positive
  scaling, positive affine maps) through the public API;
* the recorder for the implementation -> specification direction.

Tolerances (tied to the mechanism): tau-a equals the correctly rounded rational; rho-a 1e-14 (a
rational evaluated in floats); closed forms 1e-9; the conjugate-gradient path (sigma_k a matrix)
5e-5 = 5 x the relative residual 1e-5 at which scipy's cg stops, three solves enter one value
(observed: <= 8e-6 on the catalogue, <= 1.6e-5 over 3000 random SPD matrices with cond(V) up to 785);
Bures 2e-6 relative to the traces (square roots of eigenvalues that are exactly 0 are
computed as sqrt(1e-16)).
"""
from __future__ import annotations

import copy
import json
import math
import warnings
from fractions import Fraction

import numpy as np

warnings.filterwarnings('ignore')

from rsatoolbox.rdm import RDMs  # noqa: E402
import rsatoolbox.rdm as rr  # noqa: E402
import importlib  # noqa: E402

cmp_mod = importlib.import_module('rsatoolbox.rdm.compare')   # the module (rr.compare is the function)

RANK_METHODS = ('spearman', 'kendall', 'tau-a', 'rho-a')
COV_METHODS = ('cosine_cov', 'corr_cov')
BURES_METHODS = ('bures', 'bures_metric')
RATIONAL_METHODS = ('tau-a', 'rho-a')
RIEM_METHODS = ('neg_riem_dist',)          # spec growth: not named by the statement of C03
ALL_METHODS = ('cosine', 'corr', 'spearman', 'kendall', 'tau-a', 'rho-a', 'cosine_cov', 'corr_cov',
               'bures', 'bures_metric')
DIRECT = {'cosine': 'compare_cosine', 'corr': 'compare_correlation', 'spearman': 'compare_spearman',
          'kendall': 'compare_kendall_tau', 'tau-a': 'compare_kendall_tau_a', 'rho-a': 'compare_rho_a',
          'cosine_cov': 'compare_cosine_cov_weighted', 'corr_cov': 'compare_correlation_cov_weighted',
          'bures': 'compare_bures_similarity', 'bures_metric': 'compare_bures_metric',
          'neg_riem_dist': 'compare_neg_riemannian_distance'}
CLAUSE = {'cosine': 'b', 'corr': 'b', 'spearman': 'c', 'rho-a': 'c', 'kendall': 'd', 'tau-a': 'd',
          'cosine_cov': 'e', 'corr_cov': 'e', 'bures': 'f', 'bures_metric': 'f', 'neg_riem_dist': 'riem'}
ATOL_CLOSED = 1e-9
ATOL_CG = 5e-5
ATOL_RHO = 1e-14
RTOL_BURES = 2e-6
ATOL_RIEM = 2e-3      # Nelder-Mead with its default xatol = fatol = 1e-4 on a valley that flattens towards
                      # exp(t) -> 0; calibrated on the grid (see notes/C03.md)


# ------------------------------------------------------------------------------------------------
# trusted kernels
# ------------------------------------------------------------------------------------------------
def sigma_array(sg):
    """sigma record of the specification -> what is passed as sigma_k (None | 1-D | 2-D float array)"""
    if sg is None or sg['kind'] == 'none':
        return None
    if sg['kind'] == 'vec':
        return np.array(sg['v'], dtype=float)
    return np.array(sg['m'], dtype=float)


def sigma_class(sg):
    if sg is None or sg['kind'] == 'none':
        return 'none'
    if sg['kind'] == 'vec':
        return 'vector' if len(set(sg['v'])) > 1 else 'vector-constant'
    return 'matrix'


def value_from_stat(method, st, V=None, nc=None):
    """the last step: exact statistics -> float (or Fraction for the rational measures);
    None for an entry that is not demanded (one of its RDMs is degenerate: vanishing norm statistic)"""
    if method in RIEM_METHODS:        # V carries Sigma^ ; the statistics are 2 G~
        return riem_value(np.array(st['g1'], dtype=float) / 2, np.array(st['g2'], dtype=float) / 2,
                          np.array(V, dtype=float))
    if method in COV_METHODS:
        if not any(st['u']) or not any(st['v']):
            return None
        u = np.array(st['u'], dtype=float)
        v = np.array(st['v'], dtype=float)
        Vf = np.array(V, dtype=float)
        xu = np.linalg.solve(Vf, u)
        xv = np.linalg.solve(Vf, v)
        return float(u @ xv / math.sqrt((u @ xu) * (v @ xv)))
    ab, aa, bb = st['ab'], st['aa'], st['bb']
    if aa == 0 or bb == 0:
        return None
    if method in RATIONAL_METHODS:
        return Fraction(ab, aa)
    if method == 'bures':
        return math.sqrt(ab / (aa * bb)) if ab > 0 else 0.0
    if method == 'bures_metric':          # statistics are scaled by nc^2 (centred points times nc)
        return (aa + bb - 2.0 * math.sqrt(ab)) / (nc * nc)
    return ab / math.sqrt(aa * bb)


def sig_hat(nc, sigma):
    """P Sigma P' with P = [-1 | I]: covariance of the contrasts against the first condition"""
    if sigma is None:
        S = np.eye(nc)
    else:
        S = np.asarray(sigma, dtype=float)
        S = np.diag(S) if S.ndim == 1 else S
    P = np.hstack([-np.ones((nc - 1, 1)), np.eye(nc - 1)])
    return P @ S @ P.T


def riem_g(x):
    """second moment of the contrasts against the first condition from a condensed RDM vector"""
    n = _n_from_len(len(x))
    D = np.zeros((n, n))
    for k, (i, j) in enumerate(_pairs(n)):
        D[i, j] = D[j, i] = x[k]
    return np.array([[0.5 * (D[0, i] + D[0, j] - D[i, j]) for j in range(1, n)] for i in range(1, n)])


def riem_value(G1, G2, SH):
    """TRUSTED KERNEL for neg_riem_dist:  - inf over (t0, t1) of sqrt(sum log^2 eig(G2^-1 (e^t0 G1 + e^t1 SH))).
    Independent of the code: plain eigenvalues of G2^-1 M instead of the generalised symmetric solver, and a
    GLOBAL search: all points of a grid of step 0.5 on [-20, 20]^2 (batched), every grid-local minimum
    polished by Nelder-Mead with tight tolerances, plus the two boundary problems in closed form
    (e^t1 -> 0: what is left is the best rescaling of G1, log a = -mean log mu; e^t0 -> 0 likewise for SH)."""
    from scipy.optimize import minimize
    G2i = np.linalg.inv(G2)
    A, B = G2i @ G1, G2i @ SH

    def f(t):
        lam = np.linalg.eigvals(math.exp(t[0]) * A + math.exp(t[1]) * B).real
        if np.any(lam <= 0):
            return math.inf
        return math.sqrt(float(np.sum(np.log(lam) ** 2)))
    best = math.inf
    for M in (A, B):       # boundary: only one of the two terms
        mu = np.linalg.eigvals(M).real
        if np.all(mu > 1e-12):
            lm = np.log(mu)
            best = min(best, math.sqrt(float(np.sum((lm - lm.mean()) ** 2))))
    grid = np.linspace(-20, 20, 81)
    ea = np.exp(grid)
    Ms = ea[:, None, None, None] * A[None, None] + ea[None, :, None, None] * B[None, None]
    lam = np.linalg.eigvals(Ms).real
    with np.errstate(all='ignore'):
        F = np.sqrt(np.sum(np.log(np.where(lam > 0, lam, np.nan)) ** 2, axis=-1))
    F = np.where(np.isfinite(F), F, np.inf)
    pad = np.pad(F, 1, constant_values=np.inf)
    neigh = np.min([pad[1 + di:pad.shape[0] - 1 + di, 1 + dj:pad.shape[1] - 1 + dj]
                    for di in (-1, 0, 1) for dj in (-1, 0, 1) if (di, dj) != (0, 0)], axis=0)
    cands = sorted((F[i, j], grid[i], grid[j]) for i, j in zip(*np.nonzero(F <= neigh)))[:6]
    for val, u, v in cands:
        best = min(best, float(val))
        r = minimize(f, (u, v), method='Nelder-Mead', options={'xatol': 1e-9, 'fatol': 1e-12, 'maxiter': 2000})
        if np.isfinite(r.fun):
            best = min(best, float(r.fun))
    return -best


def _avg_ranks(x):
    x = np.asarray(x, dtype=float)
    return np.array([np.sum(x < xi) + (np.sum(x == xi) + 1) / 2.0 for xi in x])


def _pairs(n):
    return [(i, j) for i in range(n) for j in range(i + 1, n)]


def v_matrix(nc, sigma):
    """V[(i,j),(p,q)] = (S_ip - S_iq - S_jp + S_jq)^2 with S = identity | diag(vector) | matrix"""
    if sigma is None:
        S = np.eye(nc)
    else:
        sigma = np.asarray(sigma, dtype=float)
        S = np.diag(sigma) if sigma.ndim == 1 else sigma
    pr = _pairs(nc)
    V = np.empty((len(pr), len(pr)))
    for k, (i, j) in enumerate(pr):
        for l, (p, q) in enumerate(pr):
            V[k, l] = (S[i, p] - S[i, q] - S[j, p] + S[j, q]) ** 2
    return V


def _n_from_len(L):
    n = int(round((1 + math.sqrt(1 + 8 * L)) / 2))
    assert n * (n - 1) // 2 == L
    return n


def _kernel_matrix(x):
    """-1/2 H D H of a condensed vector"""
    n = _n_from_len(len(x))
    D = np.zeros((n, n))
    for k, (i, j) in enumerate(_pairs(n)):
        D[i, j] = D[j, i] = x[k]
    H = np.eye(n) - np.ones((n, n)) / n
    return -0.5 * H @ D @ H


def _psd_sqrtm(A):
    from scipy.linalg import sqrtm
    with warnings.catch_warnings():
        warnings.simplefilter('ignore')
        return np.real(sqrtm(A))


def array_kernel(method, x, y, sigma=None):
    """textbook formula on two float vectors (array-form kernel; independent of rsatoolbox)"""
    x = np.asarray(x, dtype=float)
    y = np.asarray(y, dtype=float)
    n = len(x)
    if method == 'cosine':
        return float(x @ y / math.sqrt((x @ x) * (y @ y)))
    if method == 'corr':
        xc, yc = x - x.mean(), y - y.mean()
        return float(xc @ yc / math.sqrt((xc @ xc) * (yc @ yc)))
    if method in ('spearman', 'rho-a'):
        rx, ry = _avg_ranks(x), _avg_ranks(y)
        rx, ry = rx - (n + 1) / 2.0, ry - (n + 1) / 2.0
        if method == 'rho-a':
            return float(12.0 * (rx @ ry) / (n ** 3 - n))
        return float(rx @ ry / math.sqrt((rx @ rx) * (ry @ ry)))
    if method in ('kendall', 'tau-a'):
        c = d = tx = ty = 0
        for i in range(n):
            for j in range(i + 1, n):
                s = np.sign(x[i] - x[j]) * np.sign(y[i] - y[j])
                c += s > 0
                d += s < 0
                tx += x[i] == x[j]
                ty += y[i] == y[j]
        n0 = n * (n - 1) // 2
        if method == 'tau-a':
            return float((c - d) / n0)
        return float((c - d) / math.sqrt((n0 - tx) * (n0 - ty)))
    if method in COV_METHODS:
        if method == 'corr_cov':
            x, y = x - x.mean(), y - y.mean()
        V = v_matrix(_n_from_len(n), sigma)
        xu, xv = np.linalg.solve(V, x), np.linalg.solve(V, y)
        return float(x @ xv / math.sqrt((x @ xu) * (y @ xv)))
    if method in RIEM_METHODS:
        return riem_value(riem_g(x), riem_g(y), sig_hat(_n_from_len(n), sigma))
    if method in BURES_METHODS:
        A, B = _kernel_matrix(x), _kernel_matrix(y)
        sa = _psd_sqrtm(A)
        F = float(np.trace(_psd_sqrtm(sa @ B @ sa)))
        if method == 'bures':
            return F / math.sqrt(np.trace(A) * np.trace(B))
        return float(np.trace(A) + np.trace(B) - 2 * F)
    raise ValueError(method)


def fast_path_model(method, x, y, sigma_vec):
    """DIAGNOSTIC ONLY (never an oracle): what the 1-D sigma_k fast path of this tree computes
    instead of the whitened measure - cosine of the double-centred second moments divided
    element-wise by sqrt(s_i s_j), off-diagonal entries counted twice.  Used to give the known
    deviation its own violation key so that any OTHER deviation on vector sigma_k is still reported."""
    x = np.asarray(x, dtype=float)
    y = np.asarray(y, dtype=float)
    if method == 'corr_cov':
        x, y = x - x.mean(), y - y.mean()
    s = np.sqrt(np.asarray(sigma_vec, dtype=float))
    Ga, Gb = _kernel_matrix(x) / np.outer(s, s), _kernel_matrix(y) / np.outer(s, s)
    return float(np.sum(Ga * Gb) / math.sqrt(np.sum(Ga * Ga) * np.sum(Gb * Gb)))


def tol_for(method, sg_class):
    if method == 'tau-a':
        return 0.0
    if method == 'rho-a':
        return ATOL_RHO
    if method in COV_METHODS and sg_class in ('matrix', 'vector'):
        return ATOL_CG     # a variance vector is whitened through the conjugate-gradient path as well
                           # (since the repository fix of C03e)
    if method in BURES_METHODS:
        return RTOL_BURES
    if method in RIEM_METHODS:
        return ATOL_RIEM
    return ATOL_CLOSED


# ------------------------------------------------------------------------------------------------
# building inputs and calling the library
# ------------------------------------------------------------------------------------------------
def make_rdms(vectors, tag='a', dtype=float, scale=None):
    """dtype: float | 'int64' | 'int32' (an RDMs object keeps the dtype of a 2-D input);
    scale: the vectors multiplied by a positive factor"""
    v = np.array(vectors, dtype=float)
    if scale is not None:
        v = v * scale
    v = v.astype(dtype)
    n_rdm, L = v.shape
    nc = _n_from_len(L)
    return RDMs(v.copy(), dissimilarity_measure='test measure',
                descriptors={'session': tag},
                rdm_descriptors={'subj': [f'{tag}{i}' for i in range(n_rdm)]},
                pattern_descriptors={'cond': [f'c{i}' for i in range(nc)]})


def make_arg(vectors, flavour, tag, dtype=float, scale=None):
    """flavour: 'rdms' | 'ndarray' (2-D) | 'ndarray1d' (only for a single RDM)"""
    if flavour == 'rdms':
        return make_rdms(vectors, tag, dtype, scale)
    v = np.array(vectors, dtype=float)
    if scale is not None:
        v = v * scale
    v = v.astype(dtype)
    if flavour == 'ndarray1d' and v.shape[0] == 1:
        return v[0].copy()
    return v.copy()


def call(method, A, B, sigma, entry):
    """entry: 'compare' (dispatcher) | 'direct' (the compare_* function) | 'alias' (tau-b)"""
    if entry == 'direct':
        f = getattr(cmp_mod, DIRECT[method])
        if method in COV_METHODS + RIEM_METHODS:
            return f(A, B, sigma_k=sigma)
        return f(A, B)
    name = 'tau-b' if (entry == 'alias' and method == 'kendall') else method
    if method in COV_METHODS + RIEM_METHODS:
        return rr.compare(A, B, method=name, sigma_k=sigma)
    return rr.compare(A, B, method=name)


def expected_matrix(method, res, V, nc):
    return [[value_from_stat(method, st, V, nc) for st in row] for row in res]


def _close(got, exp, tol, method, scale=1.0, relative=False):
    if isinstance(exp, Fraction):
        if method == 'tau-a':
            return got == exp.numerator / exp.denominator
        return abs(got - float(exp)) <= tol
    if method in BURES_METHODS:
        return abs(got - exp) <= tol * (scale if relative else max(1.0, scale))
    return abs(got - exp) <= tol


def compare_result(method, got, exp, tol, scales=None, relative=False):
    """-> None | (kind, detail) with kind in shape / transposed / value / nonfinite"""
    n1, n2 = len(exp), len(exp[0])
    got = np.asarray(got)
    if got.shape != (n1, n2):
        return 'shape', {'got_shape': list(got.shape), 'expected_shape': [n1, n2]}
    bad = []
    partial = False
    for i in range(n1):
        for j in range(n2):
            if exp[i][j] is None:          # not demanded
                partial = True
                continue
            g = float(got[i, j])
            sc = scales[i][j] if scales is not None else 1.0
            if not math.isfinite(g) or not _close(g, exp[i][j], tol, method, sc, relative):
                bad.append((i, j, g, float(exp[i][j])))
    if not bad:
        return None
    if partial:
        # a stack with a degenerate RDM: are the right values sitting in the wrong cells?
        vals = [float(e) for row in exp for e in row if e is not None] + [0.0]
        mis = all(math.isfinite(g) and any(abs(g - v) <= max(tol, 1e-12) for v in vals) for (_, _, g, _) in bad)
        i, j, g, e = bad[0]
        return ('misplaced' if mis else 'value'), {'entry': [i, j], 'got': g, 'expected': e, 'n_bad': len(bad)}
    if n1 == n2 and n1 > 1:
        tr_ok = all(_close(float(got[j, i]), exp[i][j], tol, method,
                           scales[i][j] if scales is not None else 1.0)
                    for i in range(n1) for j in range(n2) if math.isfinite(float(got[j, i])))
        if tr_ok and all(math.isfinite(float(z)) for z in got.ravel()):
            return 'transposed', {'first': bad[0]}
    i, j, g, e = bad[0]
    kind = 'nonfinite' if not math.isfinite(g) else 'value'
    return kind, {'entry': [i, j], 'got': g, 'expected': e, 'abs_err': abs(g - e) if math.isfinite(g) else None,
                  'n_bad': len(bad)}


# positive factors for the two stacks: every similarity is invariant (down to where squares of the entries
# are far from underflow: 1e-26 -> 1e-52)
SCALE_PAIRS = ((1e-6, 1e-6), (1e-9, 1.0), (1e6, 1e-6), (1e-9, 1e-9), (1e-20, 1e-20), (1e-26, 1.0),
               (1e12, 1e-26), (1e12, 1e12))
FLAVOURS = (('rdms', 'rdms'), ('ndarray', 'ndarray'), ('rdms', 'ndarray'), ('ndarray1d', 'rdms'),
            ('rdms', 'ndarray1d'))
ENTRIES = ('compare', 'direct')


def check_value_record(rec, vcat, nc, variant=0):
    """S -> I for one "out" state.  Returns (n_evaluations, [ (key, what, case) ... ])."""
    m = rec['m']
    a, b = rec['a'], rec['b']
    sg = vcat['sigmas'][rec['s'] - 1] if rec['s'] else None
    V = vcat['V'][rec['s'] - 1] if rec['s'] else None
    if m in RIEM_METHODS:
        V = vcat['SH'][rec['s'] - 1]          # Sigma^ of the catalogue entry
    sgc = sigma_class(sg)
    sigma = sigma_array(sg)
    tol = tol_for(m, sgc)
    out = []
    neval = 0
    exp = expected_matrix(m, rec['res'], V, nc)
    degenerate = any(e is None for row in exp for e in row)
    scales = None
    if m in BURES_METHODS:
        scales = [[(st['aa'] + st['bb']) / (nc * nc) if m == 'bures_metric' else 1.0 for st in row]
                  for row in rec['res']]
    base = f"C03/{CLAUSE[m]}/{m}" + (f"/sigma={sgc}" if m in COV_METHODS + RIEM_METHODS else '')
    case0 = {'method': m, 'a': a, 'b': b, 'sigma_k': sg, 'n_cond': nc}
    # 1. the array-form kernel must reproduce the exact statistics of the specification (trusted base)
    for i, x in enumerate(a):
        for j, y in enumerate(b):
            e = exp[i][j]
            if e is None:
                continue
            k = array_kernel(m, x, y, sigma)
            ktol = 1e-12 if m not in BURES_METHODS else RTOL_BURES * max(1.0, scales[i][j])
            if abs(k - float(e)) > ktol:
                raise KernelMismatch(f'array kernel {m} disagrees with the TLA+ statistics on {x},{y},{sg}: '
                                     f'{k} vs {float(e)}')
    # 2. the library: RDMs objects through compare() always, plus one other (flavour, entry point)
    #    combination per vector, rotating with the vector index so that all are covered evenly
    results = {}
    combos = [(fl, en) for fl in FLAVOURS for en in ENTRIES + (('alias',) if m == 'kendall' else ())
              if not (fl[0] == 'ndarray1d' and len(a) != 1) and not (fl[1] == 'ndarray1d' and len(b) != 1)][1:]
    todo = [(FLAVOURS[0], 'compare'), combos[variant % len(combos)]]
    for fl, entry in todo:
        A = make_arg(a, fl[0], 'a')
        B = make_arg(b, fl[1], 'b')
        neval += 1
        try:
            got = call(m, A, B, sigma, entry)
        except Exception as e:  # totality: every admissible input must be accepted
            out.append(((f'C03/a/{m}/stack-with-zero-norm-rdm' if degenerate else base) + f'/raises/{type(e).__name__}',
                        f'{m}: the call raises on an admissible input: {e!r}'[:300],
                        {**case0, 'flavour': fl, 'entry': entry}))
            continue
        results[(fl, entry)] = np.asarray(got, dtype=float)
        r = compare_result(m, got, exp, tol, scales)
        if r is None:
            continue
        kind, detail = r
        if m in RIEM_METHODS and kind == 'value' and detail['got'] < detail['expected']:
            kind = 'not-the-minimum'      # the optimiser of the implementation stopped above the infimum
        key = f'{base}/{kind}'
        if degenerate and kind != 'shape':
            key = f'C03/a/{m}/stack-with-zero-norm-rdm/{kind}'
        elif kind in ('shape', 'transposed'):
            key = f'C03/a/{m}/{kind}'
        elif m in COV_METHODS and sgc == 'vector' and kind == 'value':
            # is it exactly the known fast-path deviation?  (diagnostic model, see fast_path_model)
            g = np.asarray(got, dtype=float)
            fp = all(abs(g[i, j] - fast_path_model(m, a[i], b[j], sg['v'])) <= ATOL_CLOSED
                     for i in range(len(a)) for j in range(len(b)))
            key = f'{base}/fast-path-is-not-whitening' if fp else f'{base}/value'
        out.append((key, f'{m} ({"x".join(fl)} input, {entry}) differs from its definition: {detail}',
                    {**case0, 'flavour': fl, 'entry': entry, 'detail': detail,
                     'expected': [[None if x is None else float(x) for x in row] for row in exp],
                     'got': np.asarray(got, dtype=float).tolist()}))
    # 2b. storage dtype and magnitude must not matter (rotating with the vector index):
    #     even index: integer-typed input (int64 / int32 on both sides, mixed int / float) - the vectors are
    #       integers, the definition does not depend on how they are stored;
    #     odd index: one or both stacks multiplied by a positive factor - every similarity is invariant,
    #       the squared Bures metric is  (sa*trA + sb*trB - 2*sqrt(sa*sb)*F) ; relative tolerance
    if variant % 2 == 0:
        da, db = (('int64', 'int64'), ('int32', 'int32'), ('int64', float), (float, 'int32'))[(variant // 2) % 4]
        kindf, sa, sb, exp2, scales2 = 'int-dtype', None, None, exp, scales
    else:
        sa, sb = SCALE_PAIRS[(variant // 2) % len(SCALE_PAIRS)]
        if m in RIEM_METHODS:
            # invariant under a rescaling of the first RDM alone (absorbed by exp(t0)); moderate factors:
            # the optimiser starts at t = (0, 0) and has to walk to log(1/sa)
            # (factors >= 1 only: for a first RDM that is SMALL against Sigma^ the code's optimiser stops in a
            #  local minimum - finding reported in notes/C03.md, not demanded here)
            sa, sb = (10.0, 1e3, 1e2, 50.0)[(variant // 2) % 4], 1.0
        da = db = float
        kindf, exp2, scales2 = 'scaled-input', exp, scales
        if m == 'bures_metric':
            exp2 = [[None if (st['aa'] == 0 or st['bb'] == 0) else
                     (sa * st['aa'] + sb * st['bb'] - 2.0 * math.sqrt(sa * sb * st['ab'])) / (nc * nc)
                     for st in row] for row in rec['res']]
            scales2 = [[(sa * st['aa'] + sb * st['bb']) / (nc * nc) for st in row]
                       for row in rec['res']]
    cont = ('ndarray', 'rdms')[(variant // 8) % 2]
    neval += 1
    case2 = {**case0, 'container': cont, 'dtype_a': str(da), 'dtype_b': str(db), 'scale_a': sa, 'scale_b': sb}
    try:
        got2 = call(m, make_arg(a, cont, 'a', da, sa), make_arg(b, cont, 'b', db, sb), sigma, 'compare')
    except Exception as e:
        out.append((f'{base}/{kindf}/raises/{type(e).__name__}',
                    f'{m}: the call raises on {kindf} input: {e!r}'[:300], case2))
    else:
        r = compare_result(m, got2, exp2, tol, scales2, relative=(m == 'bures_metric' and kindf == 'scaled-input'))
        if r is not None and m in RIEM_METHODS and r[0] == 'value' and r[1]['got'] < r[1]['expected']:
            r = ('not-the-minimum', r[1])
        if r is not None:
            out.append(((f'C03/riem/{m}' if m in RIEM_METHODS else base) + f'/{kindf}/{r[0]}', f'{m} on {kindf} input differs from its definition: {r[1]}',
                        {**case2, 'got': np.asarray(got2, dtype=float).tolist(),
                         'expected': [[None if x is None else float(x) for x in row] for row in exp2]}))
    # 2c. Bures: the module offers two implementations of each quantity; both must give the definition
    if m in BURES_METHODS and not degenerate:
        names = (('_bures_similarity_first_way', '_bures_similarity_second_way') if m == 'bures'
                 else ('_sq_bures_metric_first_way', '_sq_bures_metric_second_way'))
        for i, x in enumerate(a):
            for j, y in enumerate(b):
                A_, B_ = _kernel_matrix(x), _kernel_matrix(y)
                vals = []
                for nm in names:
                    neval += 1
                    try:
                        vals.append(float(getattr(cmp_mod, nm)(A_, B_)))
                    except Exception as e:
                        out.append((f'{base}/{nm.strip("_")}/raises/{type(e).__name__}', repr(e)[:200], case0))
                        continue
                    if not _close(vals[-1], exp[i][j], tol, m, scales[i][j]):
                        out.append((f'{base}/{nm.strip("_")}/value',
                                    f'{nm} differs from the definition: {vals[-1]} vs {float(exp[i][j])}',
                                    {**case0, 'function': nm, 'got': vals[-1], 'expected': float(exp[i][j])}))
                if len(vals) == 2 and abs(vals[0] - vals[1]) > 2 * tol * max(1.0, scales[i][j]):
                    out.append((f'{base}/first-way-differs-from-second-way',
                                f'{names[0]} = {vals[0]} but {names[1]} = {vals[1]}', {**case0, 'values': vals}))
    # 3. clause h: ndarray and RDMs input give the same answer; dispatcher = direct function
    ref = results.get((FLAVOURS[0], 'compare'))
    if ref is not None:
        for (fl, entry), g in results.items():
            if (fl, entry) == (FLAVOURS[0], 'compare'):
                continue
            if g.shape != ref.shape or not np.array_equal(g, ref, equal_nan=True):
                key = f'C03/h/{m}/flavour-differs' if fl != FLAVOURS[0] else f'C03/dispatch/{m}/{entry}-differs'
                out.append((key, f'{m}: result depends on the input flavour / entry point {fl} {entry}',
                            {**case0, 'flavour': fl, 'entry': entry, 'ref': ref.tolist(), 'got': g.tolist()}))
    return neval, out


class KernelMismatch(Exception):
    """the trusted kernel disagrees with the TLA+ exact values: machinery failure"""


# ------------------------------------------------------------------------------------------------
# moves (C03 g: permutation, swap;  C17 h: monotone, scale, affine)
# ------------------------------------------------------------------------------------------------
def _lookup_fun(pairs):
    table = {float(x): float(y) for x, y in pairs}

    def fun(v):
        out = np.array(v, dtype=float, copy=True)
        flat = out.ravel()
        for i, z in enumerate(flat):
            flat[i] = table[float(z)]
        return out
    return fun


def check_move_record(rec, vcat, nc):
    """S -> I for one "moved" state: the same move is carried out through the public API
    (RDMs.reorder, rsatoolbox.rdm.transform) and the measure must not change (swap: transpose)."""
    m, k = rec['m'], rec['k']
    pid = 'C03' if k in ('perm', 'swap') else 'C17'
    sg0 = vcat['sigmas'][rec['s'] - 1] if rec['s'] else None
    sgc = sigma_class(sg0)
    s0 = sigma_array(sg0)
    s1 = sigma_array(rec['sg']) if rec['s'] else None
    tol = tol_for(m, sgc)
    if m in RIEM_METHODS:
        tol = 2 * tol          # two optimiser runs are compared with each other
    a0, b0, a1, b1 = rec['a0'], rec['b0'], rec['a'], rec['b']
    out = []
    case0 = {'method': m, 'move': k, 'side': rec['side'], 'arg': rec['arg'], 'a0': a0, 'b0': b0,
             'sigma_k': sg0, 'n_cond': nc}
    A0, B0 = make_rdms(a0, 'a'), make_rdms(b0, 'b')
    try:
        v0 = np.asarray(call(m, A0, B0, s0, 'compare'), dtype=float)
    except Exception as e:
        return 1, [(f'{pid}/move/{m}/raises/{type(e).__name__}', repr(e)[:200], case0)]
    neval = 1
    clause = 'g' if pid == 'C03' else 'h'
    if k == 'perm':
        pi = [p - 1 for p in rec['arg']]
        A1, B1 = copy.deepcopy(A0), copy.deepcopy(B0)
        A1.reorder(np.array(pi))
        B1.reorder(np.array(pi))
        # the library's own index map must be the kappa of the specification
        if not (np.array_equal(A1.get_vectors(), np.array(a1, float))
                and np.array_equal(B1.get_vectors(), np.array(b1, float))):
            out.append((f'C03/g/perm/reorder-differs-from-kappa',
                        'RDMs.reorder does not realise the condensed index map of the specification',
                        {**case0, 'a1_spec': a1, 'a1_lib': A1.get_vectors().tolist()}))
            A1, B1 = make_rdms(a1, 'a'), make_rdms(b1, 'b')
        v1 = np.asarray(call(m, A1, B1, s1, 'compare'), dtype=float)
        same = v0
        what = 'joint permutation of the conditions (and of sigma_k) changes the measure'
        # summation order changes: not bit-identical, but within the tolerance of the path
        eff = max(tol, 1e-12)
    elif k == 'swap':
        v1 = np.asarray(call(m, B0, A0, s0, 'compare'), dtype=float)
        same = v0.T if m not in RIEM_METHODS else v1      # neg_riem_dist: the roles are not symmetric
        what = 'compare(b, a) is not the transpose of compare(a, b)'
        eff = max(tol, 1e-12)
    else:
        if k == 'mono':
            fun = _lookup_fun(rec['arg'])
        else:
            c, d = rec['arg']
            fun = (lambda c, d: (lambda v: c * v + d))(float(c), float(d))
        if rec['side'] == 1:
            A1, B1 = rr.transform(copy.deepcopy(A0), fun), B0
            okv = np.array_equal(A1.get_vectors(), np.array(a1, float))
        else:
            A1, B1 = A0, rr.transform(copy.deepcopy(B0), fun)
            okv = np.array_equal(B1.get_vectors(), np.array(b1, float))
        if not okv:
            out.append((f'C17/f/transform/custom-function-not-applied',
                        'rsatoolbox.rdm.transform(rdms, fun) does not hold fun(vectors)',
                        {**case0, 'a1_spec': a1, 'b1_spec': b1}))
        v1 = np.asarray(call(m, A1, B1, s0, 'compare'), dtype=float)
        same = v0
        what = {'mono': 'a strictly increasing map of one RDM changes a rank-based measure',
                'scale': 'positive scaling of one RDM changes the measure',
                'affine': 'a positive affine map of one RDM changes a correlation-type / rank-based measure'}[k]
        # rank-based: identical ranks -> bit-identical; otherwise float evaluation of the same value
        eff = 0.0 if (m in RANK_METHODS) else max(tol, 1e-12)
    neval += 1
    if v1.shape != same.shape or not np.all(np.abs(v1 - same) <= eff):
        err = float(np.max(np.abs(v1 - same))) if v1.shape == same.shape else None
        out.append((f'{pid}/{clause}/{m}/{k}' + (f'/sigma={sgc}' if m in COV_METHODS else ''), what,
                    {**case0, 'before': v0.tolist(), 'after': v1.tolist(), 'max_abs_diff': err}))
    # the moved state is also a value vector of its own: after == kernel(res')
    if m not in COV_METHODS or sgc != 'vector':
        V1 = None
        if m in COV_METHODS:
            V1 = v_matrix(nc, s1)        # array kernel of V (cross-checked against VCatalogue on the grid)
        if m in RIEM_METHODS:
            V1 = sig_hat(nc, s1)
        exp = expected_matrix(m, rec['res'], V1, nc)
        scales = None
        if m in BURES_METHODS:
            scales = [[(st['aa'] + st['bb']) / (nc * nc) if m == 'bures_metric' else 1.0 for st in row]
                      for row in rec['res']]
        r = compare_result(m, v1, exp, tol, scales)
        if r is not None:
            out.append(((f"C03/{CLAUSE[m]}/{m}" if pid == 'C03' else f"C17/h/{m}/after-{k}")
                        + (f"/sigma={sgc}" if m in COV_METHODS else '') + f'/{r[0]}',
                        f'{m} after move {k} differs from its definition: {r[1]}',
                        {**case0, 'a': a1, 'b': b1, 'detail': r[1]}))
    return neval, out


# ------------------------------------------------------------------------------------------------
# pool worker
# ------------------------------------------------------------------------------------------------
def replay_chunk(args):
    base, lines, vcat, nc = args
    nev = 0
    bad = []
    nontriv = 0
    nmoves = 0
    for j, line in enumerate(lines):
        rec = json.loads(line)
        if rec.get('t') == 'v':
            n, out = check_value_record(rec, vcat, nc, variant=base + j)
            if _nontrivial(rec):
                nontriv += 1
        elif rec.get('t') == 'm':
            n, out = check_move_record(rec, vcat, nc)
            nmoves += 1
        else:
            continue
        nev += n
        bad.extend(out)
    return len(lines), nev, nontriv, nmoves, bad


def _nontrivial(rec):
    """a test vector is non-trivial when some compared pair has a tie or a negative entry, or the
    stacks have different sizes, or sigma_k is not None"""
    a, b = rec['a'], rec['b']
    if len(a) != len(b) or rec['s'] > 1:
        return True
    for x in a + b:
        if len(set(x)) < len(x) or min(x) < 0:
            return True
    return False


# ------------------------------------------------------------------------------------------------
# float tier: real-valued inputs, library vs array kernels (kernels validated on the grid first)
# ------------------------------------------------------------------------------------------------
def float_case(seed):
    rng = np.random.default_rng(seed)
    nc = int(rng.integers(3, 8))
    L = nc * (nc - 1) // 2
    n1, n2 = int(rng.integers(1, 4)), int(rng.integers(1, 4))
    kind = seed % 4
    if kind == 0:
        a, b = rng.normal(size=(n1, L)), rng.normal(size=(n2, L))
    elif kind == 1:      # ties: few distinct values
        a, b = rng.integers(0, 4, (n1, L)) * 0.5, rng.integers(-1, 3, (n2, L)) * 0.25
    else:                # squared euclidean RDMs of random points (embeddable: admissible for Bures too)
        from scipy.spatial.distance import pdist
        d = int(rng.integers(1, nc + 1))
        a = np.array([pdist(rng.normal(size=(nc, d)), 'sqeuclidean') for _ in range(n1)])
        b = np.array([pdist(rng.normal(size=(nc, d)), 'sqeuclidean') for _ in range(n2)])
    sk = seed % 3
    if sk == 0:
        sigma = None
    elif sk == 1:
        sigma = rng.uniform(0.5, 2.0, nc)
    else:
        Bm = rng.normal(size=(nc, nc))
        sigma = Bm @ Bm.T / nc + np.eye(nc)
    return nc, a, b, sigma, kind


def check_float_case(seed):
    nc, a, b, sigma, kind = float_case(seed)
    out = []
    nev = 0
    for m in ALL_METHODS:
        if m in BURES_METHODS and kind < 2:
            continue
        degenerate = False
        for x in list(a) + list(b):
            if m in ('corr', 'corr_cov', 'spearman', 'kendall') and np.ptp(x) == 0:
                degenerate = True
            if m in ('cosine', 'cosine_cov') + BURES_METHODS and not np.any(x):
                degenerate = True
        if degenerate:
            continue
        sg = sigma if m in COV_METHODS else None
        sgc = 'none' if sg is None else ('vector' if sg.ndim == 1 else 'matrix')
        exp = [[array_kernel(m, x, y, sg) for y in b] for x in a]
        tol = tol_for(m, sgc)
        scales = None
        if m == 'bures_metric':
            scales = [[float(np.trace(_kernel_matrix(x)) + np.trace(_kernel_matrix(y))) for y in b] for x in a]
        for fl in (('rdms', 'rdms'), ('ndarray', 'ndarray')):
            nev += 1
            A, B = make_arg(a, fl[0], 'a'), make_arg(b, fl[1], 'b')
            try:
                got = call(m, A, B, sg, 'compare')
            except Exception as e:
                out.append((f"C03/{CLAUSE[m]}/{m}/float/raises/{type(e).__name__}", repr(e)[:200],
                            {'seed': seed, 'method': m}))
                continue
            r = compare_result(m, got, exp, tol, scales)
            if r is None:
                continue
            kind_, detail = r
            base = f"C03/{CLAUSE[m]}/{m}" + (f"/sigma={sgc}" if m in COV_METHODS else '')
            key = f'{base}/{kind_}' if kind_ not in ('shape', 'transposed') else f'C03/a/{m}/{kind_}'
            if m in COV_METHODS and sgc == 'vector' and kind_ == 'value':
                g = np.asarray(got, dtype=float)
                fp = all(abs(g[i, j] - fast_path_model(m, a[i], b[j], sg)) <= ATOL_CLOSED
                         for i in range(len(a)) for j in range(len(b)))
                key = f'{base}/fast-path-is-not-whitening' if fp else f'{base}/value'
            out.append((key, f'{m} on real-valued input differs from its definition: {detail}',
                        {'seed': seed, 'method': m, 'a': a.tolist(), 'b': b.tolist(),
                         'sigma_k': None if sg is None else sg.tolist(), 'detail': detail}))
    return nev, out


# ------------------------------------------------------------------------------------------------
# implementation -> specification: record calls on integer stacks larger than the exhaustive grid
# ------------------------------------------------------------------------------------------------
KSCALE = 10 ** 6
TRACE_METHODS = ('cosine', 'corr', 'spearman', 'kendall', 'tau-a', 'rho-a', 'cosine_cov', 'corr_cov')


def _admissible(m, x):
    if m in ('cosine', 'cosine_cov') + BURES_METHODS:
        return bool(np.any(x))
    if m in ('corr', 'corr_cov', 'spearman', 'kendall'):
        return np.ptp(x) > 0
    return True


def encode_out(m, got, L):
    """returned matrix -> what the trace specification reads: rational measures as value * den rounded
    to the integer it has to be (ok = it was an integer within 1e-9), the others as sign and
    q = round(|value| * 1e6)"""
    out = []
    for i in range(got.shape[0]):
        row = []
        for j in range(got.shape[1]):
            g = float(got[i, j])
            if m in RATIONAL_METHODS:
                den = L * (L - 1) // 2 if m == 'tau-a' else L ** 3 - L
                z = g * den
                row.append({'sg': int(np.sign(round(z))), 'q': abs(int(round(z))),
                            'ok': bool(abs(z - round(z)) <= 1e-9 * max(1.0, abs(z)))})
            else:
                row.append({'sg': int(np.sign(g)) if abs(g) * KSCALE >= 0.5 else 0,
                            'q': int(round(abs(g) * KSCALE)), 'ok': True})
        out.append(row)
    return out


def record_trace(seed, nc, lo=-3, hi=6, ncalls=4):
    """one session: two integer stacks over nc conditions, several compare calls on them.
    Returns (events, skipped_degenerate).  Each event logs the inputs and the returned matrix:
    rational measures as value*den rounded to the integer it must be (err logged), the others as
    sign and round(|value| * 1e6)."""
    rng = np.random.default_rng(seed)
    L = nc * (nc - 1) // 2
    n1, n2 = int(rng.integers(1, 4)), int(rng.integers(1, 4))
    span = int(rng.integers(2, hi - lo + 1))          # few distinct values -> many ties
    a = rng.integers(lo, lo + span + 1, (n1, L))
    b = rng.integers(lo, lo + span + 1, (n2, L))
    events = []
    skipped = 0
    methods = list(rng.permutation(TRACE_METHODS))[:ncalls]
    for m in methods:
        if not all(_admissible(m, x) for x in list(a) + list(b)):
            skipped += 1
            continue
        sg = {'kind': 'none', 'v': [], 'm': []}
        if m in COV_METHODS:
            sk = int(rng.integers(0, 3))
            if sk == 1:
                sg = {'kind': 'vec', 'v': rng.integers(1, 4, nc).tolist(), 'm': []}
            elif sk == 2:
                Bm = rng.integers(-1, 2, (nc, nc))
                sg = {'kind': 'mat', 'v': [], 'm': (Bm @ Bm.T + np.eye(nc, dtype=int)).tolist()}
        fl = ('rdms', 'ndarray')[int(rng.integers(0, 2))]
        A, B = make_arg(a, fl, 'a'), make_arg(b, fl, 'b')
        got = np.asarray(call(m, A, B, sigma_array(sg), 'compare'), dtype=float)
        ev = {'m': m, 'inv': 'none', 'sg': sg, 'a': a.tolist(), 'b': b.tolist(), 'shape': list(got.shape)}
        if got.shape != (n1, n2) or not np.all(np.isfinite(got)):
            ev['out'] = []
            ev['bad'] = 'shape-or-nonfinite'
            ev['raw'] = got.tolist()
            events.append(ev)
            continue
        out = encode_out(m, got, L)
        ev['out'] = out
        ev['raw'] = got.tolist()
        events.append(ev)
    return events, skipped


def trace_job(args):
    seed, nc = args
    try:
        return seed, nc, record_trace(seed, nc), None
    except Exception as e:  # an exception on admissible integer input
        return seed, nc, ([], 0), repr(e)


def finish_cov_event(ev, acc, nc):
    """the trace specification accepted structure and emitted the exact V and centred vectors of a
    whitened call; the kernel applies V^-1 and judges the recorded values.
    -> None | violation-key suffix ('value' | 'fast-path-is-not-whitening'), details"""
    V = acc['V']
    tol = ATOL_CG if ev['sg']['kind'] in ('mat', 'vec') else ATOL_CLOSED
    bad = []
    for i, row in enumerate(acc['uv']):
        for j, st in enumerate(row):
            e = value_from_stat(ev['m'], st, V, nc)
            g = ev['raw'][i][j]
            if abs(g - e) > tol:
                bad.append((i, j, g, e))
    if not bad:
        return None
    kind = 'value'
    if sigma_class(ev['sg']) == 'vector':
        if all(abs(ev['raw'][i][j] - fast_path_model(ev['m'], ev['a'][i], ev['b'][j], ev['sg']['v'])) <= ATOL_CLOSED
               for i in range(len(ev['a'])) for j in range(len(ev['b']))):
            kind = 'fast-path-is-not-whitening'
    return kind, bad[:3]


# ------------------------------------------------------------------------------------------------
# the sigma_k catalogue
# ------------------------------------------------------------------------------------------------
def _sv(v):
    return {'kind': 'vec', 'v': v, 'm': []}


def _sm(m):
    return {'kind': 'mat', 'v': [], 'm': m}


# must mirror SigmaCat of specs/MC_Compare.tla (checked: TLC echoes sigma in every moved record and
# the V matrices are compared with the kernel above)
SIGMAS = {
    3: [{'kind': 'none', 'v': [], 'm': []}, _sv([1, 2, 3]), _sv([2, 2, 1]),
        _sm([[1, 0, 0], [0, 2, 0], [0, 0, 3]]), _sm([[2, 1, 0], [1, 2, 1], [0, 1, 2]]),
        _sm([[3, 1, 1], [1, 2, 0], [1, 0, 2]])],
    4: [{'kind': 'none', 'v': [], 'm': []}, _sv([1, 2, 3, 4]), _sv([2, 2, 1, 3]),
        _sm([[1, 0, 0, 0], [0, 2, 0, 0], [0, 0, 3, 0], [0, 0, 0, 4]]),
        _sm([[2, 1, 0, 0], [1, 2, 1, 0], [0, 1, 2, 1], [0, 0, 1, 2]]),
        _sm([[3, 1, 1, 0], [1, 2, 0, 1], [1, 0, 2, 0], [0, 1, 0, 2]])],
}


# ------------------------------------------------------------------------------------------------
# TLC configurations of MC_Compare / MC_Trace_Compare
# ------------------------------------------------------------------------------------------------
SPEC_INVARIANTS = ('CauchySchwarz', 'Symmetric', 'SelfOne', 'Pairing', 'VProps', 'VecIsDiag', 'Embeddable',
                   'UndemandedIsZeroNorm', 'RiemTheorems')
SPEC_PROPERTIES = ('PermInvariant', 'SwapTransposes', 'MonoInvariant', 'LinInvariant')


def _set(xs):
    return '{' + ', '.join(f'"{x}"' if isinstance(x, str) else str(x) for x in xs) + '}'


def cfg(nc, *, voff=1, vspan=3, vecs='AllVecs', vecsb=None, movevecs='AllVecs', shapes='Shapes11', pz=0,
        methods=ALL_METHODS[:8], moves=('perm', 'swap'), monohi=4, scales=(2, 3), px=1, py=1,
        moveconfigs='ConfigsAll', emitmod=1, moveemitmod=1, degenerate=False, configs='ConfigsAll'):
    lines = ['CONSTANTS', f'  NC = {nc}', f'  VOff = {voff}', f'  VSpan = {vspan}', f'  PX = {px}', f'  PY = {py}', f'  PZ = {pz}',
             f'  Vecs <- {vecs}', f'  VecsB <- {vecsb or vecs}', f'  MoveVecs <- {movevecs}', f'  Shapes <- {shapes}',
             f'  Methods = {_set(methods)}', '  Sigmas <- SigmaCat', f'  Moves = {_set(moves)}',
             '  MonoLo <- MonoLoDef', f'  MonoHi = {monohi}', f'  Scales = {_set(scales)}',
             '  Affines <- AffinesDef', f'  Configs <- {configs}', f'  MoveConfigs <- {moveconfigs}',
             f'  Degenerate = {"TRUE" if degenerate else "FALSE"}',
             f'  EmitMod = {emitmod}', f'  MoveEmitMod = {moveemitmod}', 'INIT Init', 'NEXT Next']
    lines += [f'INVARIANT {i}' for i in SPEC_INVARIANTS] + ['INVARIANT Emit']
    lines += [f'PROPERTY {p}' for p in SPEC_PROPERTIES]
    lines.append('CHECK_DEADLOCK FALSE')
    return '\n'.join(lines) + '\n'


def trace_cfg(nc):
    lines = ['CONSTANTS', f'  NC = {nc}', '  Vecs <- Unused', '  VecsB <- Unused', '  MoveVecs <- Unused', '  Shapes <- Unused',
             '  Methods <- Unused', '  Sigmas <- NoSigmas', '  Moves <- Unused', '  MonoLo = 0', '  MonoHi = 0',
             '  Scales <- Unused', '  Affines <- Unused', '  Configs <- Unused', '  MoveConfigs <- Unused', '  Degenerate = FALSE',
             '  EmitMod = 1', '  MoveEmitMod = 1', 'SPECIFICATION TSpec',
             'INVARIANT Symmetric', 'INVARIANT SelfOne', 'INVARIANT Pairing', 'INVARIANT VProps',
             'CHECK_DEADLOCK FALSE']
    return '\n'.join(lines) + '\n'


def grid_size(nc, voff, vspan, methods, shape=(1, 1), nvecs=None, nsig=6, nvecsb=None):
    """number of (stack pair, method, sigma) combinations of a run BEFORE the generator constraint,
    so that the excluded degenerate inputs can be counted: total - initial states"""
    L = nc * (nc - 1) // 2
    nv = nvecs if nvecs is not None else (vspan + 1) ** L
    pairs = nv ** shape[0] * (nvecsb if nvecsb is not None else nv) ** shape[1]
    return sum(pairs * (nsig if m in COV_METHODS else 1) for m in methods)


# ------------------------------------------------------------------------------------------------
# binding self-tests (run on every check): a corrupted expectation / recorded value must be noticed
# ------------------------------------------------------------------------------------------------
def selftest_corrupted_vector(rec, vcat, nc):
    """S -> I: add 1 to one exact statistic of an emitted vector; the replay has to report it"""
    bad = copy.deepcopy(rec)
    # the first DEMANDED entry (both RDMs non-degenerate)
    st = next(st for row in bad['res'] for st in row
              if (('ab' in st and st['aa'] and st['bb']) or ('u' in st and any(st['u']) and any(st['v']))
                  or 'g1' in st))
    if 'ab' in st:
        st['ab'] += 1
    elif 'g1' in st:
        st['g2'][0][0] += 6          # (twice) the first diagonal entry of the REFERENCE G~2 (G~1 can be
        #                              irrelevant: the infimum may sit at exp(t0) -> 0)
    else:
        st['u'][0] += 1
    try:
        _, out = check_value_record(bad, vcat, nc)
    except KernelMismatch:
        return True          # the kernel cross-check already notices the corrupted statistic
    return any(k.endswith(('/value', '/misplaced', '/not-the-minimum', 'fast-path-is-not-whitening')) for k, _, _ in out)


def corrupt_trace(trace):
    """I -> S: change one recorded output of an accepted session (q + 5, or the sign)"""
    t = copy.deepcopy(trace)
    for ev in t:
        if ev.get('out') and ev['m'] not in COV_METHODS:
            o = ev['out'][0][0]
            o['q'] += 5 if ev['m'] not in RATIONAL_METHODS else 1
            return t
    return None


# ------------------------------------------------------------------------------------------------
# guards and structural relations outside the grid (C03 clause h / growth)
# ------------------------------------------------------------------------------------------------
def guard_checks():
    """-> (n_evaluations, violations, unsupported).  The dispatcher rejects an unknown method, stacks over
    different numbers of conditions and stacks whose missing entries sit at different positions; a missing
    CONDITION (all its pairs NaN in both stacks) leaves the comparison of the remaining conditions
    (whitened measures: with the sub-matrix of sigma_k) - the code path that restricts V to the present
    pairs; neg_riem_dist with a variance VECTOR is not part of its interface (recorded as unsupported)."""
    out, unsup = [], []
    nev = 0
    a = np.array([[0., 1, 2, 1, 3, 2], [2, 0, 1, 1, 3, 0]])
    b = np.array([[1., 1, 0, 2, 2, 1], [3, 2, 0, 3, 1, 1], [0, 2, 2, 1, 0, 3]])
    for what, f in (('unknown-method', lambda: rr.compare(a, b, method='no such measure')),
                    ('different-n-cond', lambda: rr.compare(a, b[:, :3], method='cosine')),
                    ('different-nan-positions', lambda: rr.compare(
                        np.array([[np.nan, 1, 2, 1, 3, 2]]), np.array([[1, np.nan, 0, 2, 2, 1]]), method='cosine'))):
        nev += 1
        try:
            f()
            out.append((f'C03/h/guard/{what}/accepted', f'compare accepts {what} without an error', {'what': what}))
        except ValueError:
            pass
        except Exception as e:
            out.append((f'C03/h/guard/{what}/raises/{type(e).__name__}', repr(e)[:200], {'what': what}))
    # missing condition c: NaN on every pair that involves it
    S = np.array([[3., 1, 1, 0], [1, 2, 0, 1], [1, 0, 2, 0], [0, 1, 0, 2]])
    pr = _pairs(4)
    from scipy.spatial.distance import pdist
    pts = (np.array([[0., 0, 0], [1, 0, 0], [0, 2, 0], [1, 1, 1]]), np.array([[0., 0, 0], [2, 1, 0], [1, 3, 0], [0, 1, 2]]),
           np.array([[1., 0, 1], [0, 0, 0], [2, 2, 0], [0, 1, 3]]))
    ae = np.array([pdist(pts[0], 'sqeuclidean'), pdist(pts[1], 'sqeuclidean')])     # embeddable, full rank
    be = np.array([pdist(pts[2], 'sqeuclidean'), pdist(pts[0], 'sqeuclidean'), pdist(pts[1], 'sqeuclidean')])
    for c in range(4):
        keep = [k for k, (i, j) in enumerate(pr) if c not in (i, j)]
        rest = [i for i in range(4) if i != c]
        drop = [k for k in range(6) if k not in keep]
        for m in ('cosine', 'corr', 'spearman', 'kendall', 'tau-a', 'rho-a', 'cosine_cov', 'corr_cov', 'neg_riem_dist'):
            for sg in ((None, S) if m in COV_METHODS + RIEM_METHODS else (None,)):
                nev += 1
                sub = None if sg is None else sg[np.ix_(rest, rest)]
                a_, b_ = (ae, be) if m in RIEM_METHODS else (a, b)
                an, bn = a_.copy(), b_.copy()
                an[:, drop] = np.nan
                bn[:, drop] = np.nan
                try:
                    exp = np.asarray(call(m, a_[:, keep], b_[:, keep], sub, 'compare'), dtype=float)
                except Exception:
                    continue            # (riem: reference not positive definite)
                try:
                    got = np.asarray(call(m, make_arg(an, ('rdms', 'ndarray')[c % 2], 'a'),
                                          make_arg(bn, ('rdms', 'ndarray')[c % 2], 'b'), sg, 'compare'), dtype=float)
                except Exception as e:
                    if m in RIEM_METHODS and sg is not None:
                        unsup.append(('neg_riem_dist/missing-condition-with-sigma_k', repr(e)[:150]))
                        continue
                    out.append((f'C03/h/missing-condition/{m}/raises/{type(e).__name__}', repr(e)[:200],
                                {'method': m, 'condition': c, 'sigma_k': None if sg is None else sg.tolist()}))
                    continue
                tol = max(tol_for(m, 'none' if sg is None else 'matrix'), 1e-12)
                if got.shape != exp.shape or not np.all(np.abs(got - exp) <= 2 * tol):
                    out.append((f'C03/h/missing-condition/{m}' + ('' if sg is None else '/sigma=matrix'),
                                f'{m}: stacks in which condition {c} is missing do not compare like the stacks of the '
                                'remaining conditions', {'method': m, 'condition': c, 'got': got.tolist(), 'expected': exp.tolist()}))
    # neg_riem_dist with a variance vector
    nev += 1
    try:
        rr.compare(a, b, method='neg_riem_dist', sigma_k=np.array([1., 2, 3, 4]))
    except Exception as e:
        unsup.append(('neg_riem_dist/sigma_k-vector', repr(e)[:150]))
    return nev, out, unsup
