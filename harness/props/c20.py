"""C20 - Importers recover exactly the structure encoded in external names and files.

Specification: specs/Importers.tla.  Strings are sequences of integer atoms (word ids and the four
separators / _ - .), so Format / Parse / ParseName do the splitting themselves.  TLC checks on the model

  a  ParseFormat (Parse(Format(e)) = e over ALL 3^10 absent/value-1/value-2 combinations of the ten
     entities), FormatParse (Format(Parse(p)) = p exactly on well-formed paths, incl. damaged ones),
  b  LookupFrame (meta / events / table sibling / mri sibling / table key change only the entities
     they name; the edit of the path text agrees with the edit of the entities),
  c  NameRoundTrip (three Meadows file-name shapes are unambiguous), MeadowsAssoc (sorted on request
     = exact permutation of token-valued RDMs),
  d  MneShape, e DmShape (structure only), f SpmLaws (orthonormal bases, nothing left of a run in its
     own regressors, idempotent, runs independent; exact integers over d^2)

  b' LayoutFrame (every step of every look-up history on ONE layout object), DatasetLaws (a derivative data
     set on disk: what find_fmriprep_runs finds and which companion files each run reads),
  e' HrfLaws (design matrix for events on the volume grid as EXACT integer convolution of the HRF table),
  g  DfLaws (rdms_to_df rows)

and emits every terminal state as a test vector.  spec -> impl: every vector is replayed into
rsatoolbox.io (BidsMriFile / BidsLayout incl. real directory trees for get_meta / get_events /
get_table_sibling / get_key, load_rdms + extract_filename_segments on generated .mat / .json files,
dataset_from_epochs on a stand-in and on mne.EpochsArray, make_design_matrix, SpmGlm.spm_filter with
injected attributes and through a generated SPM.mat).  impl -> spec: random inputs beyond the model's
bounds are run through the importers, recorded and validated by specs/Trace_Importers.tla, which
recomputes format / parse / look-ups / the sorting permutation / the projection in TLC.
"""
from __future__ import annotations

import json
import multiprocessing as mp
import os
import time

import numpy as np

from harness import importers as I
from harness.core import MachineryError

INVS = ['ParseFormat', 'FormatParse', 'LookupFrame', 'LayoutFrame', 'NameRoundTrip', 'MeadowsAssoc', 'MneShape', 'DmShape',
        'SpmLaws', 'HrfLaws', 'DatasetLaws', 'DfLaws']
WORKERS = 12


def cfg(sections, *, vals='BidsValsM', emitmod=40, stims='{3, 4}', maxrdm=2, vols='{10, 40}', spmruns=2,
        spmpats='{1, 2}', spmemit=1, ldepth=2, lemit=1, maxcond=3, codes='MneCodesM', invariants=True):
    secs = '{' + ', '.join(f'"{s}"' for s in sections) + '}'
    return '\n'.join([
        'CONSTANTS', f'  Sections = {secs}', f'  BidsVals <- {vals}', '  DescArgs <- DescArgsM',
        '  SufArgs <- SufArgsM', f'  EmitMod = {emitmod}', f'  StimSizes = {stims}', f'  MaxRdm = {maxrdm}',
        f'  VolSet = {vols}', f'  SpmMaxRuns = {spmruns}', f'  SpmPats = {spmpats}', f'  SpmEmitMod = {spmemit}',
        f'  LayoutDepth = {ldepth}', f'  LayoutEmitMod = {lemit}', f'  MaxCond = {maxcond}',
        f'  MneCodes <- {codes}', '  Ds <- DsM', '  NumWords <- NumWordsM', '  PetWords <- PetWordsM', '  AdjWords <- AdjWordsM',
        '  TaskWords <- TaskWordsM', '  ExpWords <- ExpWordsM', '  VerWords <- VerWordsM',
        '  StructWords <- StructWordsM', 'INIT Init', 'NEXT Next'] +
        ([f'INVARIANT {i}' for i in INVS] if invariants else []) + ['INVARIANT Emit', 'INVARIANT EmitDone', 'CHECK_DEADLOCK FALSE']) + '\n'


TRACE_CFG = '\n'.join([
    'CONSTANTS', '  Sections <- Empty', '  BidsVals <- NoVals', '  DescArgs <- Empty', '  SufArgs <- Empty',
    '  EmitMod = 1', '  StimSizes <- Empty', '  MaxRdm = 1', '  VolSet <- Empty', '  SpmMaxRuns = 1',
    '  SpmPats <- Empty', '  SpmEmitMod = 1', '  LayoutDepth = 0', '  LayoutEmitMod = 1', '  MaxCond = 1',
    '  MneCodes <- Empty', '  Ds <- DsNone', '  NumWords <- NumWordsT', '  PetWords <- PetWordsT',
    '  AdjWords <- Empty', '  TaskWords <- Empty', '  ExpWords <- Empty', '  VerWords <- Empty',
    '  StructWords <- Empty', 'SPECIFICATION TSpec', 'CHECK_DEADLOCK FALSE']) + '\n'


# ------------------------------------------------------------------ spec -> impl
def _replay_chunk(args):
    base, lines, root, seed, fs_every, mat_every = args
    res = []
    for j, line in enumerate(lines):
        idx = base + j
        sec, n, out, nontriv = I.replay_line(line, root, idx, seed, fs_every=fs_every, mat_every=mat_every)
        key = None
        if nontriv:
            rec = json.loads(line)
            key = json.dumps([sec, rec.get('e') or rec.get('i') or
                              [[st['f'], st['kind']] for st in rec.get('hist', [])]], sort_keys=True)
        res.append((sec, n, out, key, line if out else None))
    return res


def replay_all(ctx, r, tag, fs_every, mat_every):
    root = str(ctx.scratch / f'replay_{tag}')
    os.makedirs(root, exist_ok=True)

    def jobs():
        base = 0
        for chunk in r.iter_lines(150):
            yield (base, chunk, root, ctx.seed, fs_every, mat_every)
            base += len(chunk)
    per = {}
    with mp.Pool(WORKERS) as pool:
        for res in pool.imap_unordered(_replay_chunk, jobs()):
            for sec, n, out, key, line in res:
                if sec == 'bids' and key is None:
                    sec = 'bids/outside'
                p = per.setdefault(sec, [0, 0])
                p[0] += 1
                p[1] += n
                ctx.count(n)
                ctx.traces += 1
                if key is not None:
                    ctx.nontriv(key)
                for kind, k, what, case in out:
                    if kind == 'unsup':
                        ctx.unsupported_case(k, what)
                    else:
                        ctx.violation(k, what, {'case': case, 'vector': json.loads(line)})
    return per


# ------------------------------------------------------------------ impl -> spec
def _record_chunk(args):
    seed, kind, n, root = args
    from rsatoolbox.io.petnames import PETNAMES
    rng = np.random.default_rng(seed)
    evs = []
    for j in range(n):
        try:
            if kind == 'bids':
                evs.append(I.record_bids(rng, I.Lexer()))
            elif kind == 'layout':
                evs.append(I.record_layout(rng))
            elif kind == 'meadows':
                evs.append(I.record_meadows(rng, root, f'{seed}_{j}', list(PETNAMES)))
            elif kind == 'mne':
                evs.append(I.record_mne(rng, root, f'{seed}_{j}'))
            elif kind == 'dm':
                evs.append(I.record_dm(rng))
            elif kind == 'spm':
                evs.append(I.record_spm(rng))
            elif kind == 'hrf':
                evs.append(I.record_hrf(rng))
            elif kind == 'df':
                evs.append(I.record_df(rng))
        except Exception as ex:  # the importer raised inside the documented contract
            evs.append({'k': kind, 'raised': f'{type(ex).__name__}: {ex}'})
            break
    return kind, seed, evs


CLAUSE_KEY = {
    ('bids', 'format'): 'C20/a/format', ('bids', 'parse'): 'C20/a/parse/trace', ('bids', 'roundtrip'): 'C20/a/parse/trace',
    ('bids', 'reformat'): 'C20/a/format', ('bids', 'namedescs'): 'C20/d/bids-filename',
    ('bids', 'lookup'): 'C20/b/lookup/trace', ('layout', 'lookup'): 'C20/b/lookup/history/trace',
    ('layout', 'files'): 'C20/a/format', ('dm', 'masklen'): 'C20/e/design/mask-length',
    ('meadows', 'name'): 'C20/c/name/trace', ('meadows', 'conds'): 'C20/c/conds/trace',
    ('meadows', 'values'): 'C20/c/values/trace', ('meadows', 'assoc'): 'C20/c/values/trace',
    ('meadows', 'participant'): 'C20/c/participant/trace', ('meadows', 'task'): 'C20/c/task/trace',
    ('meadows', 'task_index'): 'C20/c/task_index/trace',
    ('spm', 'exact'): 'C20/f/spm_filter/wrong-projection', ('spm', 'projection'): 'C20/f/spm_filter/wrong-projection',
    ('dm', 'ncols'): 'C20/e/design/ncols', ('dm', 'mask'): 'C20/e/design/mask', ('dm', 'dof'): 'C20/e/design/dof',
    ('dm', 'colcond'): 'C20/e/design/column-condition', ('dm', 'normalised'): 'C20/e/design/range',
    ('dm', 'confounds'): 'C20/e/design/confound',
    ('mne', 'data'): 'C20/d/epochs/meas', ('mne', 'event'): 'C20/d/epochs/event', ('mne', 'name'): 'C20/d/epochs/name',
    ('mne', 'time'): 'C20/d/epochs/time', ('mne', 'descriptors'): 'C20/d/epochs/descriptors',
    ('hrf', 'ncols'): 'C20/e/hrf/shape', ('hrf', 'values'): 'C20/e/hrf/values', ('df', 'rows'): 'C20/g/rdms_to_df/trace'}


def record_and_validate(ctx, per_kind, evs_per_trace, corrupt=False):
    root = str(ctx.scratch / 'record')
    os.makedirs(root, exist_ok=True)
    jobs = []
    for kind, ntr in per_kind.items():
        for t in range(ntr):
            jobs.append((ctx.seed * 1000003 + 7919 * t + sum(map(ord, kind)), kind, evs_per_trace, root))
    with mp.Pool(WORKERS) as pool:
        recs = pool.map(_record_chunk, jobs, chunksize=4)
    traces, meta = [], []
    for kind, seed, evs in recs:
        if evs and 'raised' in evs[-1]:
            ctx.violation(f'C20/{kind}/trace/raises/' + evs[-1]['raised'].split(':')[0],
                          f'recorded run: the {kind} importer raises on a generated input inside its contract: '
                          + evs[-1]['raised'], {'seed': seed, 'kind': kind})
            evs = evs[:-1]
        if evs:
            traces.append(evs)
            meta.append((kind, seed))
            ctx.count(len(evs))
    if corrupt:
        return traces, meta
    rejected = ctx.validate('MC_Trace_Importers', TRACE_CFG, traces, name='trace_importers', timeout=900)
    report_rejected(ctx, rejected, traces, meta)
    return len(traces)


def report_rejected(ctx, rejected, traces, meta):
    for idx, diag in rejected:
        if idx < 0:
            raise MachineryError(f'trace validation: {diag}')
        d = diag[0] if diag else {}
        if not d:
            raise MachineryError(f'trace {idx} neither accepted nor rejected')
        if not d.get('enabled', True):
            raise MachineryError(f'recorder issued an event outside the specification\'s contract: '
                                 f'{traces[idx][d["l"] - 1]}')
        ev = traces[idx][d['l'] - 1]
        key = CLAUSE_KEY.get((d['k'], d['clause']), f"C20/{d['k']}/trace/{d['clause']}")
        if d['k'] == 'spm' and ev.get('unfiltered'):
            key = 'C20/f/spm_filter/returns-unfiltered'
        ctx.violation(key, f"recorded {d['k']} call is not explained by the specification: clause "
                      f"'{d['clause']}' fails when TLC recomputes the result from the logged input",
                      {'kind': meta[idx][0], 'seed': meta[idx][1], 'event': ev, 'diag': d})


def selftest_binding(ctx):
    """corrupt one recorded field per section and require the trace specification to reject it"""
    traces, meta = record_and_validate(ctx, {'bids': 1, 'meadows': 1, 'mne': 1, 'dm': 1}, 2, corrupt=True)
    bad = json.loads(json.dumps(traces))
    for tr, (kind, _) in zip(bad, meta):
        ev = tr[-1]
        if kind == 'bids':
            ev['looks'][1]['path'] = [a for a in ev['looks'][1]['path']][:-3] + ev['looks'][1]['path'][-1:]
        elif kind == 'meadows':
            v = ev['got']['vec'][0]
            v[0], v[1] = v[1], v[0]
        elif kind == 'mne':
            ev['got']['event'][0] += 1
        elif kind == 'dm':
            ev['got']['dof'] += 1
    rej = ctx.validate('MC_Trace_Importers', TRACE_CFG, bad, name='trace_selftest', timeout=600, count=False)
    ctx.traces -= len(bad) - len(rej)           # corrupted traces are not evidence
    got = sorted(i for i, _ in rej)
    if got != list(range(len(bad))):
        raise MachineryError(f'binding self-test: corrupted traces were not all rejected (rejected {got})')
    ctx.extra['binding_selftest'] = {'corrupted': len(bad), 'rejected': len(rej),
                                     'clauses': [d[0].get('clause') for _, d in rej]}


def run(ctx):
    thorough = ctx.tier == 'thorough'
    ctx.rule = ('every terminal state of Importers.tla is one test vector (entity combination / Meadows name and '
                'content / epochs shape / event table / run structure with bases and data) replayed into '
                'rsatoolbox.io; non-trivial = distinct vector inside the importer\'s contract (valid BIDS data '
                'file, loadable Meadows shape, >= 1 condition, >= 1 run); vectors outside the contract are '
                'replayed but only counted as unsupported; plus random calls recorded and validated in TLC')
    ctx.assumptions = ['atoms <-> text: harness/importers.py to_str / Lexer.lex are faithful (concatenation / split)',
                       'BIDS contract = subject, suffix, extension and datatype directory present (Valid(e))',
                       'values are alphanumeric words (BIDS labels); Meadows stimuli have distinct names',
                       'HRF shape is not specified: a predictor column is identified by equality with the '
                       'single-condition design, tolerance 1e-9',
                       'SPM filter bases are orthonormal (scaled integer Householder columns)']
    # (name, sections, cfg keywords, fs_every, mat_every, simulate)
    if thorough:
        rest = dict(stims='{3, 4, 5}', maxrdm=3, vols='{10, 25, 40}', spmruns=3, spmpats='{1, 2, 3}', spmemit=2,
                    maxcond=4, codes='MneCodesL')
        runs = [('bids3', ['bids'], dict(vals='BidsValsL', emitmod=60), 4, 0, None),
                ('layout3', ['layout'], dict(vals='BidsValsL', ldepth=3, lemit=12), 40, 0, None),
                ('meadows', ['meadows', 'df'], rest, 0, 0, None),
                ('tables', ['mne', 'dm', 'hrf', 'spm', 'dataset'], rest, 0, 5, None)]
        # long random look-up sessions on one layout: tlc -simulate, three seeds
        # (TLC evaluates the invariants - and so Emit - on ALL successors of the last step: one in 100 is kept)
        runs += [(f'layout_sim{k}', ['layout'], dict(vals='BidsValsL' if k % 2 else 'BidsValsM', ldepth=9, lemit=100,
                                                     invariants=False), 12, 0, (ctx.seed * 3 + k, 2400))
                 for k in range(3)]
    else:
        runs = [('all', ['bids', 'layout', 'meadows', 'mne', 'dm', 'spm', 'hrf', 'dataset', 'df'],
                 dict(spmemit=1), 8, 7, None)]
    ctx.exhaustive = True
    totals = {}
    for kind, key, what, case in I.check_hrf_table():
        ctx.violation(key, what, case)
    for name, secs, kw, fs_every, mat_every, sim in runs:
        # (TLC's -coverage option is not used: its cost statistics make the enumeration of the initial
        #  states of this module run for more than 30 minutes; action coverage is derived below from the
        #  terminal states every action chain must have produced)
        if sim is None:
            r = ctx.tlc('MC_Importers', cfg(secs, **kw), name=f'importers_{name}', timeout=1700,
                        workers=16 if thorough else WORKERS)
        else:
            r = ctx.tlc('MC_Importers', cfg(secs, **kw), name=f'importers_{name}', timeout=600, workers=8,
                        simulate=f'num={sim[1] // 8}', depth=kw['ldepth'] + 1, seed=sim[0])
            if r.n_emitted < sim[1] // 4:
                raise MachineryError(f'simulation emitted only {r.n_emitted} histories')
        if not r.n_emitted:
            raise MachineryError('TLC emitted no test vectors')
        seen = set()
        for rec in r.iter_emitted():
            if rec['sec'] not in seen and (rec.get('valid', True) and rec.get('loadable', True)):
                seen.add(rec['sec'])
                ctx.sample({k: rec[k] for k in rec if k not in ('looks', 'files', 'paths')}, cap=8)
            if len(seen) == len(secs):
                break
        t_replay = time.time()
        per = replay_all(ctx, r, name, fs_every, mat_every)
        ctx.extra.setdefault('replay_wall_s', {})[name] = round(time.time() - t_replay, 1)
        for s, (nv, ne) in per.items():
            t = totals.setdefault(s, [0, 0])
            t[0] += nv
            t[1] += ne
        missing = [s for s in secs if per.get(s, [0])[0] == 0]
        if missing:
            raise MachineryError(f'no vectors replayed for sections {missing}')
        chains = {'bids': ['BidsFormat', 'BidsParse', 'BidsLookup'], 'bids/outside': ['BidsReject'],
                  'layout': ['LayoutLookup'],
                  'meadows': ['MeadowsName', 'MeadowsLoad'], 'mne': ['MneMap'], 'dm': ['DmBuild'],
                  'spm': ['SpmFilter'], 'hrf': ['HrfBuild'], 'dataset': ['DatasetFind'], 'df': ['DfRows']}
        for s, acts in chains.items():
            for a in acts:
                o = ctx.coverage_actions.setdefault(a, [0, 0])
                o[0] += per.get(s, [0])[0]
                o[1] += per.get(s, [0])[0]
        if 'bids' in secs and not per.get('bids/outside', [0])[0]:
            raise MachineryError('vacuous: no entity combination outside the contract was emitted')
    ctx.extra['vectors_replayed'] = {s: {'vectors': v[0], 'calls_compared': v[1]} for s, v in totals.items()}
    # implementation -> specification
    ntr = 150 if thorough else 12
    n = record_and_validate(ctx, {'bids': 3 * ntr, 'layout': 2 * ntr, 'meadows': 2 * ntr, 'mne': ntr, 'dm': ntr,
                                  'spm': 2 * ntr, 'hrf': ntr, 'df': ntr},
                            6 if thorough else 4)
    ctx.extra['recorded_traces_validated'] = n
    selftest_binding(ctx)
