"""C11 - Dataset operations keep every observation attached to its own descriptors.

Specification: specs/DataStore.tla - a heap of labelled Dataset / TemporalDataset value objects
with token-valued cells (every cell names its source observation, channel and time points; bins
and averages are exact rational means), one action per public operation written as
Enabled(h,e) / Apply(h,e).  TLC checks Shape / CellAssoc / DescAttached in every state and, on
every transition, the clauses of the property (ClauseOk: frame, split = ordered partition, merge of
split = same multiset of rows, subset = matching items in original order, sort = stable
permutation, bin = mean over exactly the bin's time points, conversions = bijection on cells incl.
size-1 dimensions, group averages, DataFrame round trip).

Binding, spec -> implementation: TLC enumerates ALL operation histories to depth 2 over the full
argument domains and to depth 3 over trimmed domains (sampled with EmitMod at the quick tier,
everything at the thorough tier), plus a >= 17-row configuration for the stability clause, plus
`-simulate` runs with trimmed domains; every emitted history is replayed step by step into real
objects (4 descriptor flavours: list|ndarray x int|str, rotating over 4 memory layouts of the source
measurements: C, Fortran, transposed view, strided slice; 5 measurement dtypes float64 / int64 /
float32 / int32 / uint8|int16; 6 encodings of the time coordinate incl. large floats and strings) and after every step ALL live objects and
everything the call returned (all parts of a split, group means, the DataFrame) are compared with
the specification.  A mirror run lets TLC print Obs(ob) next to the ghost labels so that the
Python decoding of labels (harness/datastore.py:expected) is itself checked against the spec.

Binding, implementation -> spec: random admissible histories issued on real objects are recorded
(projected heap + outputs after every call) and validated by Trace_DataStore.tla, which re-uses
Enabled / Apply / ClauseOk.
"""
from __future__ import annotations

import json
import multiprocessing as mp

import numpy as np

from harness import datastore as S
from harness.core import MachineryError

# every operation of DataStore.tla except 'saveload': C11 does not quantify over save / load (C16 does;
# a numeric dataset descriptor reloaded from hdf5 is a 0-d array, which merge_datasets cannot hash -
# reported there as C16/c/dataset/continue-after-reload/...)
ALLOPS = ['split_obs', 'split_channel', 'split_time', 'split_merge', 'subset_obs', 'subset_channel',
          'subset_time', 'sort_by', 'merge', 'odd_even', 'nested_odd_even', 'bin_time',
          'time_as_observations', 'time_as_channels', 'df', 'copy', 'dict',
          'average_by', 'tensor', 'average', 'drop']
INVS = ['Shape', 'CellAssoc', 'DescAttached']
PID = 'C11'


def const(maxobj=3, maxrows=12, maxcols=9, maxtims=3, maxden=6):
    return {'MaxObj': maxobj, 'MaxRows': maxrows, 'MaxCols': maxcols, 'MaxTims': maxtims, 'MaxDen': maxden}


def cfg(sources, depth, arglevel, c, *, emit=True, trace=False, props=True, ops='C11Ops', emitmod=1,
        emitobs=0, binlen=2):
    lines = ['CONSTANTS', '  Sources = {' + ', '.join(str(s) for s in sources) + '}',
             f"  MaxObj = {c['MaxObj']}", f"  MaxRows = {c['MaxRows']}", f"  MaxCols = {c['MaxCols']}",
             f"  MaxTims = {c['MaxTims']}", f"  MaxDen = {c['MaxDen']}", f'  BinLen = {binlen}',
             f'  Depth = {depth}', f'  Ops <- {ops}', f'  ArgLevel = {arglevel}', f'  EmitMod = {emitmod}',
             f'  EmitObs = {emitobs}']
    if trace:
        lines[lines.index(f'  Ops <- {ops}')] = '  Ops <- AllOps'
    lines += ['SPECIFICATION TSpec'] if trace else ['INIT Init', 'NEXT Next']
    lines += [f'INVARIANT {i}' for i in INVS]
    if emit and not trace:
        lines.append('INVARIANT Emit')
    if props and not trace:
        lines.append('PROPERTY StepProps')
    lines.append('CHECK_DEADLOCK FALSE')
    return '\n'.join(lines) + '\n'


# ------------------------------------------------------------------ spec -> implementation
def _replay_chunk(args):
    base, lines, maxobj, scratch = args
    out = []
    nsteps = 0
    nontriv = 0
    ops = set()
    for j, line in enumerate(lines):
        i = base + j
        rec = json.loads(line)
        hist = rec['hist']
        flavour = S.FLAVOURS[i % 4]
        res = S.replay(rec['src'], hist, maxobj, flavour, variant=i // 4, scratch=scratch)
        nsteps += len(hist)
        for st in hist:
            ops.add(st['ev']['op'])
        if any(st['ev']['op'] not in S.TRIVIAL_OPS for st in hist):
            nontriv += 1
        if res is not None:
            out.append((i, flavour, res, rec['src'], [st['ev'] for st in hist]))
    return len(lines), nsteps, nontriv, out, ops


def replay_all(ctx, r, c, seen_ops):
    """replay the behaviours TLC emitted (streamed from disk) in 16 processes"""
    def jobs():
        base = 0
        for chunk in r.iter_lines(100):
            yield (base, chunk, c['MaxObj'], str(ctx.scratch))
            base += len(chunk)
    n = 0
    with mp.Pool(16) as pool:
        for cnt, nsteps, nontriv, bad, ops in pool.imap_unordered(_replay_chunk, jobs()):
            n += cnt
            ctx.count(nsteps)
            ctx.nontrivial_extra += nontriv
            seen_ops |= ops
            for i, flavour, res, src, events in bad:
                k, key, detail = res
                dtype, timeflav = S.pick_flavours(i // 4, {ev['op'] for ev in events})
                ctx.violation(f'{PID}/{key}', f'step {k + 1} of a history leaves the specification: {key}',
                              {'src': src, 'const': c, 'flavour': flavour, 'variant': i // 4, 'layout': S.LAYOUTS[(i // 4) % 4], 'dtype': dtype, 'timeflav': timeflav, 'step': k,
                               'events': events, 'detail': detail})
    return n


def mirror_check(ctx, r):
    """TLC printed Obs(ob) next to the ghost labels: the Python decoding of labels must agree"""
    n = 0
    for rec in r.iter_emitted():
        for st in rec['hist']:
            for strip, obs in zip(st['post'], st['obs']):
                if S.expected(strip) != S.norm_obs(obs):
                    raise MachineryError(f'harness/datastore.py:expected disagrees with Obs() of the specification on {strip}')
                n += 1
            if st['ev']['op'] in S.MULTIPART:
                for strip, obs in zip(st['out'], st['outobs']):
                    if S.expected(strip) != S.norm_obs(obs):
                        raise MachineryError(f'expected() disagrees with Obs() on part {strip}')
                    n += 1
    if n == 0:
        raise MachineryError('mirror run emitted nothing')
    return n


# ------------------------------------------------------------------ implementation -> spec
def _trace_one(args):
    seed, src, c, length, ops, scratch = args
    rng = np.random.default_rng(seed)
    flavour = S.FLAVOURS[seed % 4]
    layout = S.LAYOUTS[(seed // 4) % 4]
    dtype = S.DTYPES[(seed // 16) % len(S.DTYPES)]
    timeflav = S.TIMEFLAVS[(seed // 3) % len(S.TIMEFLAVS)]
    return seed, src, flavour + (layout, dtype, timeflav), S.random_trace(
        rng, src, c, flavour, length, ops, scratch=scratch, layout=layout, dtype=dtype, timeflav=timeflav)


def record_and_validate(ctx, sources, c, ntraces, length, corrupt=False):
    ops = [o for o in ALLOPS if o != 'drop'] * 3 + ['drop']
    jobs = [(ctx.seed * 100003 + i, sources[i % len(sources)], c, length, ops, str(ctx.scratch)) for i in range(ntraces)]
    with mp.Pool(16) as pool:
        out = pool.map(_trace_one, jobs, chunksize=8)
    traces, meta = [], []
    for seed, src, flavour, events in out:
        if events and events[-1].get('post') is None:
            bad = events[-1]
            ctx.violation(f"{PID}/{bad['key']}",
                          f"recorded history: {bad['ev']['op']} fails inside the documented contract: {bad['error']}",
                          {'seed': seed, 'src': src, 'flavour': flavour, 'events': [x['ev'] for x in events], 'error': bad['error']})
            events = events[:-1]
        if events:
            traces.append({'src': src, 'events': [{'ev': x['ev'], 'post': x['post'], 'out': x['out']} for x in events]})
            meta.append((seed, flavour))
            ctx.count(len(events))
    if corrupt:
        return traces, meta
    rejected = ctx.validate('MC_Trace_DataStore', cfg([0], 0, 2, c, trace=True), traces, name='trace_datastore',
                            timeout=3000)
    for idx, diag in rejected:
        if idx < 0:
            ctx.violation(f'{PID}/trace/invariant/{diag[0].get("invariant")}',
                          'an invariant of DataStore fails along a recorded history', diag[0])
            continue
        d = diag[0] if diag else {}
        if not d:
            raise MachineryError(f'trace {idx} neither accepted nor rejected')
        if not d.get('enabled', True):
            raise MachineryError(f'recorder issued an event the specification does not enable: {d.get("ev")} '
                                 f'(seed {meta[idx][0]}, src {traces[idx]["src"]})')
        ev = d.get('ev', {})
        step = traces[idx]['events'][d['l'] - 1]
        key = f"{ev.get('op', '?')}/trace/{d.get('field', '')}"
        if d.get('slot') and isinstance(d.get('expected'), dict):
            spec = S.norm_obs(d['expected'])
            real = step['post'][d['slot'] - 1]
            pre = traces[idx]['events'][d['l'] - 2]['post'][ev['o'] - 1] if d['l'] > 1 else {'kind': spec['kind']}
            prev_post = traces[idx]['events'][d['l'] - 2]['post'] if d['l'] > 1 else None
            if ev['op'] in S.PRODUCERS:
                target = next((o + 1 for o in range(c['MaxObj'])
                               if (prev_post[o]['kind'] == 'N' if prev_post else o > 0)), 0)
            else:
                target = ev['o']
            field = S.diff(real, spec) or d.get('field', '')
            key = S.classify_diff(ev, pre, real, spec, field) if d['slot'] == target else f"frame/{ev['op']}/{field}"
        ctx.violation(f'{PID}/{key}', 'recorded post-state differs from Apply(objs, e) of the specification',
                      {'seed': meta[idx][0], 'src': traces[idx]['src'], 'flavour': meta[idx][1], 'diag': d,
                       'events': [x['ev'] for x in traces[idx]['events'][:d['l']]], 'logged': step})
    return len(traces)


def binding_selftest(ctx, sources, c):
    """corrupt one recorded field of otherwise acceptable traces: the trace specification must
    reject exactly those (demonstrates that validation is bound to the recorded values)"""
    saved = (ctx.seed,)
    traces, _ = record_and_validate(ctx, sources, c, 48, 6, corrupt=True)
    base = ctx.validate('MC_Trace_DataStore', cfg([0], 0, 2, c, trace=True), traces, name='trace_selftest_base', count=False)
    ok = [i for i in range(len(traces)) if i not in {j for j, _ in base}]
    ctx.traces -= len(ok)          # the base run is not evidence, only the reference for the corrupted one
    good = [traces[i] for i in ok][:12]
    if len(good) < 6:
        raise MachineryError('binding self-test: too few acceptable traces')
    kinds = []
    for n, t in enumerate(good):
        t = json.loads(json.dumps(t))
        last = t['events'][-1]
        slot = next(o for o in range(len(last['post'])) if last['post'][o]['kind'] != 'N')
        p = last['post'][slot]
        if n % 3 == 0:       # two cells exchanged
            v = p['val']
            if len(v) >= 2:
                v[0], v[-1] = v[-1], v[0]
            else:
                v[0][0][0] = [v[0][0][0][0] + 100, v[0][0][0][1]]
            kinds.append('val')
        elif n % 3 == 1:     # one label changed
            col = p['od']['obs'] or p['od']['cond']
            if col:
                col[0] = col[0] + 1
            else:
                p['dd']['obs'] = 7 if p['dd']['obs'] != 7 else 8
            kinds.append('od')
        else:                # the event claims another argument
            last['ev']['o'] = last['ev']['o'] % len(last['post']) + 1
            kinds.append('ev')
        good[n] = t
    rej = ctx.validate('MC_Trace_DataStore', cfg([0], 0, 2, c, trace=True), good, name='trace_selftest', count=False)
    rejected = {i for i, _ in rej if i >= 0}
    missing = [kinds[i] for i in range(len(good)) if i not in rejected]
    ctx.traces -= len(good) - len(rejected)
    # a changed event may by chance still be explained (e.g. copy of an identical object): only
    # corrupted recorded VALUES must always be rejected
    if any(k in ('val', 'od') for k in missing):
        raise MachineryError(f'binding self-test: corrupted traces were accepted: {missing}')
    ctx.extra['binding_selftest'] = {'corrupted': len(good), 'rejected': len(rejected)}
    _ = saved


def probes(ctx):
    """input classes outside the documented contract (not enabled in the specification): recorded in
    the evidence as 'unsupported', never as violations"""
    import warnings
    from rsatoolbox.data.dataset import TemporalDataset
    fl = ('array', 'int')
    S.configure('float64', 'f1')

    def empty_or_raises(f):
        """a call outside the contract either raises or hands back an empty object"""
        r = f()
        if getattr(r, 'n_obs', 1) == 0 or getattr(r, 'n_channel', 1) == 0:
            raise ValueError(f'returns an empty dataset ({r.n_obs} x {r.n_channel})')
        if np.isnan(np.asarray(r.measurements, dtype=float)).any():
            raise ValueError('returns NaN measurements')
    cases = {
        'to_df/temporal': lambda: S.make_source(20222, fl).to_df(),
        'odd_even_split/single-value': lambda: S.make_source(10120, fl).odd_even_split('cond'),
        'time_as_observations/duplicate-by': lambda: S.make_source(30223, fl).time_as_observations('phase'),
        'average_dataset_by/temporal': lambda: __import__('rsatoolbox').data.average_dataset_by(S.make_source(20222, fl), 'cond'),
        # values of subset_* are "a value or a list of values": a set is compared as one value
        'subset_obs/value-as-set': lambda: empty_or_raises(lambda: S.make_source(10320, fl).subset_obs('cond', {1, 2})),
        # grouping / sorting on a descriptor with missing entries (None next to strings cannot be ordered)
        'split_obs/missing-values': lambda: S.make_source(40320, ('list', 'str')).split_obs('flag'),
        'sort_by/missing-values': lambda: S.make_source(40320, ('list', 'str')).sort_by('flag'),
        'bin_time/by-a-label': lambda: S.make_source(60223, fl).bin_time('phase', [['p01']]),
        'bin_time/empty-bin': lambda: empty_or_raises(lambda: S.make_source(20223, fl).bin_time('time', [[7.]])),
        'get_measurements_tensor/unbalanced': lambda: S.make_source(10320, fl).get_measurements_tensor('cond'),
    }
    for name, f in cases.items():
        try:
            with warnings.catch_warnings():
                warnings.simplefilter('ignore')
                f()
        except Exception as ex:
            ctx.unsupported_case(name, f'{type(ex).__name__}: {ex}')
    _ = TemporalDataset


def run(ctx):
    ctx.rule = ('TLC enumerates every operation history of DataStore up to the stated depth (argument domains '
                'full or trimmed; sources = Dataset / TemporalDataset of several shapes incl. size-1 dimensions '
                'and an 18-row configuration), each replayed into real objects in one of 4 descriptor flavours '
                'with all live objects and all returned values compared after every step; non-trivial = history '
                'with at least one operation other than copy/saveload/dict/drop; plus random histories recorded '
                'from real objects and validated by Trace_DataStore')
    ctx.assumptions = ['projection harness/datastore.py:project is faithful',
                       'token cells 101*obs+10*chan+mean(2^(t-1)) make every cell self-describing (bin weight '
                       'denominators <= 6, enforced by the enabling condition of bin_time)',
                       'admissibility = Enabled() of DataStore.tla (documented contracts; growth caps)',
                       'dataset-level descriptors written by split_* / from_df are modelled as the code sets them']
    thorough = ctx.tier == 'thorough'
    c = const()
    cbig = const(maxrows=40)
    seen_ops = set()
    total = 0
    # (name, sources, depth, arglevel, emit one in .., constants, ops, binlen)
    if thorough:
        runs = [('size1_d2', [20122, 20312, 60321, 20111, 10110, 10130, 60113, 40210], 2, 2, 1, c, 'C11Ops', 2),
                ('d2_full', [40322, 20322, 60322, 10420, 50421, 60223], 2, 2, 1, c, 'C11Ops', 2),
                ('d2_full_b', [10432, 20413], 2, 2, 1, c, 'C11Ops', 2),
                ('d3_trim', [20222, 60222, 40320, 20312, 20122], 3, 1, 1, c, 'D3Ops', 2),
                ('big_d2', [11820, 21822, 31821], 2, 1, 1, cbig, 'RowOps', 2)]
    else:
        runs = [('size1_d2', [20122, 20312, 60321, 20111, 10110, 40420], 2, 1, 1, c, 'C11Ops', 2),
                ('d2_full', [40322, 60223], 2, 2, 4, c, 'C11Ops', 2),
                ('d3_trim', [20222], 3, 1, 12, c, 'D3Ops', 2),
                ('big_d2', [11820, 21822], 2, 1, 1, cbig, 'RowOps', 2)]
    ctx.exhaustive = all(x[4] == 1 for x in runs)
    for name, sources, depth, al, mod, cc, ops, binlen in runs:
        r = ctx.tlc('MC_DataStore', cfg(sources, depth, al, cc, emitmod=mod, ops=ops, binlen=binlen),
                    name=name, timeout=3000, deque=True, heap='12g')
        if not r.n_emitted:
            raise MachineryError(f'TLC emitted no behaviours in {name}')
        first = next(r.iter_emitted())
        ctx.sample({'run': name, 'src': first['src'], 'events': [st['ev'] for st in first['hist']]}, cap=8)
        total += replay_all(ctx, r, cc, seen_ops)
    # the Python decoding of ghost labels against Obs() printed by TLC
    r = ctx.tlc('MC_DataStore', cfg([60223, 40320], 2, 1, c, emitmod=5, emitobs=1), name='mirror',
                timeout=900, deque=True, count=False)
    ctx.extra['mirror_objects_checked'] = mirror_check(ctx, r)
    # long random behaviours of the specification (trimmed argument domains keep -simulate usable)
    nsim, dsim = (10, 10) if thorough else (2, 6)     # traces per worker; every trace emits all its last successors
    r = ctx.tlc('MC_DataStore', cfg([50322, 60322, 40420, 20223], dsim, 1, const(maxobj=4), props=False),
                name='sim', simulate=f'num={nsim}', depth=dsim + 1, workers=16, timeout=1200)
    if r.n_emitted < 16 * nsim:
        raise MachineryError(f'simulation emitted only {r.n_emitted} behaviours')
    total += replay_all(ctx, r, const(maxobj=4), seen_ops)
    missing = [o for o in ALLOPS if o not in seen_ops]
    if missing:
        raise MachineryError(f'vacuous: operations never replayed: {missing}')
    ctx.extra['behaviours_replayed'] = total
    ctx.extra['operations_replayed'] = sorted(seen_ops)
    ctx.traces += total
    # implementation -> specification
    tsrc = [40432, 20432, 60432, 50423, 60333, 20113, 20131, 10140, 20122]
    n = record_and_validate(ctx, tsrc, const(maxobj=4), 3000 if thorough else 320, 16 if thorough else 10)
    ctx.extra['recorded_histories_validated'] = n
    binding_selftest(ctx, tsrc[:4], const(maxobj=4))
    probes(ctx)
