"""C17 - RDM transforms mean what they say; measures are invariant as theory dictates.

Specifications: specs/Transform.tla (clauses a-g: exact rational definitions of rank / positive /
sqrt / minmax / geo-topological / geodesic / custom transforms with their theorems: order
preservation and tie rules of every rank method, idempotence, minmax affine onto [0,1], clipped
linear map monotone into [0,1], Floyd-Warshall = minimum over all simple paths with the closest
pair at 0) and specs/Compare.tla (clause h: MonoInvariant over ALL strictly increasing maps of the
value set, LinInvariant for positive scalings and affine maps, as action properties on the exact
statistics of every measure).

spec -> impl: every Transform vector is replayed through the public *_transform functions (values,
descriptors, measure name); every sampled move of Compare is replayed through
rsatoolbox.rdm.transform + compare; the library's own transforms (sqrt/positive on non-negative
RDMs, rank, minmax, scaling) are applied to Compare's vectors and must leave the measures unchanged.
impl -> spec: sessions compare(A,B); compare(T(A),B) on integer stacks larger than the grid are
re-evaluated by specs/Trace_Compare.tla, which also relates the statistics of the two calls.
"""
from __future__ import annotations

import json
import multiprocessing as mp

from harness import compare as C
from harness import transform as T
from harness.core import MachineryError
from harness.props.c03 import read_vcat

T_INVARIANTS = ('ShapeKept', 'NaNKept', 'RankTheorems', 'RankIdempotent', 'PositiveTheorems', 'MinMaxTheorems',
                'GeoTheorems', 'GeodesicTheorems', 'CustomTheorems', 'RankAfterIncreasing', 'ChainFaithful')


def tcfg(nc, voff, vspan, maxnan, stacks, transforms='TrAll', emitmod=1, maxchain=1, chaintr='NoChain',
         gen=0):
    """gen = 0: stacks enumerated from `stacks`; gen = k > 0: generator mode (tlc -simulate), 1..k RDMs"""
    lines = ['CONSTANTS', f'  NC = {nc}', f'  VOff = {voff}', f'  VSpan = {vspan}', f'  MaxNaN = {maxnan}',
             f"  TwoRdm = {'TRUE' if stacks == 'Stacks12' else 'FALSE'}",
             f'  Stacks <- {stacks}', f'  Transforms <- {transforms}',
             '  MeasClasses = {"none", "plain", "sqeuclid", "ranked"}', '  NaNv <- NaNvDef',
             f'  MaxChain = {maxchain}', f'  ChainTransforms <- {chaintr}',
             f"  GenMode = {'TRUE' if gen else 'FALSE'}", f'  GenNR = {max(gen, 1)}', '  GenVals <- GenValsDef',
             f'  EmitMod = {emitmod}', 'INIT Init', 'NEXT Next']
    lines += [f'INVARIANT {i}' for i in T_INVARIANTS] + ['INVARIANT Emit', 'CHECK_DEADLOCK FALSE']
    return '\n'.join(lines) + '\n'


def transform_run(ctx, pool, name, *a, structure=False, simulate=None, depth=None, seed=None, **kw):
    tl = dict(simulate=simulate, depth=depth) if simulate else {}
    if seed is not None:
        tl['seed'] = seed
    r = ctx.tlc('MC_Transform', tcfg(*a, **kw), name=name, timeout=1700, **tl)
    if not r.n_emitted:
        raise MachineryError(f'{name}: TLC emitted no test vectors')
    # kernel cross-check: the array-form definitions of the float tier agree with the exact rationals
    seen = set()
    k = 0
    for rec in r.iter_emitted():
        if len(rec['chain']) == 1 and rec['tr']['n'] in ('minmax', 'geodesic', 'geotopo'):
            k += 1
            if k % 7 == 0 or rec['tr']['n'] not in seen:
                seen.add(rec['tr']['n'])
                if not T.array_defs_agree_with_spec(rec):
                    raise MachineryError(f'array-form definition disagrees with Transform.tla on {rec}')
    # binding self-test: one expected entry of the first vector changed -> the replay must notice
    import copy
    first = next(o for o in r.iter_emitted() if len(o['chain']) == 1)
    bad = copy.deepcopy(first)
    p0 = bad['out'][0][0]
    bad['out'][0][0] = [p0[0] + 1, p0[1]] if p0[1] else [1, 1]
    if not any(k.endswith('/value') or 'overwrite' in k or 'zero-weight' in k for k, _, _ in T.check_record(bad)[1]):
        raise MachineryError('binding self-test failed: a corrupted expected value was not noticed by the replay')
    ctx.extra['selftest_corrupted_vector_noticed'] = ctx.extra.get('selftest_corrupted_vector_noticed', 0) + 1
    if ctx.samples is not None and len(ctx.samples) < 3:
        ctx.sample({'run': name, 'vector': next(r.iter_emitted())})
    n = 0
    by = {}
    def jobs():
        base = 0
        for chunk in r.iter_lines(200):
            yield (base, chunk, structure)
            base += len(chunk)
    for cnt, nev, nt, bad in pool.imap_unordered(T.chain_chunk, jobs()):
        n += cnt
        ctx.count(nev)
        ctx.nontrivial_extra += nt
        for key, what, case in bad:
            ctx.violation(key, what, case)
    ctx.traces += n
    ctx.extra.setdefault('transform_runs', []).append({'run': name, 'states': r.distinct, 'vectors_replayed': n,
                                                       'wall_s': round(r.wall, 1)})
    return r


def compare_run(ctx, pool, name, nc, **kw):
    """clause h on the exact statistics (TLC) + replay of the moves + the library's own transforms"""
    r = ctx.tlc('MC_Compare', C.cfg(nc, **kw), name=name, timeout=1700)
    if r.n_emitted < 2:
        raise MachineryError(f'{name}: TLC emitted no test vectors')
    vcat = read_vcat(r, nc)
    # moves ("m" records) through rsatoolbox.rdm.transform ; "v" records are C03's business, here they
    # only feed the invariance checks through the library transforms
    n = nm = ninv = 0

    def mjobs():
        base = 0
        for chunk in r.iter_lines(150):
            ms = [ln for ln in chunk if '"t":"m"' in ln]
            if ms:
                yield (base, ms, vcat, nc)
            base += len(chunk)
    try:
        for cnt, nev, nontriv, nmoves, bad in pool.imap_unordered(C.replay_chunk, mjobs()):
            nm += nmoves
            ctx.count(nev)
            ctx.nontrivial_extra += nmoves
            for key, what, case in bad:
                ctx.violation(key, what, case)
    except C.KernelMismatch as e:
        raise MachineryError(str(e))

    def vjobs():
        for chunk in r.iter_lines(150):
            vs = [ln for ln in chunk if '"t":"v"' in ln]
            if vs:
                yield (vs, nc)
    for cnt, nev, bad in pool.imap_unordered(T.invariance_chunk, vjobs()):
        ninv += cnt
        ctx.count(nev)
        for key, what, case in bad:
            ctx.violation(key, what, case)
    ctx.traces += nm + ninv
    ctx.extra.setdefault('invariance_runs', []).append({'run': name, 'states': r.distinct, 'moves_replayed': nm,
                                                        'vectors_through_library_transforms': ninv,
                                                        'wall_s': round(r.wall, 1)})
    return r


def inv_traces(ctx, pool, nc, ntr):
    jobs = [(ctx.seed * 1000003 + 104729 * nc + i, nc) for i in range(ntr)]
    res = pool.map(T.inv_trace_job, jobs, chunksize=8)
    trs, meta = [], []
    skipped = 0
    for seed, nc_, rec, err in res:
        if err is not None:
            ctx.violation('C17/h/trace/raises', f'a transform or compare raises on an admissible integer stack: {err}',
                          {'seed': seed, 'n_cond': nc})
            continue
        if rec is None:
            skipped += 1
            continue
        if 'error' in rec:
            ctx.violation('C17/f/trace/transform-values', rec['error'], {'seed': seed, **rec})
            continue
        evs = rec['events']
        m = evs[0]['m']
        # the two recorded results themselves: identical for rank-based measures, equal up to float
        # evaluation otherwise
        if (m in C.RANK_METHODS and not rec['same']) or rec['maxdiff'] > 1e-5:
            ctx.violation(f'C17/h/{m}/trace/changed', 'recorded measure changes under a transform that must not change it',
                          {'seed': seed, 'n_cond': nc, 'events': evs})
        trs.append(evs)
        meta.append(seed)
        ctx.count(2)
    stripped = [[{k: v for k, v in ev.items() if k != 'raw'} for ev in t] for t in trs]
    name = f'trace_inv_{nc}'
    # binding self-tests: (1) one recorded value changed, (2) the second call of a rank-based session
    # logged with an input that is NOT an increasing image of the first (statistics cannot be "same")
    corrupted = next((c for c in (C.corrupt_trace(t) for t in stripped) if c is not None), None)
    extra = [corrupted] if corrupted is not None else []
    for t in stripped:
        if t[1]['inv'] == 'same' and len(set(t[0]['a'][0])) > 2:
            import copy
            c2 = copy.deepcopy(t)
            c2[1]['a'][0] = sorted(c2[1]['a'][0]) if c2[1]['a'][0] != sorted(c2[1]['a'][0]) else sorted(c2[1]['a'][0], reverse=True)
            extra.append(c2)
            break
    if len(extra) < 2:
        raise MachineryError('no session to corrupt for the binding self-test')
    rejected = ctx.validate('MC_Trace_Compare', C.trace_cfg(nc), stripped + extra, name=name, timeout=1500)
    got = {i for i, _ in rejected}
    if not {len(stripped), len(stripped) + 1} <= got:
        raise MachineryError('binding self-test failed: a corrupted session was accepted by Trace_Compare')
    rejected = [(i, d) for i, d in rejected if i < len(stripped)]
    ctx.extra['selftest_corrupted_sessions_rejected'] = ctx.extra.get('selftest_corrupted_sessions_rejected', 0) + 2
    rej = {i for i, _ in rejected}
    for idx, diag in rejected:
        if idx < 0:
            ctx.violation(f'C17/trace/invariant/{diag[0].get("invariant")}',
                          'an invariant of Compare fails on a recorded call', diag[0])
            continue
        d = diag[0] if diag else {}
        if d and not d.get('enabled', True):
            raise MachineryError(f'recorder logged a call outside the domain of the specification: {d}')
        ev = trs[idx][d.get('l', 1) - 1] if d else {}
        m = ev.get('m', '?')
        kind = 'shape' if d and not d.get('shape', True) else ('statistics-not-invariant' if d and not d.get('inv', True) else 'value')
        ctx.violation(f'C17/h/{m}/trace/{kind}',
                      'recorded session compare(A,B); compare(T(A),B) is not explained by Trace_Compare',
                      {'seed': meta[idx], 'n_cond': nc, 'events': trs[idx], 'diag': {k: v for k, v in d.items() if k != 'expected'}})
    # whitened events: finished by the kernel with the exact V of the specification
    with open(ctx.scratch / name / 'emitted.ndjson') as f:
        for line in f:
            o = json.loads(line)
            if isinstance(o, dict) and 'cov' in o and (o['cov'] - 1) not in rej and o['cov'] - 1 < len(trs):
                ev = trs[o['cov'] - 1][o['l'] - 1]
                bad = C.finish_cov_event(ev, o, nc)
                if bad:
                    ctx.violation(f"C17/h/{ev['m']}/trace/value", 'recorded whitened measure differs from its definition',
                                  {'seed': meta[o['cov'] - 1], 'event': ev, 'bad': bad[1]})
    return len(trs), skipped


def run(ctx):
    thorough = ctx.tier == 'thorough'
    ctx.rule = ('TLC enumerates every stack of the stated grids (single RDMs with at most one missing entry, '
                'two-RDM stacks over anchor vectors) x every transform of the catalogue (5 rank methods, positive, '
                'sqrt, 4 custom functions, minmax, geodesic, 3 quantile pairs); every emitted state is replayed through '
                'the public transform; non-trivial = ties, a negative or a missing entry, or two RDMs.  Clause h: TLC '
                'applies every strictly increasing map of the value set / scalings / affine maps to every pair of '
                'vectors; sampled moves and the library transforms are replayed through compare()')
    ctx.assumptions = ['admissible domain: NaN only for rank and element-wise maps; minmax/geodesic on NaN-free non-constant '
                       'RDMs; geotopological with distinct thresholds (Admissible of Transform.tla)',
                       'geo-topological thresholds are the quantiles of the values the transform is given (whole stack), the '
                       'weaker reading of "its two quantile thresholds"',
                       'sqrt is decided by the relation out^2 = max(x,0), out >= 0 and the float kernel math.sqrt',
                       'measure name: must differ from the source name (rank of already ranked RDMs excepted)']
    ctx.exhaustive = False
    with mp.Pool(16) as pool:
        # clauses a-g, single transforms
        transform_run(ctx, pool, 'tr3', 3, 2, 5, 1, 'Stacks12')
        if thorough:
            # all quantile pairs incl. the boundary ones (low = 0 / up = 1 alone, low = up), two-RDM stacks
            transform_run(ctx, pool, 'tr3wide', 3, 2, 5, 2, 'Stacks12', transforms='TrAllWide')
            transform_run(ctx, pool, 'tr4', 4, 0, 2, 1, 'Stacks12', transforms='TrAllWide')
            # heavy ties (binary RDMs), up to two missing entries: every rank method
            transform_run(ctx, pool, 'tr4ties', 4, 0, 1, 2, 'Stacks1', transforms='TrAllWide')
            transform_run(ctx, pool, 'tr4wide', 4, 2, 5, 0, 'Stacks1Full', transforms='TrScaleWide', emitmod=4)
            # chains of up to three transforms, then subset / subsample / concat and a comparison
            transform_run(ctx, pool, 'chain3', 3, 2, 5, 1, 'Stacks1', transforms='TrAll', maxchain=3, chaintr='TrChain',
                          emitmod=6, structure=True)
            transform_run(ctx, pool, 'chain4', 4, 0, 2, 0, 'Stacks1', transforms='TrAllWide', maxchain=2, chaintr='TrChain',
                          emitmod=3, structure=True)
            # random walks (tlc -simulate, three seeds): 1-3 RDMs over FIVE conditions built entry by entry
            # (with or without missing entries), chains of up to three transforms
            for k in range(3):
                transform_run(ctx, pool, f'sim5_{k}', 5, 2, 5, 0, 'Stacks1', transforms='TrAllWide', maxchain=3,
                              chaintr='TrChain', gen=3, emitmod=3, structure=True, simulate='num=60', depth=40,
                              seed=ctx.seed * 101 + 13 * k + 1)
            transform_run(ctx, pool, 'sim6', 6, 1, 3, 0, 'Stacks1', transforms='TrAllWide', maxchain=2,
                          chaintr='TrChain', gen=2, emitmod=4, structure=True, simulate='num=20', depth=40,
                          seed=ctx.seed * 101 + 7)
        else:
            transform_run(ctx, pool, 'tr4', 4, 0, 2, 1, 'Stacks1', emitmod=2)
            # a small sample of chains keeps the chain machinery exercised in the quick tier
            transform_run(ctx, pool, 'chain3', 3, 1, 3, 0, 'Stacks1', transforms='TrAll', maxchain=2, chaintr='TrChain',
                          emitmod=5, structure=True)
        nev = 0
        for ne, bad in pool.imap_unordered(T.float_case, [ctx.seed * 7919 + i for i in range(6000 if thorough else 300)], chunksize=8):
            nev += ne
            for key, what, case in bad:
                ctx.violation(key, what, case)
        ctx.count(nev)
        ctx.extra['float_tier_evaluations'] = nev
        # clause h
        nb = C.ALL_METHODS[:8]
        compare_run(ctx, pool, 'inv3', 3, voff=1, vspan=3, methods=nb, moves=('mono', 'scale', 'affine'), monohi=3,
                    movevecs='AllVecs' if thorough else 'MoveVecsHalf',
                    emitmod=4 if not thorough else 1, moveemitmod=6 if not thorough else 4)
        if thorough:
            compare_run(ctx, pool, 'inv4', 4, voff=0, vspan=2, vecsb='VecsBSub', movevecs='MoveVecsSub', methods=nb,
                        moves=('mono', 'scale', 'affine'), monohi=3, emitmod=12, moveemitmod=8)
            # Bures similarity: invariant under a rescaling of either RDM (through the real transform objects)
            compare_run(ctx, pool, 'invb', 3, methods=('bures',), px=2, py=1, moves=(), emitmod=12, moveemitmod=1)
        else:
            compare_run(ctx, pool, 'inv4', 4, voff=0, vspan=1, movevecs='MoveVecsSub', methods=nb,
                        moves=('mono', 'scale', 'affine'), monohi=3, emitmod=8, moveemitmod=2)
        # four conditions, >= 3 distinct values per RDM (the binary grid above makes every increasing map affine):
        # the subset_pattern step after the real transforms needs this to be sensitive
        compare_run(ctx, pool, 'inv4s', 4, voff=1, vspan=3, vecs='StackVecs', movevecs='StackVecs', methods=nb,
                    moves=('mono', 'scale', 'affine'), monohi=4, emitmod=1, moveemitmod=4)
        tot = sk = 0
        for nc, ntr in ((5, 2500 if thorough else 200), (6, 2000 if thorough else 100), (7, 800 if thorough else 0)):
            if not ntr:
                continue
            n, s = inv_traces(ctx, pool, nc, ntr)
            tot, sk = tot + n, sk + s
        ctx.extra['recorded_sessions_validated'] = tot
        ctx.extra['recorded_sessions_skipped_degenerate'] = sk
