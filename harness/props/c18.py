"""C18 - simulated data reproduce the generating model's RDM.

Specification: specs/Simulation.tla.  Model RDMs are built from small integer point configurations (hence
Euclidean-embeddable, exact integer squared distances).  For every configuration TLC runs the stages
Design -> PreSignal -> OneSim* -> Measure of the model and checks
  DesignOk       every condition exactly once per partition (make_design and the labels handed over),
  GramOk         -1/2 H D H is the Gram matrix of the centred points (the code's double centring),
  SignalOk       the representatives of the exact signal have second moment P*G,
  Contract       Rdm(MakeDataset(model, exact signal, zero noise)) = signal * ModelRdm, Rdm being the
                 squared-euclidean-by-condition definition /P of calc_rdm, in exact rational arithmetic,
  SameSignal / DrawCount   protocol of the random draws (one signal draw reused vs. a fresh one per simulation),
  NoiseRelation  noise part = sqrt(variance) * draw.
Every terminal state is emitted with the expected design vectors, draw protocol and exact RDM and replayed
into rsatoolbox.simulation.make_design / make_dataset and calc_rdm with forced (or seeded) numpy draws:
clauses a (RDM identity, rtol 1e-5), b (design), c (descriptors), d (same signal / fresh signal, sequence of
draws), e (data(v) - data(0) = sqrt(v) (data(1) - data(0)); additive).  n_channel = n_cond - 1 and imposed
signal covariances are negative controls only (the property excludes them): run, counted, nothing demanded
of their RDM.
"""
from __future__ import annotations

import copy
import json
import multiprocessing as mp
import zlib

from harness import simulation as S
from harness.core import MachineryError

PID = 'C18'


def _chunk(args):
    base, lines, seed = args
    out, unsup = [], []
    nev = 0
    nontriv = 0
    neg = 0
    maxerr = 0.0
    for j, line in enumerate(lines):
        rec = json.loads(line)
        # TLC's emission order varies between runs: derive seed / flavour from the content, not the position
        i = zlib.crc32(line.strip().encode()) % 1000003
        bad, u, n, info = S.check_case(rec, seed=seed * 100003 + i, variant=i + seed)
        nev += n
        out.extend(bad)
        if (i + seed) % 4 == 0:                  # make_signal called directly, G exact from the specification
            b2, n2 = S.check_make_signal(rec, seed * 100003 + i)
            nev += n2
            out.extend(b2)
        unsup.extend(u)
        maxerr = max(maxerr, info.get('err', 0.0))
        if not rec['demanded']:
            neg += 1
        elif rec['n'] >= 3 and len(set(rec['model'])) > 1:
            nontriv += 1
    return len(lines), nev, nontriv, neg, maxerr, out, unsup


def _float_chunk(seeds):
    out = []
    for s in seeds:
        out.extend(S.float_noise_case(s))
    return len(seeds), out


def replay(ctx, r):
    def jobs():
        base = 0
        for chunk in r.iter_lines(100):
            yield (base, chunk, ctx.seed)
            base += len(chunk)
    total = neg_total = 0
    maxerr = 0.0
    with mp.Pool(16) as pool:
        for n, nev, nontriv, neg, err, bad, unsup in pool.imap_unordered(_chunk, jobs()):
            total += n
            neg_total += neg
            maxerr = max(maxerr, err)
            ctx.count(nev)
            ctx.nontrivial_extra += nontriv
            for key, what, detail in bad:
                ctx.violation(f'{PID}/{key}', what, detail)
            for cls, msg in unsup:
                ctx.unsupported_case(f'{PID}/{cls}', msg)
    ctx.traces += total
    return total, neg_total, maxerr


def selftest(ctx, r):
    """spec -> impl binding: corrupted expectations must be reported by the replay"""
    tried = 0
    for rec in r.iter_emitted():
        if rec['demanded'] and rec['n'] >= 3 and rec['nSim'] >= 2 and rec['cls'] == 'trailing' \
                and max(rec['model']) > 0 and rec['design'] == 'vector':
            clean, _, _, _ = S.check_case(rec, seed=1, variant=0)
            tried += 1
            if clean:
                if tried > 40:
                    break
                continue            # the implementation is wrong on this vector (reported by the replay)
            a = copy.deepcopy(rec)
            a['rdm'][0][0] = a['rdm'][0][0] + a['rdm'][0][1]          # expected RDM entry + 1
            b = copy.deepcopy(rec)
            b['draws'] = b['draws'][:-1]                              # one draw less in the protocol
            c = copy.deepcopy(rec)
            c['part'][0] = 1 - c['part'][0]                           # design vector altered
            keys = []
            for x in (a, b, c):
                bad, _, _, _ = S.check_case(x, seed=1, variant=0, consistency=False)
                keys.append(bad[0][0] if bad else None)
            if None in keys:
                raise MachineryError(f'self-test: corrupted expectation not detected: {keys}')
            ctx.extra['vector_selftest'] = {'corrupted rdm / draws / design reported as': keys}
            return
    ctx.extra['vector_selftest'] = 'skipped: no vector with a clean replay'
    ctx.extra['_selftest_skipped'] = True


def run(ctx):
    thorough = ctx.tier == 'thorough'
    ctx.rule = ('TLC enumerates point configurations over small integer grids (models mode: every sequence of '
                'grid points for n_cond 2..5, channel offsets, signal strengths; flavours - partitions, simulations, '
                'condition vector / design matrix, same-signal flag, trial order, label values, noise root, noise '
                'covariance - derived from a hash; thinned deterministically 1 in KeepMod with Salt = seed) and a '
                'catalogue of hand-picked models crossed with all flavours (protocol mode); each emitted '
                'configuration is replayed.  Non-trivial = demanded configuration with >= 3 conditions and a '
                'non-constant model RDM')
    ctx.assumptions = ['model RDMs from integer point configurations (embeddable by construction); the float tier of '
                       'clause e uses real-valued models',
                       'numpy.random.uniform is forced (same stream for all calls of one case) or numpy is seeded',
                       'design-matrix flavour: indicator matrices (one 1 per row); by-condition labels derived from '
                       'the matrix rows by the driver',
                       'n_channel < n_cond and imposed signal covariance: negative controls, RDM not demanded',
                       'tolerance of clause a 1e-5 relative to the largest RDM entry (LDL pivots clipped at 1e-15)']
    salt = ctx.seed
    if thorough:
        runs = [('models', dict(nconds='{2,3,4}', grid='GridA', keepmod=12), 'm_A234'),
                ('models', dict(nconds='{2,3,4}', grid='GridB', keepmod=96), 'm_B234'),
                ('models', dict(nconds='{5}', grid='GridQ', keepmod=8), 'm_Q5'),
                ('models', dict(nconds='{5}', grid='GridA', keepmod=160, offs='Offs'), 'm_A5'),
                ('models', dict(nconds='{3,4,5}', grid='GridL', keepmod=12), 'm_L'),
                ('protocol', dict(nconds='{2,3,4,5}', offs='OffsFew', keepmod=12), 'p_cat')]
    else:
        runs = [('models', dict(nconds='{2,3,4}', grid='GridA', keepmod=64), 'm_A234'),
                ('models', dict(nconds='{5}', grid='GridQ', keepmod=32), 'm_Q5'),
                ('protocol', dict(nconds='{2,3,4,5}', offs='OffsFew', nparts='{1,3}', keepmod=24), 'p_cat')]
    ctx.exhaustive = False
    total = neg = 0
    maxerr = 0.0
    first = None
    for mode, kw, name in runs:
        r = ctx.tlc('MC_Simulation', S.cfg(mode, salt=salt, **kw), name=name, timeout=1700)
        if r.n_emitted < 50:
            raise MachineryError(f'TLC emitted only {r.n_emitted} configurations in run {name}')
        t, ng, err = replay(ctx, r)
        if first is None:
            first = r
            selftest(ctx, r)
            if ctx.extra.pop('_selftest_skipped', False) and not ctx.new_violations:
                raise MachineryError('self-test: no suitable vector although the replay reported nothing')
        total += t
        neg += ng
        maxerr = max(maxerr, err)
        for rec in r.iter_emitted():
            if rec['demanded'] and rec['n'] >= 3:
                ctx.sample({k: rec[k] for k in ('n', 'pts', 'P', 'nPart', 'nSim', 'sig', 'design', 'same', 'labels',
                                                'draws', 'model', 'rdm', 'cls')}, cap=4)
                break
    ctx.extra['observation_noise_cov_channel_factor'] = S.observe_channel_factor()
    for key, what, detail in S.check_error_branches():
        ctx.violation(f'{PID}/{key}', what, detail)
    ctx.count(3)
    # clause b for every size: make_design is pure and cheap - all n_cond in 1..130 x n_part in 1..4
    r = ctx.tlc('MC_Simulation', S.cfg('design', nconds='N130', nparts='{1,2,3,4}', salt=salt), name='design_sweep',
                workers=8, timeout=900)
    if r.n_emitted != 520:
        raise MachineryError(f'design sweep emitted {r.n_emitted} of 520 designs')
    for rec in r.iter_emitted():
        for key, what, detail in S.check_design(rec):
            ctx.violation(f'{PID}/{key}', what, detail)
        ctx.count(1)
        if rec['n'] >= 2 and rec['nPart'] >= 2:
            ctx.nontrivial_extra += 1
    ctx.traces += 520
    ctx.extra['design_sweep'] = 'make_design == MakeDesign for all n_cond in 1..130 x n_part in 1..4 (520 designs)'
    if neg == 0:
        raise MachineryError('no negative control (n_channel < n_cond / signal covariance) was generated')
    ctx.extra['configurations_replayed'] = total
    ctx.extra['negative_controls_not_demanded'] = neg
    ctx.extra['max_relative_rdm_error_outside_early_dependent_class'] = maxerr
    # float tier of clause e
    nfl = 400 if not thorough else 4000
    seeds = [ctx.seed * 7919 + i for i in range(nfl)]
    with mp.Pool(16) as pool:
        for n, bad in pool.imap_unordered(_float_chunk, [seeds[i:i + 25] for i in range(0, nfl, 25)]):
            ctx.count(3 * n)
            for key, what, detail in bad:
                ctx.violation(f'{PID}/{key}', what, detail)
