"""C05 - Folds partition the data and test data never influence fitting.

Specification: specs/CvSets.tla on top of RdmsStore.tla.  A case = (source object incl. bootstrap
copies, generator, grouping descriptors, k / n, outcome of every shuffle); Folds(case) is built with
the container operations the way crossvalsets.py composes them and the clauses a-d plus NoLeak are
TLC invariants over every case.  S -> I: every case is replayed into the real generator with the
shuffles forced and every handed-out object and index list compared.  Clauses e-f are bound by
perturbation replay through rsatoolbox.inference.evaluate.crossval with recording / frozen fitters:
entries the specification places outside a fold's training object must not move that fold's fitted
parameters (bit-identical), entries outside its test object must not move its score at fixed parameters.
"""
from __future__ import annotations

import json
import multiprocessing as mp

import numpy as np

from harness import cvsets as CVS
from harness import rdmstore as S
from harness.core import MachineryError

INVS = ['Disjoint', 'WholeGroups', 'Exhaustive', 'Advertised', 'NoLeak']


def cfg(nr, nc, gens, permlevel, emit=True, kmax=9):
    lines = ['CONSTANTS', f'  NR = {nr}', f'  NC = {nc}', '  MaxObj = 1', '  MaxRows = 9', '  MaxPats = 9',
             '  Depth = 0', '  NanPairs <- NanPairsA', '  ArgLevel = 2', '  EmitMod = 1', '  Ops <- NoOps',
             f'  Gens <- {gens}', f'  PermLevel = {permlevel}', f'  KMax = {kmax}', 'INIT CInit', 'NEXT CNext']
    lines += [f'INVARIANT {i}' for i in INVS]
    if emit:
        lines.append('INVARIANT EmitCase')
    lines.append('CHECK_DEADLOCK FALSE')
    return '\n'.join(lines) + '\n'


def _replay_chunk(args):
    base, lines, const, mode, seed = args
    bad = []
    nontriv = 0
    for j, line in enumerate(lines):
        rec = json.loads(line)
        i = base + j
        c = rec['case']
        if mode == 'sets':
            flavour = S.FLAVOURS[i % 4]
            res = CVS.check_case(rec, const, flavour)
        else:
            flavour = ('list', 'int')
            try:
                res = CVS.perturbation_case(rec, const, flavour, seed + i)
            except S.DrawMismatch as ex:
                res = (f"{c['gen']}/shuffle", str(ex))
        if len(rec['folds']) > 1:
            nontriv += 1
        if res is not None:
            bad.append((i, flavour, res, c))
    return len(lines), nontriv, bad


def replay(ctx, r, const, mode, every=1):
    def jobs():
        base = 0
        for chunk in r.iter_lines(40):
            if every > 1:
                chunk = [l for k, l in enumerate(chunk) if (base + k) % every == 0]
            yield (base, chunk, const, mode, ctx.seed)
            base += 40
    n = 0
    with mp.Pool(16) as pool:
        for cnt, nontriv, bad in pool.imap_unordered(_replay_chunk, jobs()):
            n += cnt
            ctx.count(cnt)
            ctx.nontrivial_extra += nontriv
            for i, flavour, (key, detail), c in bad:
                ctx.violation(f'C05/{key}', f'{mode}: generator / crossval leaves the specification: {key}',
                              {'const': {**const, 'NanPairs': sorted(const['NanPairs'])}, 'flavour': flavour,
                               'case': c, 'detail': detail, 'mode': mode})
    return n


def run(ctx):
    ctx.rule = ('TLC enumerates cases (source incl. bootstrap copies x generator x grouping descriptors x k/n x every '
                'shuffle outcome); every case replayed into the real generator with forced shuffles and all handed-out '
                'objects / index lists compared; perturbation replay through crossval for clauses e-f; non-trivial = '
                'case with more than one fold')
    ctx.assumptions = ['projection harness/rdmstore.py:project is faithful',
                       'numpy.random.shuffle is the only source of randomness of the generators (otherwise: shuffle mismatch)',
                       'perturbation replay judges dependence by bit-identity of fitted parameters / scores']
    thorough = ctx.tier == 'thorough'
    const3 = {'NR': 3, 'NC': 3, 'NanPairs': {(2, 1, 3)}}
    total = 0
    # (NR, NC, generators, PermLevel, KMax); 5 groups with k = 3 is the smallest split with a remainder of 2,
    # the only place where the "remainder taken from the end" rule is visible
    runs = [(3, 3, 'GensSimple', 2, 9), (3, 3, 'GensNested', 1, 9), (3, 3, 'GensRandom', 1, 9),
            (5, 5, 'GensSimple', 0, 9), (5, 3, 'GensNested', 0, 3), (3, 5, 'GensNested', 0, 3)]
    if thorough:
        runs += [(3, 4, 'GensSimple', 2, 9), (3, 3, 'GensNested', 2, 9), (4, 4, 'GensNested', 1, 9),
                 (3, 4, 'GensRandom', 1, 9), (5, 5, 'GensSimple', 1, 9), (5, 5, 'GensNested', 0, 3)]
    for nr, nc, gens, pl, kmax in runs:
        r = ctx.tlc('MC_CvSets', cfg(nr, nc, gens, pl, kmax=kmax), name=f'cv_{nr}{nc}_{gens}_{pl}', timeout=3000, workers=16)
        if not r.n_emitted:
            raise MachineryError('TLC emitted no cases')
        first = next(r.iter_emitted())
        ctx.sample({'case': first['case'], 'n_folds': len(first['folds']),
                    'fold0': {k: first['folds'][0][k] for k in ('trainIdx', 'testIdx', 'hasCeil')}})
        total += replay(ctx, r, {'NR': nr, 'NC': nc, 'NanPairs': {(2, 1, 3)}}, 'sets')
    # clauses e-f need folds that are large enough to be evaluated (more than 2 conditions per side)
    pruns = [(3, 6, 'GensSimple', 1, 1, 9), (3, 6, 'GensNested', 0, 1, 2), (3, 6, 'GensRandom', 0, 2, 3)]
    if thorough:
        pruns = [(3, 6, 'GensSimple', 2, 1, 9), (3, 6, 'GensNested', 1, 1, 3), (3, 6, 'GensRandom', 1, 2, 3)]
    ptotal = 0
    for nr, nc, gens, pl, every, kmax in pruns:
        r = ctx.tlc('MC_CvSets', cfg(nr, nc, gens, pl, kmax=kmax), name=f'cvp_{nr}{nc}_{gens}', timeout=3000, workers=16)
        ptotal += replay(ctx, r, {'NR': nr, 'NC': nc, 'NanPairs': set()}, 'perturb', every=every)
    ctx.exhaustive = True
    ctx.traces += total + ptotal
    ctx.extra['cases_replayed'] = total
    ctx.extra['perturbation_cases'] = ptotal
