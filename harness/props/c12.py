"""C12 - Value-returning operations neither modify nor alias their inputs.

Specification: specs/Alias.tla - a heap of tracked value objects; Produce(p) changes no tracked
object, MutateResult changes one result component only, MutateSource changes one tracked object
only; Frame is the action property.  The catalogue of producers is discovered at run time by
introspection of rsatoolbox.rdm/.data/.model/.inference/.util (new functions are picked up
automatically; callables no argument factory can call are listed as uncovered, never as
violations) and handed to TLC as JSON.  TLC enumerates every applicable schedule
(producer, mutator, side, target); each is performed on real objects from a fresh world while the
fingerprints of ALL tracked objects and result components are recorded; Trace_Alias.tla accepts a
recorded experiment only if the observed changes are exactly those the actions allow.
"""
from __future__ import annotations

import json
import multiprocessing as mp
import traceback

import numpy as np

from harness import alias as A
from harness.core import MachineryError

_CAT = None


def _catalogue():
    global _CAT
    if _CAT is None:
        _CAT = A.discover()
    return _CAT


def _probe(iv):
    """run catalogue entry i (argument variant v) once on a fresh world to learn its arguments and result components"""
    i, variant = iv
    qual, fn, owner = _catalogue()[i]
    cls = A.classify(qual, owner)
    if cls == 'inplace':
        return iv, {'status': 'inplace'}
    w = A.World(7)
    try:
        res, used = A.call(w, qual, fn, owner, variant)
    except A.Uncovered as u:
        return iv, {'status': 'uncovered', 'why': str(u)}
    except Exception as ex:
        return iv, {'status': 'uncovered', 'why': f'factory arguments rejected: {type(ex).__name__}: {str(ex)[:120]}'}
    comps = A.components(res)
    return iv, {'status': 'ok', 'class': cls, 'args': sorted(set(u for u in used if u in w.t)),
               'comps': [A.comp_kind(c) for c in comps]}


def _code(table, h):
    return table.setdefault(h, len(table) + 1)


def _experiment(job):
    """perform one schedule; returns a trace record or a skip reason"""
    (cat_index, variant), sched, seed = job
    qual, fn, owner = _catalogue()[cat_index]
    w = A.World(seed)
    table = {}
    before = {k: _code(table, v) for k, v in w.fingerprints().items()}
    try:
        res, used = A.call(w, qual, fn, owner, variant)
    except Exception as ex:
        return {'skip': f'raises on replay: {type(ex).__name__}'}
    comps = A.components(res)
    fps = {k: _code(table, v) for k, v in w.fingerprints().items()}
    rf = [_code(table, A.fingerprint(c)) for c in comps]
    events = [{'op': 'produce', 'side': '', 'target': '', 'comp': 0, 'mut': '', 'fps': fps, 'rfps': rf}]
    if sched['mut']:
        if sched['side'] == 'result':
            if sched['comp'] > len(comps):
                return {'skip': 'component vanished'}
            target = comps[sched['comp'] - 1]
        else:
            target = w.t[sched['target']]
        try:
            ok = A.mutate(w, target, sched['mut'])
        except Exception as ex:
            return {'skip': f"mutator raises: {type(ex).__name__}"}
        if not ok:
            return {'skip': 'mutator not applicable to this object'}
        fps2 = {k: _code(table, v) for k, v in w.fingerprints().items()}
        rf2 = [_code(table, A.fingerprint(c)) for c in comps]
        moved = (rf2[sched['comp'] - 1] != rf[sched['comp'] - 1]) if sched['side'] == 'result' else \
            (fps2[sched['target']] != fps[sched['target']])
        if not moved:
            return {'skip': 'mutation left the target unchanged (nothing to observe)'}
        events.append({'op': 'mutate', 'side': sched['side'], 'target': sched['target'], 'comp': sched['comp'],
                       'mut': sched['mut'], 'fps': fps2, 'rfps': rf2})
    return {'trace': {'p': sched['p'], 'before': before, 'events': events}, 'name': qual, 'variant': variant}


def run(ctx):
    ctx.rule = ('catalogue of public callables discovered by introspection; TLC enumerates every applicable schedule '
                '(producer ; optional in-place operation or array write on a result component or on a tracked argument); '
                'each performed on real objects from a fresh world with fingerprints of all tracked objects recorded and '
                'validated by Trace_Alias; non-trivial = schedule with a mutation step that really changed its target')
    ctx.assumptions = ['fingerprint = sha1 of array bytes + normalised descriptor values; library-managed index entries excluded',
                       'accessors documented to expose internal storage (get_vectors, get_matrices, get_measurements, to_dict) '
                       'are checked for not modifying their object but not for array-write independence',
                       'callables the argument factories cannot call are listed under coverage.uncovered']
    cat = _catalogue()
    ivs = [(i, v) for i in range(len(cat)) for v in range(A.N_VARIANTS)]
    with mp.Pool(16) as pool:
        probes = dict(pool.map(_probe, ivs, chunksize=4))
    entries, index_of = [], []
    uncovered = {}
    exercised = set()
    for i, (qual, fn, owner) in enumerate(cat):
        sigs = set()
        for v in range(A.N_VARIANTS):
            pr = probes[(i, v)]
            if pr['status'] == 'ok':
                exercised.add(qual)
                entries.append({'name': f'{qual}#{v}', 'class': pr['class'], 'args': pr['args'], 'comps': pr['comps']})
                index_of.append((i, v))
            elif pr['status'] == 'uncovered' and v == 0:
                uncovered[qual] = pr['why']
        if qual in exercised:
            uncovered.pop(qual, None)
    if len(exercised) < 60:
        raise MachineryError(f'only {len(entries)} callables could be exercised - factories broken?')
    w = A.World(7)
    tracked = [{'name': k, 'kind': A.comp_kind(v) if not isinstance(v, (list, dict)) else 'other'} for k, v in w.t.items()]
    wd = ctx.scratch / 'alias'
    wd.mkdir(parents=True, exist_ok=True)
    (wd / 'catalogue.json').write_text(json.dumps(entries))
    (wd / 'tracked.json').write_text(json.dumps(tracked))
    env = {'CATALOGUE_FILE': str(wd / 'catalogue.json'), 'TRACKED_FILE': str(wd / 'tracked.json')}
    cfg = 'SPECIFICATION Spec\nINVARIANT Emit\nPROPERTY Frame\nCHECK_DEADLOCK FALSE\n'
    r = ctx.tlc('MC_Alias', cfg, name='alias_mc', env=env, timeout=900)
    scheds = [s for s in r.iter_emitted()]
    if not scheds:
        raise MachineryError('TLC emitted no schedules')
    seeds = [ctx.seed * 7919 + 11] if ctx.tier == 'quick' else [ctx.seed * 7919 + 11 + k for k in range(3)]
    jobs = [(index_of[s['p'] - 1], s, sd) for s in scheds for sd in seeds]
    with mp.Pool(16) as pool:
        outs = pool.map(_experiment, jobs, chunksize=8)
    traces, names, meta = [], [], []
    for job, o in zip(jobs, outs):
        if 'skip' in o:
            ctx.unsupported_case(o['skip'])
            continue
        traces.append(o['trace'])
        names.append(o['name'])
        meta.append(job[1])
        ctx.count(1)
        if job[1]['mut']:
            ctx.nontriv((o['name'], job[1]['side'], job[1]['target'], job[1]['comp'], job[1]['mut']))
    tcfg = 'SPECIFICATION TSpec\nCHECK_DEADLOCK FALSE\n'
    rejected = ctx.validate('MC_Trace_Alias', tcfg, traces, name='alias_trace', env=env, timeout=1800)
    for idx, diag in rejected:
        if idx < 0:
            raise MachineryError(f'trace specification failed: {diag}')
        s = meta[idx]
        short = names[idx].replace('rsatoolbox.', '')
        if not diag or any(d.get('structural') for d in diag):
            raise MachineryError(f'recorded experiment is not a schedule of the model: {names[idx]} {s} {diag}')
        for d in diag:
            if d.get('op') == 'produce':
                key = f"C12/modifies-argument/{short}"
                what = f"{short} changes tracked object(s) {sorted(d.get('tracked_changed', []))} it was given"
            elif d.get('side') == 'result':
                key = f"C12/alias/{short}/{s['mut']}-on-result-changes-source"
                what = f"{s['mut']} on the result of {short} changes {sorted(d.get('tracked_changed', []))}"
            else:
                key = f"C12/alias/{short}/{s['mut']}-on-source-changes-result"
                what = f"{s['mut']} on argument {s['target']} changes the result of {short}"
            ctx.violation(key, what, {'callable': names[idx], 'schedule': s, 'diag': d})
    ctx.sample({'schedule': scheds[len(scheds) // 2], 'callable': entries[scheds[len(scheds) // 2]['p'] - 1]})
    ctx.sample({'trace': traces[len(traces) // 2]})
    ctx.exhaustive = True
    ctx.extra['callables_discovered'] = len(cat)
    ctx.extra['callables_exercised'] = len(exercised)
    ctx.extra['catalogue_entries'] = len(entries)
    ctx.extra['uncovered'] = uncovered
    ctx.extra['schedules'] = len(scheds)
E2E = None
