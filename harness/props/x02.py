"""X02 (growth check beyond the 20 listed properties) - the decision layer of Result.summary() / str(Result).

Specification: specs/ResultSummary.tla (staged model Choose / HeadStep / RowStep / Foot; theorems RowsInOrder,
PadPositive, NoZeroP, AlignedWhenFinite, FooterTotal checked by TLC over cv_method x test type x name lengths x
number classes).  The numbers themselves are C06's subject; what is decided here is what is SHOWN for them.

spec -> impl : every finished table of a small grid (cv_method x test type x 1-2 models x name lengths x NaN / '<' /
               numeric cells) is emitted by TLC with its input and replayed: a Result built with the public constructor
               whose accessors are pinned to the vector's values is printed by the real summary() and compared cell by cell.
impl -> spec : Result objects produced by the real evaluation routines (eval_fixed, eval_bootstrap_rdm,
               eval_bootstrap_pattern, eval_dual_bootstrap, crossval, bootstrap_crossval) on small random data are
               summarised with every test type; the printed table is parsed back and logged together with what the
               public accessors return; Trace_ResultSummary.tla re-derives every row / rule / footer from the logged
               input.  Recorded exceptions of summary() are events of their own (key X02/raises/<cv>/<test>/<type>).
self-test    : one accepted trace is corrupted per field class (cell class, permille value, padding, footer, rule)
               and every corruption must be rejected.
"""
from __future__ import annotations

import copy
import math
import re

import numpy as np

from harness.core import MachineryError

INVS = ['RowsInOrder', 'PadPositive', 'NoZeroP', 'AlignedWhenFinite', 'FooterTotal']
LEVEL = 'model_checking'


def cfg(quick):
    lines = ['SPECIFICATION Spec', 'CONSTANTS', '  LenGrid <- MCLenGrid',
             f'  ValGrid <- {"MCValGridQ" if quick else "MCValGrid"}', '  PGrid <- MCPGrid', '  MaxModels = 2']
    lines += [f'INVARIANT {i}' for i in INVS] + ['CHECK_DEADLOCK FALSE']
    return '\n'.join(lines) + '\n'


EMIT_CFG = '\n'.join(['SPECIFICATION Spec', 'CONSTANTS', '  LenGrid <- MCLenGridE', '  ValGrid <- MCValGridE',
                      '  PGrid <- MCPGridE', '  MaxModels = 2', 'INVARIANT Emit', 'CHECK_DEADLOCK FALSE']) + '\n'


def _val(u):
    return float('nan') if u == NAN else u / 1e6


def replay_vector(vec):
    """One finished table of the model through the real summary(): a Result built with the public constructor whose
    accessors are pinned (instance attributes) to the values of the vector.  Returns None or (clause, detail)."""
    from rsatoolbox.inference.result import Result
    from rsatoolbox.model import ModelFixed
    inp, doc = vec['inp'], vec['doc']
    n = inp['n']
    models = [ModelFixed('m' * inp['lens'][i], np.arange(3.0) + 1) for i in range(n)]
    res = Result(models, np.zeros((4, n)), method='corr', cv_method=inp['cv'], noise_ceiling=np.zeros((2, 4)))
    res.get_means = lambda: np.array([_val(u) for u in inp['means']])
    res.get_sem = lambda: np.array([_val(u) for u in inp['sems']])
    res.test_zero = lambda test_type='t-test': np.array([_val(u) for u in inp['pz']])
    res.test_noise = lambda test_type='t-test': np.array([_val(u) for u in inp['pn']])
    try:
        text = res.summary(test_type=inp['tt'])
        ev = parse_summary(text, res, inp['tt'], given=inp)
    except Exception as e:
        return f'raises/{type(e).__name__}', str(e)[:120]
    rule = [d for d in doc if d['kind'] == 'rule'][0]
    rows = [d for d in doc if d['kind'] == 'row']
    foot = [d for d in doc if d['kind'] == 'foot'][0]
    if ev['rule'] != rule['len']:
        return 'Rule', {'shown': ev['rule'], 'spec': rule['len']}
    if ev['footer'] != foot['which']:
        return 'Footer', {'shown': ev['footer'], 'spec': foot['which']}
    if ev['headn'] != n or ev['headcv'] != inp['cv']:
        return 'Header', text.split('\n')[0]
    if len(ev['rows']) != len(rows):
        return 'RowCount', {'shown': len(ev['rows']), 'spec': len(rows)}
    for r, d in zip(ev['rows'], rows):
        if r['pad'] != d['pad'] or r['len'] != d['len']:
            return 'Row/layout', {'shown': [r['pad'], r['len']], 'spec': [d['pad'], d['len']], 'text': text}
        for c in ('mean', 'sem', 'pz', 'pn'):
            if r[c]['cls'] != d[c]['cls'] or (d[c]['cls'] == 'num' and r[c]['txt'] != d[c]['txt']):
                return f'Row/{c}', {'shown': r[c], 'spec': d[c], 'text': text}
    return None


TRACE_CFG = '\n'.join(['SPECIFICATION TSpec', 'CONSTANTS', '  LenGrid <- MCLenGrid', '  ValGrid <- MCValGrid',
                       '  PGrid <- MCPGrid', '  MaxModels = 1', 'CHECK_DEADLOCK FALSE']) + '\n'

FOOTERS = {'No p-values available as crossvalidation provides no variance estimate': 'nocv',
           'p-values are based on uncorrected t-tests': 'ttest',
           'p-values are based on percentiles of the bootstrap samples': 'boot',
           'p-values are based on ranksum tests': 'ranksum',
           '': 'none'}
NAN = -2000000000
NUM = re.compile(r'^-?\d+\.\d{3}$')


def micro(x):
    """value -> (micro-units or 'nan', tie?)  tie: the three-decimal rounding is decided by < 2e-9 or the micro-unit
    rounding could move the value across the 0.001 threshold"""
    x = float(x)
    if math.isnan(x):
        return NAN, False
    if math.isinf(x) or abs(x) > 2000:
        raise OverflowError
    frac = abs(x) * 1000 - math.floor(abs(x) * 1000)
    tie = abs(frac - 0.5) < 2e-3
    u = int(round(x * 1e6))
    if abs(x - 0.001) < 1e-9:
        raise OverflowError      # p-value on the threshold to float accuracy: not decidable from the logged integer
    if u == 1000 and x < 0.001:
        u = 999
    if u == 999 and x >= 0.001:
        u = 1000
    return u, tie


def cell(txt, tie):
    t = txt.strip()
    if t == 'nan':
        return {'cls': 'nan', 'txt': 0, 'tie': False}
    if t == '< 0.001':
        return {'cls': 'lt', 'txt': 0, 'tie': False}
    if NUM.match(t):
        return {'cls': 'num', 'txt': int(round(float(t) * 1000)), 'tie': bool(tie)}
    return {'cls': 'other:' + t[:12], 'txt': 0, 'tie': False}


def parse_summary(text, res, tt, given=None):
    """printed table + accessor values -> one trace event (or raises ValueError if the text has no table shape)"""
    lines = text.split('\n')
    m = re.match(r'^Results for running (\S+) evaluation for (.*) on (\d+) models:$', lines[0])
    if not m or lines[1] != '':
        raise ValueError('header')
    names = [mo.name for mo in res.models]
    n = len(names)
    rule = lines[3]
    if set(rule) != {'-'}:
        raise ValueError('rule')
    means, sems = res.get_means(), res.get_sem()
    means = np.full(n, np.nan) if means is None else np.asarray(means, float).reshape(-1)
    sems = np.full(n, np.nan) if sems is None else np.asarray(sems, float).reshape(-1)
    try:
        pz, pn = np.asarray(res.test_zero(test_type=tt), float), np.asarray(res.test_noise(test_type=tt), float)
    except ValueError:
        pz, pn = np.full(n, np.nan), np.full(n, np.nan)
    ev = {'cv': res.cv_method, 'tt': tt, 'n': n, 'headn': int(m.group(3)), 'headcv': m.group(1),
          'lens': [len(x) for x in names], 'rule': len(rule), 'means': [], 'sems': [], 'pz': [], 'pn': [], 'rows': []}
    ties = []
    for arr, key in ((means, 'means'), (sems, 'sems'), (pz, 'pz'), (pn, 'pn')):
        t = []
        if given is not None:       # replay of a specification vector: the integers are the specification's own
            ev[key] = list(given[key])
            ties.append([False] * n)
            continue
        for x in arr:
            u, tie = micro(x)
            ev[key].append(u)
            t.append(tie)
        ties.append(t)
    body = lines[4:]
    k = 0
    while k < len(body) and body[k] != '':
        ln = body[k]
        parts = ln.split('|')
        if len(parts) != 5:
            raise ValueError('row shape')
        i = k
        name = names[i] if i < n else ''
        if not parts[0].startswith(name):
            raise ValueError('row name')
        ms = parts[1].split('±')
        if len(ms) != 2:
            raise ValueError('mean/sem')
        ev['rows'].append({'pad': len(parts[0]) - len(name), 'len': len(ln),
                           'mean': cell(ms[0], i < n and ties[0][i]), 'sem': cell(ms[1], i < n and ties[1][i]),
                           'pz': cell(parts[2], i < n and ties[2][i]), 'pn': cell(parts[3], i < n and ties[3][i])})
        k += 1
    foot = '\n'.join(body[k + 1:]) if k < len(body) else ''
    ev['footer'] = FOOTERS.get(foot, 'other')
    return ev


# ------------------------------------------------------------------------------------------ results of the real code
def make_results(rng, thorough):
    import rsatoolbox
    from rsatoolbox.inference import (eval_fixed, eval_bootstrap_rdm, eval_bootstrap_pattern, eval_dual_bootstrap,
                                      bootstrap_crossval, crossval, sets_k_fold)
    from rsatoolbox.model import ModelFixed, ModelWeighted
    from rsatoolbox.rdm import RDMs
    out = []
    reps = 6 if thorough else 2
    for rep in range(reps):
        n_cond, n_rdm = int(rng.integers(5, 8)), int(rng.integers(4, 8))
        npair = n_cond * (n_cond - 1) // 2
        base = rng.random(npair) + 0.1
        noise = [0.05, 0.5, 3.0][rep % 3]
        data = RDMs(np.abs(base + noise * rng.standard_normal((n_rdm, npair))),
                    rdm_descriptors={'subj': np.arange(n_rdm)}, pattern_descriptors={'cond': np.arange(n_cond)})
        names = [['m', 'model_two'], ['averyveryverylongmodelname', 'b', 'cc'], ['x']][rep % 3]
        models = []
        for j, nm in enumerate(names):
            v = base + [0.01, 1.0, 10.0][j % 3] * rng.standard_normal(npair) if j % 2 == 0 else rng.random(npair)
            models.append(ModelFixed(nm, RDMs(np.abs(v)[None], pattern_descriptors={'cond': np.arange(n_cond)})))
        method = ['corr', 'cosine', 'spearman'][rep % 3]
        nb = 16
        makers = {
            'fixed': lambda: eval_fixed(models, data, method=method),
            'bootstrap_rdm': lambda: eval_bootstrap_rdm(models, data, method=method, N=nb),
            'bootstrap_pattern': lambda: eval_bootstrap_pattern(models, data, method=method, N=nb),
            'dual_bootstrap': lambda: eval_dual_bootstrap(models, data, method=method, N=nb, k_pattern=2, k_rdm=2),
            'bootstrap_crossval': lambda: bootstrap_crossval(models, data, method=method, N=nb, k_pattern=2, k_rdm=2),
            'crossvalidation': lambda: crossval(models, data, *sets_k_fold(data, k_pattern=2, k_rdm=2), method=method),
        }
        for cv, mk in makers.items():
            np.random.seed(int(rng.integers(0, 2**31 - 1)))
            try:
                out.append((cv, mk()))
            except Exception as e:      # construction is not this check's subject
                out.append((cv, e))
    return out


def run(ctx):
    thorough = ctx.tier == 'thorough'
    ctx.rule = ('every table printed by Result.summary()/str() for results of the real evaluation routines must be the '
                'table ResultSummary.tla derives from the values the public accessors return; summary() must not raise')
    r = ctx.tlc('MC_ResultSummary', cfg(not thorough), name='model', timeout=900)
    ctx.exhaustive = True
    # ---- specification -> implementation: every finished table of the small grid through the real summary()
    re_ = ctx.tlc('MC_ResultSummary', EMIT_CFG, name='emit', timeout=900)
    if re_.n_emitted < 1000:
        raise MachineryError(f'vacuous: only {re_.n_emitted} tables emitted')
    nrep = 0
    seen_cls = set()
    for k, vec in enumerate(re_.iter_emitted()):
        if not thorough and vec['inp']['n'] == 2 and (k + ctx.seed) % 4:
            continue
        nrep += 1
        ctx.count()
        for d in vec['doc']:
            if d['kind'] == 'row':
                seen_cls.add((d['pz']['cls'], d['pn']['cls'], d['mean']['cls'], d['sem']['cls']))
        bad = replay_vector(vec)
        if bad:
            ctx.violation(f"X02/replay/{vec['inp']['cv']}/{vec['inp']['tt']}/{bad[0]}",
                          f"summary() of a result whose accessors return the specification's values does not print "
                          f"the specification's table ({bad[0]})", {'vector': vec, 'detail': bad[1]})
    ctx.traces += nrep
    ctx.extra['replayed_tables'] = nrep
    ctx.extra['replayed_row_classes'] = len(seen_cls)
    rng = np.random.default_rng(1000 + ctx.seed)
    results = make_results(rng, thorough)
    classes = {(cv, tt): 0 for cv in ('fixed', 'bootstrap_rdm', 'bootstrap_pattern', 'dual_bootstrap',
                                      'bootstrap_crossval', 'crossvalidation')
               for tt in ('t-test', 'bootstrap', 'ranksum')}
    traces, origin = [], []
    cellcls = {}
    for cv, res in results:
        if isinstance(res, Exception):
            ctx.unsupported_case(f'construct/{cv}', repr(res))
            continue
        for tt in ('t-test', 'bootstrap', 'ranksum'):
            classes[(cv, tt)] += 1
            ctx.count()
            for how in ('summary', 'str'):
                if how == 'str' and tt != 't-test':
                    continue
                try:
                    text = res.summary(test_type=tt) if how == 'summary' else str(res)
                except Exception as e:
                    try:
                        res.test_zero(test_type=tt)
                        refused = False
                    except ValueError:
                        refused = False      # summary() documents by its own except clause that it shows NaN then
                    except Exception as e2:
                        refused = type(e2) is type(e)
                    if refused:
                        # the test itself is not defined for this kind of result (ranksum needs fold-wise
                        # evaluations) and says so: summary() passing that refusal on is outside this check
                        ctx.unsupported_case(f'test refused by test_zero/{cv}/{tt}', repr(e))
                        continue
                    ctx.violation(f'X02/raises/{cv}/{tt}/{type(e).__name__}',
                                  f'Result.summary(test_type={tt!r}) raises {type(e).__name__} for a {cv} result '
                                  f'({str(e)[:80]})', {'cv': cv, 'tt': tt, 'how': how})
                    continue
                try:
                    ev = parse_summary(text, res, tt)
                except OverflowError:
                    ctx.unsupported_case('value outside the integer domain / on the threshold')
                    continue
                except ValueError as e:
                    ctx.violation(f'X02/shape/{cv}/{tt}/{e}', 'the printed summary has no table shape',
                                  {'cv': cv, 'tt': tt, 'text': text})
                    continue
                for row in ev['rows']:
                    for c in ('pz', 'pn', 'sem'):
                        cellcls[(c, row[c]['cls'])] = cellcls.get((c, row[c]['cls']), 0) + 1
                traces.append([ev])
                origin.append((cv, tt, how, text))
                ctx.nontriv((cv, tt, ev['lens'], ev['means'], ev['pz']))
    missing = [k for k, v in classes.items() if v == 0]
    if missing:
        raise MachineryError(f'vacuous: no result constructed for classes {missing}')
    rejected = ctx.validate('MC_Trace_ResultSummary', TRACE_CFG, traces, name='trace_summary', timeout=600)
    for i, diag in rejected:
        if i < 0:
            raise MachineryError(f'trace specification failed: {diag}')
        cv, tt, how, text = origin[i]
        clauses = sorted(diag[0].get('clauses', ['?'])) if diag else ['?']
        ctx.violation(f'X02/table/{cv}/{tt}/{"+".join(clauses)}',
                      f'the table printed for a {cv} result with test_type={tt!r} is not the table the specification '
                      f'derives from the accessor values (clauses {clauses})', {'event': traces[i][0], 'text': text})
    ctx.sample({'event': traces[0][0], 'text': origin[0][3]}) if traces else None
    # ---- self-test: corruptions of an event must all be rejected.  The base event is built from a table the
    # SPECIFICATION emitted (not from the implementation, which a faulty tree may have made unacceptable throughout)
    base = None
    for vec in re_.iter_emitted():
        rws = [d for d in vec['doc'] if d['kind'] == 'row']
        if rws[0]['pz']['cls'] == 'num' and vec['inp']['means'][0] != NAN:
            i_ = vec['inp']
            base = {'cv': i_['cv'], 'tt': i_['tt'], 'n': i_['n'], 'headn': i_['n'], 'headcv': i_['cv'],
                    'lens': i_['lens'], 'rule': vec['doc'][0]['len'], 'means': i_['means'], 'sems': i_['sems'],
                    'pz': i_['pz'], 'pn': i_['pn'], 'footer': vec['doc'][-1]['which'],
                    'rows': [{'pad': d['pad'], 'len': d['len'],
                              **{c: dict(d[c], tie=False) for c in ('mean', 'sem', 'pz', 'pn')}} for d in rws]}
            break
    if base is None:
        raise MachineryError('self-test impossible: no emitted table with a numeric p-value cell')
    ok0 = ctx.validate('MC_Trace_ResultSummary', TRACE_CFG, [[base]], name='trace_selftest_base', timeout=600)
    if ok0:
        raise MachineryError(f'self-test: the uncorrupted specification table is rejected: {ok0}')
    ctx.traces -= 1
    muts = []
    for name, f in (('cls', lambda e: e['rows'][0]['pz'].update(cls='lt')),
                    ('txt', lambda e: e['rows'][0]['pz'].update(txt=e['rows'][0]['pz']['txt'] + 1)),
                    ('pad', lambda e: e['rows'][0].update(pad=e['rows'][0]['pad'] + 1)),
                    ('footer', lambda e: e.update(footer='ranksum' if e['footer'] != 'ranksum' else 'boot')),
                    ('rule', lambda e: e.update(rule=e['rule'] + 1)),
                    ('mean', lambda e: e['means'].__setitem__(0, (e['means'][0] if e['means'][0] != NAN else 0) + 5000)),
                    ('rowcount', lambda e: e['rows'].pop())):
        e = copy.deepcopy(base)
        f(e)
        muts.append((name, [e]))
    rj = ctx.validate('MC_Trace_ResultSummary', TRACE_CFG, [m[1] for m in muts], name='trace_selftest', timeout=600)
    ctx.traces -= len(muts) - len(rj)       # corrupted traces are not validated behaviours
    if len(rj) != len(muts):
        acc = [muts[i][0] for i in range(len(muts)) if i not in {j for j, _ in rj}]
        raise MachineryError(f'self-test: corrupted traces accepted: {acc}')
    ctx.extra['classes'] = {f'{k[0]}/{k[1]}': v for k, v in classes.items()}
    ctx.extra['cell_classes_seen'] = {f'{k[0]}:{k[1]}': v for k, v in sorted(cellcls.items())}
    ctx.extra['selftest_corruptions_rejected'] = [m[0] for m in muts]
    ctx.assumptions += ['numbers are logged in micro-units; cells on an exact rounding tie are compared by class only',
                        'Result objects come from the real evaluation routines (N=16 bootstrap samples); the numbers '
                        'in the table are taken from the public accessors (C06 decides those)']
