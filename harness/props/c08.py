"""C08 - Fitted model parameters maximise the training criterion within constraints.

Specification: specs/Fitting.tla (on RdmsStore).  A problem = (basis set from an integer full-rank catalogue,
integer training stack, pattern_idx with / without repeats, any order); RestrictV = RdmsStore!SubsamplePats
(what the fit sees, with bootstrap multiplicity; deps = data tokens among the selected conditions:
DepsSelected, Multiplicity, OrderFree); Predict(theta) = SUM theta_k basis_k with Additive / Homogeneous as TLC
theorems; the ADVERSARY picks a competitor (weight grid -2..2 incl. its non-negative part, a candidate index,
<<segment, w/4>>); for one training RDM the exact optimum adj(G) b is emitted and for K = 2 TLC decides
ExactOptimal itself.

S -> I  every emitted (problem, competitor) pair: fit_regress, fit_regress_nn (cosine, corr, cosine_cov, corr_cov;
        sigma_k none / given; normalize on / off), fit_select, fit_interpolate, a sample of fit_optimize(_positive);
        score(fit) >= score(competitor) - tol by the implementation's compare on the restricted training data;
        harness-side competitors (+-1e-3 along every weight, 200 random; 41-point grid per segment); constraints;
        exact direction; token inspection of what the fitter's pool_rdm / compare received; perturbation replay of
        model entries at unselected conditions; g-h exactly on the integer grid ("lin" behaviours).
I -> S  fit calls recorded inside crossval / on bootstrap samples validated by Trace_Fitting.tla.
"""
from __future__ import annotations

import json
import multiprocessing as mp

import numpy as np

from harness import fitting as FT
from harness.core import MachineryError

NPROC = 8
INVS = ['DepsSelected', 'Multiplicity', 'OrderFree', 'RelabelFree', 'ExactOptimal', 'Additive', 'Homogeneous', 'FamilyBijection',
        'EmitF']


def cfg(nr, nc, *, cat, trainmax=3, rset='R12', thin_r=1, thin_1=1, thin_t=1, pats='Pat3', compmax=2, lingrid=1, init='FInit',
        trace=False, kinds='NoKinds', maxfits=0):
    s = '\n'.join(['CONSTANTS', f'  NR = {nr}', f'  NC = {nc}', '  MaxObj = 1', '  MaxRows = 9', '  MaxPats = 9',
                   '  Depth = 0', '  NanPairs <- NanPairsNone', '  ArgLevel = 2', '  EmitMod = 1', '  Ops <- NoOps',
                   f'  Catalogue <- {cat}', f'  InterpOnly = {"TRUE" if init == "IInit" else "FALSE"}', f'  TrainMax = {trainmax}', f'  RSet <- {rset}', f'  ThinR = {thin_r}',
                   f'  Thin1 = {thin_1}', f'  ThinT = {thin_t}', f'  PatSels <- {pats}', f'  CompMax = {compmax}', f'  LinGrid = {lingrid}', '  NFam = 4', f'  FitKinds <- {kinds}', f'  MaxFits = {maxfits}']) + '\n'
    if trace:
        return s + 'SPECIFICATION TSpec\nCHECK_DEADLOCK FALSE\n'
    return s + f'INIT {init}\nNEXT FNext\n' + ''.join(f'INVARIANT {i}\n' for i in INVS) + 'PROPERTY ModelFrame\nCHECK_DEADLOCK FALSE\n'


def _prob_job(args):
    rec, comps, nc, seed, with_opt = args
    rng = np.random.default_rng(seed)
    try:
        out, n_eval, stats = FT.check_problem(rec, comps, nc, rng, with_optimize=with_opt)
    except MachineryError as ex:
        return ('machinery', str(ex))
    except Exception:
        import traceback
        return ('machinery', 'unexpected exception in check_problem on ' + json.dumps({k: rec[k] for k in ('basis', 'train', 'pidx')})
                + '\n' + traceback.format_exc())
    return (out, n_eval, stats, len(comps))


def run_fit(ctx, name, nr, nc, opt_every=0, **kw):
    r = ctx.tlc('MC_Fitting', cfg(nr, nc, **kw), name=name, timeout=3000, workers=NPROC)
    if not r.n_emitted:
        raise MachineryError(f'{name}: TLC emitted nothing')
    groups = {}
    for o in r.iter_emitted():
        key = (o['bid'], json.dumps(o['train']), json.dumps(o['pidx']))
        g = groups.setdefault(key, {'rec': None, 'comps': []})
        if o['t'] == 'prob':
            g['rec'] = o
        else:
            g['comps'].append({'k': o['k'], 'v': o['v']})
    if any(g['rec'] is None for g in groups.values()):
        raise MachineryError(f'{name}: a competitor was emitted without its problem')
    keys = sorted(groups)
    mid = groups[keys[len(keys) // 2]]
    ctx.sample({'run': name, 'problem': {k: mid['rec'][k] for k in ('basis', 'train', 'pidx', 'tmpl', 'deps', 'exact')},
                'n_competitors_from_tlc': len(mid['comps'])})
    jobs = [(groups[k]['rec'], groups[k]['comps'], nc, [ctx.seed, i], (0 if not (opt_every and i % opt_every == 0) else (2 if i % (4 * opt_every) == 0 else 1)))
            for i, k in enumerate(keys)]
    summ = {'problems': 0, 'pairs': 0, 'exact_directions_checked': 0, 'max_margin': {}}
    with mp.Pool(NPROC) as pool:
        for res in pool.imap_unordered(_prob_job, jobs, chunksize=4):
            if res[0] == 'machinery':
                raise MachineryError(res[1])
            out, n_eval, stats, ncomp = res
            ctx.count(n_eval)
            summ['problems'] += 1
            summ['pairs'] += ncomp
            summ['exact_directions_checked'] += stats['exact_checked']
            for k, v in stats['margin'].items():
                kk = f'{k[0]}/{k[1]}/sigma={k[2]}/multi={k[3]}/rep={k[4]}'
                summ['max_margin'][kk] = max(summ['max_margin'].get(kk, -np.inf), v)
            for key, what, case in out:
                ctx.violation(key, what, dict(case, run=name))
    for k in keys:
        rec = groups[k]['rec']
        ctx.nontriv(('f', name) + k)
    ctx.traces += summ['pairs']
    ctx.extra.setdefault('fit_runs', {})[name] = summ
    if summ['pairs'] == 0 or (summ['exact_directions_checked'] == 0 and '1' in kw.get('rset', 'R12') and kw.get('init') != 'IInit'):
        raise MachineryError(f'{name}: vacuous (no competitor pairs or no exact direction compared)')
    return summ


def _lin_job(args):
    base, lines, nc = args
    out = []
    for j, line in enumerate(lines):
        i = base + j
        # basis storage dtype x integer / fractional weights rotate over the emitted states
        out += FT.check_lin(json.loads(line), nc, dtype=FT.DTYPES[i % 4], scale=(1.0 if (i // 4) % 2 == 0 else 0.25),
                            index_kind=(i // 8) % 3)
    return out, len(lines)


def run_lin(ctx, name, nr, nc, **kw):
    r = ctx.tlc('MC_Fitting', cfg(nr, nc, init='LInit', trainmax=0, **kw), name=name, timeout=3000, workers=NPROC)
    if not r.n_emitted:
        raise MachineryError(f'{name}: TLC emitted nothing')
    ctx.sample({'run': name, 'lin': next(r.iter_emitted())})
    n = 0
    with mp.Pool(NPROC) as pool:
        for out, cnt in pool.imap_unordered(_lin_job, ((k * 300, chunk, nc) for k, chunk in enumerate(r.iter_lines(300)))):
            n += cnt
            ctx.count(cnt * 12)
            for key, what, case in out:
                ctx.violation(key, what, dict(case, run=name))
    ctx.traces += n
    ctx.extra.setdefault('lin_runs', {})[name] = n
    return n


def run_model(ctx, name, nr, nc, **kw):
    """model families (index <-> subset) and the bookkeeping / defaults / dictionary form of the model classes"""
    r = ctx.tlc('MC_Fitting', cfg(nr, nc, init='MInit', trainmax=0, **kw), name=name, timeout=3000, workers=NPROC)
    if not r.n_emitted:
        raise MachineryError(f'{name}: TLC emitted nothing')
    nf = nm = 0
    for o in r.iter_emitted():
        if o['t'] == 'fam':
            res = FT.check_family(o)
            nf += 1
            if o['n'] >= 3 and len(o['subset']) >= 2:
                ctx.nontriv(('fam', o['n'], o['i']))
                if nf % 7 == 0:
                    ctx.sample({'run': name, 'family': o})
        else:
            res = FT.check_model(o, nc)
            nm += 1
        ctx.count(6)
        for key, what, case in res:
            ctx.violation(key, what, dict(case, run=name))
    ctx.traces += nf + nm
    ctx.extra.setdefault('model_runs', {})[name] = {'family_members': nf, 'bases': nm}
    if nf < 15 or nm < 1:
        raise MachineryError(f'{name}: vacuous model run ({nf} family members, {nm} bases)')


def run_sessions(ctx, name, nr, nc, **kw):
    """several fits in a row on ONE model object: Fit leaves the model and the data alone (ModelFrame)"""
    r = ctx.tlc('MC_Fitting', cfg(nr, nc, init='SInit', kinds='FitKindsA', maxfits=2, **kw), name=name, timeout=3000, workers=NPROC)
    if not r.n_emitted:
        raise MachineryError(f'{name}: TLC emitted no session')
    ctx.sample({'run': name, 'session': next(r.iter_emitted())})
    n = 0
    with mp.Pool(NPROC) as pool:
        for out, cnt in pool.imap_unordered(_sess_job, ((chunk, nc) for chunk in r.iter_lines(40))):
            n += cnt
            ctx.count(cnt * 4)
            for key, what, case in out:
                ctx.violation(key, what, dict(case, run=name))
    ctx.traces += n
    ctx.extra.setdefault('session_runs', {})[name] = n


def _sess_job(args):
    lines, nc = args
    out = []
    for line in lines:
        out += FT.check_session(json.loads(line), nc)
    return out, len(lines)


def _trace_job(args):
    seed, const = args
    try:
        if seed % 6 == 5:
            return seed, FT.record_family_trace(seed)
        if seed % 6 == 4:
            return seed, FT.record_session_trace(seed, const)
        return seed, FT.record_trace(seed, const)
    except np.linalg.LinAlgError:
        return seed, {'skip': 'singular'}
    except Exception as ex:
        return seed, {'error': f'{type(ex).__name__}', 'msg': f'{type(ex).__name__}: {ex}'}


def run_traces(ctx, ntr):
    const = {'NR': 3, 'NC': 6}
    with mp.Pool(NPROC) as pool:
        recs = pool.map(_trace_job, [(ctx.seed * 100003 + i, const) for i in range(ntr)], chunksize=4)
    traces, meta = [], []
    for seed, t in recs:
        if t.get('error'):
            ctx.violation(f"C08/trace/raises/{t['error']}", f"recorded driver call raised inside the documented contract: {t['msg']}",
                          {'seed': seed})
            continue
        if t.get('skip') or not t['ev']:
            ctx.unsupported_case('trace/no-fit-call', 'driver produced no admissible fit call (singular restricted basis / too few conditions)')
            continue
        traces.append(t)
        meta.append(seed)
        ctx.count(sum(1 + len(e.get('comps', [])) for e in t['ev']))
    if len(traces) < 0.4 * ntr:
        raise MachineryError(f'only {len(traces)} of {ntr} recorded fit sessions are usable')
    # binding self-test
    corrupt = []
    fit_tr = next(t for t in traces if t['hdr']['fitter'] not in ('family', 'session'))
    se_tr = next(t for t in traces if t['hdr']['fitter'] == 'session')
    ts = json.loads(json.dumps(se_tr))
    ts['ev'][-1]['mfp'] += 1
    corrupt.append(ts)
    fam_tr = next(t for t in traces if t['hdr']['fitter'] == 'family' and len(t['ev'][-1]['subset']) >= 1)
    tf = json.loads(json.dumps(fam_tr))
    tf['ev'][-1]['subset'] = [x + 1 for x in tf['ev'][-1]['subset']]
    tf['ev'][-1]['rows'] = list(tf['ev'][-1]['subset'])
    corrupt.append(tf)
    t0 = json.loads(json.dumps(fit_tr))
    t0['ev'][0]['comps'][0]['s9'] = t0['ev'][0]['s9'] + t0['hdr']['tol9'] + 5
    corrupt.append(t0)
    t1 = json.loads(json.dumps(fit_tr))
    row = t1['ev'][0]['tok'][0]
    k = next(i for i, v in enumerate(row) if v > 0)
    row[k] += 1
    corrupt.append(t1)
    rejected = ctx.validate('MC_Trace_Fitting', cfg(const['NR'], const['NC'], cat='Cat4', trainmax=0, trace=True), traces + corrupt,
                            name='fit_traces', timeout=1500)
    rej = {i: d for i, d in rejected}
    for j in range(len(corrupt)):
        if len(traces) + j not in rej:
            raise MachineryError('binding self-test failed: a corrupted recorded value was accepted by Trace_Fitting')
    ctx.extra['selftest_corrupted_traces_rejected'] = len(corrupt)
    for idx, diag in rejected:
        if idx >= len(traces):
            continue
        if idx < 0:
            raise MachineryError(f'Trace_Fitting reported an invariant failure: {diag}')
        d = diag[0] if diag else {}
        why = d.get('why', 'not-accepted')
        if why == 'not-accepted':
            raise MachineryError(f'recorder produced a trace the specification cannot step through: seed {meta[idx]}')
        hdr = traces[idx]['hdr']
        if hdr['fitter'] == 'session':
            ev = traces[idx]['ev'][d.get('l', 1) - 1]
            ctx.violation(f"C08/frame/trace/{ev['fit'][0]}/{ev['fit'][1]}/{why}", 'recorded session of fits on one model object leaves the specification',
                          {'seed': meta[idx], 'diag': d, 'event': ev, 'hdr': hdr})
            continue
        if hdr['fitter'] == 'family':
            ctx.violation(f'C08/family/trace/{why}', 'recorded ModelFamily member is not the subset the specification lists for its index',
                          {'seed': meta[idx], 'diag': d, 'event': traces[idx]['ev'][d.get('l', 1) - 1]})
            continue
        clause = {'data-entries': 'f', 'beaten': {'fit_regress': 'a', 'fit_regress_nn': 'b', 'fit_select': 'c',
                                                  'fit_interpolate': 'd'}[hdr['fitter']],
                  'negative-weight': 'b', 'not-unit-norm': 'e', 'not-adjacent-convex': 'd', 'index-range': 'c'}.get(why, 'a')
        ev = traces[idx]['ev'][d.get('l', 1) - 1]
        if why == 'beaten' and hdr['fitter'] == 'fit_interpolate' and (ev['s9'] <= 0 or min(c['s9'] for c in ev['comps']) <= 0):
            # the same class as seen spec -> impl: one key for one defect
            ctx.violation(f"C08/d/fit_interpolate/{hdr['method']}/beaten/non-positive-similarity-on-segment",
                          'another mixture of two adjacent RDMs scores higher (recorded fit call)',
                          {'seed': meta[idx], 'hdr': hdr, 'diag': d, 'event': ev})
            continue
        ctx.violation(f"C08/{clause}/trace/{hdr['fitter']}/{why}", 'recorded fit call is not explained by the specification',
                      {'seed': meta[idx], 'hdr': hdr, 'diag': d, 'event': traces[idx]['ev'][d.get('l', 1) - 1]})
    ctx.extra['recorded_fit_sessions_validated'] = len(traces)


def run(ctx):
    ctx.rule = ('TLC enumerates problems (catalogue basis set x integer training stack x pattern_idx with/without repeats) and for '
                'each every competitor of the grid; every (problem, competitor) pair is executed on the real fitters and scored '
                'by the implementation\'s compare; non-trivial = every problem (full rank, non-constant restricted data by the '
                'enabling conditions of the specification); plus "lin" behaviours (theta1, theta2, c) for predict / predict_rdm / '
                'model_from_dict, and recorded fit calls validated by Trace_Fitting')
    ctx.assumptions = ['scores are computed by the implementation\'s own compare (C03 checks compare)',
                       'tolerances: 1e-7 closed-form cosine/corr, 1e-5 whitened (conjugate gradient, rtol 1e-5 inside fit and pooling), '
                       '1e-4 fit_interpolate (bounded scalar search), 1e-3 multi-start BFGS',
                       'ridge weight 0; sigma_k none or one SPD matrix; ModelInterpolate compared on theta >= 0 (its parameter space)']
    thorough = ctx.tier == 'thorough'
    for key, what, case in FT.check_defaults(4, [[1, 2, 3, 1, 2, 1], [3, 1, 0, 2, 0, 1], [0, 1, 1, 3, 2, 2]]):
        ctx.violation(key, what, case)
    ctx.count(4)
    # non-negative least squares terminates on rescaled bases (fixed probes; every fit runs under a per-call alarm)
    pv, pn = FT.check_nn_probes()
    ctx.count(pn)
    for key, what, case in pv:
        ctx.violation(key, what, case)
    if thorough:
        run_fit(ctx, 'f_3', 3, 3, cat='Cat3', trainmax=3, rset='R123', thin_1=2, thin_t=401, pats='Pat3', opt_every=25)
        run_fit(ctx, 'f_4_r1', 3, 4, cat='Cat4', trainmax=2, rset='R1', thin_r=1, thin_1=29, pats='Pat4', opt_every=25)
        run_fit(ctx, 'f_4_r23', 3, 4, cat='Cat4', trainmax=2, rset='R23', thin_r=13, thin_t=499, pats='Pat4', opt_every=25)
        run_fit(ctx, 'f_interp', 3, 4, cat='CatI4', init='IInit', trainmax=2, rset='R12', thin_r=13, thin_1=1, thin_t=31,
                pats='Pat4')
        run_lin(ctx, 'lin_3', 3, 3, cat='Cat3', lingrid=2)
        run_lin(ctx, 'lin_4', 3, 4, cat='Cat4', lingrid=1)
        run_model(ctx, 'model_4', 3, 4, cat='Cat4')
        run_sessions(ctx, 'sess_4', 3, 4, cat='Cat4', trainmax=2, rset='R12', thin_r=13, thin_1=19, thin_t=499)
        run_model(ctx, 'model_3', 3, 3, cat='Cat3')
    else:
        run_fit(ctx, 'f_3', 3, 3, cat='Cat3', trainmax=3, rset='R12', thin_r=1, thin_1=5, thin_t=61, pats='Pat3', opt_every=10)
        run_fit(ctx, 'f_4', 3, 4, cat='Cat4', trainmax=2, rset='R12', thin_r=13, thin_1=5, thin_t=61, pats='Pat4', opt_every=10)
        # paths of 4-5 RDMs for selection / interpolation models: competitors over ALL segments
        run_fit(ctx, 'f_interp', 3, 4, cat='CatI4', init='IInit', trainmax=2, rset='R12', thin_r=13, thin_1=5, thin_t=131,
                pats='Pat4Few')
        run_lin(ctx, 'lin_4', 3, 4, cat='Cat4K3', lingrid=1)
        run_model(ctx, 'model_4', 3, 4, cat='Cat4')
        # sessions: two fits in a row (every ordered pair of 8 fitter x method kinds) on ONE model object
        run_sessions(ctx, 'sess_4', 3, 4, cat='Cat4', trainmax=2, rset='R12', thin_r=13, thin_1=29, thin_t=997)
    ctx.exhaustive = thorough
    run_traces(ctx, 600 if thorough else 240)
