"""C14 - Noise covariance is the pooled residual covariance; precision is its inverse.

Specification: specs/NoiseCov.tla.  An input is a sequence of blocks (label vector + integer data
scaled by the lcm of the group sizes); the staged actions Resid -> CrossProd -> Dof -> Full compute
the exact definition (integer cross-product, dof = observations - conditions or the dof passed,
per list element its own dof, Full as rationals <<num, den>>).  TLC checks the theorems of the
definition in every terminal state (SymFull, RowOrderInv, MeasEqUnb, ListElementwise, MomentForm,
DofRule, GramPSD, ShrinkGrid) and emits every terminal state as a test vector.

S -> I: every vector is instantiated in a flavour (float64 | float32 | int64 data, list vs 3-D
array, dof None / scalar / list as list | ndarray | tuple, int | str condition labels) and run
through cov_from_residuals / cov_from_measurements / cov_from_unbalanced and prec_from_* with all
four methods (harness/noisecov.py:check_vector): exact for 'full' and 'diag', relations only for the
shrinkage methods (the property does not state the intensity), agreement of the two dataset based
estimators on balanced designs, one estimate per list element, inputs unmodified, prec @ cov = I.

I -> S: numpy-generated larger designs (up to 5 conditions x 5 repetitions, 6 channels, lists of
up to 3) are run through the estimators; the outputs, logged as scaled integers, are validated by
specs/Trace_NoiseCov.tla which recomputes cross-product and dof in TLC.

Self-tests on every run (machinery errors if they fail): a corrupted expected value must produce a
violation in check_vector; a corrupted recorded value must be rejected by the trace specification.
"""
from __future__ import annotations

import copy
import hashlib
import json
import multiprocessing as mp

import numpy as np

from harness import noisecov as N
from harness.core import MachineryError

THEOREMS = ['TypeOK', 'ResidSumZero', 'SymFull', 'DiagNonNeg', 'RowOrderInv', 'MeasEqUnb',
            'ListElementwise', 'MomentForm', 'DofRule', 'GramPSD', 'ShrinkGrid']


def _set(xs):
    return '{' + ', '.join(str(x) for x in xs) + '}'


def cfg(*, init, cs, maxrep, maxn, ps, vals, forms, dofopts, dofvals, klist=2, ndraw=1, emitmod=1,
        theorems=THEOREMS, emit=True, spec=None):
    lines = ['CONSTANTS', f'  Cs = {_set(cs)}', f'  MaxRep = {maxrep}', f'  MaxN = {maxn}', f'  Ps = {_set(ps)}',
             f'  Vals <- {vals}', f'  Forms = {_set(forms)}', f'  DofOpts = {_set(dofopts)}',
             f'  DofVals = {_set(dofvals)}', f'  KList = {klist}', f'  NDraw = {ndraw}', f'  EmitMod = {emitmod}']
    if spec:
        lines.append(f'SPECIFICATION {spec}')
    else:
        lines += [f'INIT {init}', 'NEXT Next']
    lines += [f'INVARIANT {t}' for t in theorems]
    if emit:
        lines.append('INVARIANT Emit')
    lines.append('CHECK_DEADLOCK FALSE')
    return '\n'.join(lines) + '\n'


TRACE_CFG = cfg(init=None, cs=[2], maxrep=6, maxn=40, ps=[1], vals='ValsAny', forms=[1], dofopts=[0], dofvals=[1],
                theorems=['SymFull', 'MomentForm', 'DofRule', 'MeasEqUnb', 'GramPSD', 'DiagNonNeg'], emit=False,
                spec='TSpec')


# ------------------------------------------------------------------ S -> I
def _replay_chunk(args):
    import warnings
    warnings.filterwarnings('ignore')
    np.seterr(all='ignore')
    base, lines = args
    viol, unsup, stats, nontriv, samples = [], {}, {}, [], []
    for j, line in enumerate(lines):
        vec = json.loads(line)
        fd = N.check_vector(vec, base + j)
        for k, v in fd.stats.items():
            stats[k] = max(stats.get(k, 0), v) if k.startswith('prec_max') else stats.get(k, 0) + v
        for c, m in fd.unsup:
            u = unsup.setdefault(c, [0, m])
            u[0] += 1
        seen = set()
        for key, what, det in fd.viol:
            if key in seen:
                continue
            seen.add(key)
            viol.append((key, what, det))
        if N.nontrivial_key(vec):
            nontriv.append(hashlib.sha1(line.strip().encode()).hexdigest()[:16])
    return len(lines), viol, unsup, stats, nontriv


def replay_all(ctx, r, totals):
    def jobs():
        base = 0
        for chunk in r.iter_lines(200):
            yield (base, chunk)
            base += len(chunk)
    n = 0
    with mp.Pool(16) as pool:
        for cnt, viol, unsup, stats, nontriv in pool.imap_unordered(_replay_chunk, jobs()):
            n += cnt
            for k, v in stats.items():
                totals[k] = max(totals.get(k, 0), v) if k.startswith('prec_max') else totals.get(k, 0) + v
            ctx.count(stats.get('calls', 0))
            for c, (m, msg) in unsup.items():
                for _ in range(m):
                    ctx.unsupported_case(c, msg)
            for line in nontriv:
                ctx.nontriv(line)
            for key, what, det in viol:
                ctx.violation(key, what, det)
    return n


def selftest_vector(vec):
    """binding S -> I: a corrupted expected value must be noticed"""
    bad = copy.deepcopy(vec)
    bad['full'][0][0][0][0] += bad['full'][0][0][0][1]
    fd = N.check_vector(bad, 0)
    return any(k.startswith('C14/a/') or k.startswith('C14/b/') or k.startswith('C14/c/') for k, _, _ in fd.viol)


def selftest_fingerprint():
    """binding of clause f: the fingerprint must see an in-place change of Dataset.measurements made
    through a VIEW, of an obs descriptor, of one list element and of a dof list"""
    vec = {'form': 5, 'P': 2, 'dofopt': 2, 'dofv': [2, 3],
           'blocks': [{'lab': [1, 1, 1], 'x': [[0, 3], [3, 0], [6, 3]]}, {'lab': [1, 2, 1, 2], 'x': [[0, 2], [2, 2], [4, 0], [0, 0]]}]}
    for mutate in (lambda d, f: d[0].measurements.T.__isub__(1.0),
                   lambda d, f: d[1].obs_descriptors['cond'].__setitem__(0, d[1].obs_descriptors['cond'][1]),
                   lambda d, f: d[1].measurements.__setitem__((3, 1), 9.0),
                   lambda d, f: f.__setitem__(1, 4)):
        data, dof = N.build_input(vec, {'dtype': 'float64', 'dofcont': 'list', 'labkind': 'int', 'desccont': 'list'})
        before = N.fingerprint((data, dof))
        mutate(data, dof)
        if N.fingerprint((data, dof)) == before:
            raise MachineryError('binding self-test failed: fingerprint does not see a modified input')


# ------------------------------------------------------------------ I -> S
def _record_one(args):
    import warnings
    warnings.filterwarnings('ignore')
    np.seterr(all='ignore')
    seed, i = args
    rng = np.random.default_rng([seed, i])
    vec = N.random_input(rng)
    out = []
    for est in N.estimators_for(vec):
        tr, notes = N.record_trace(vec, est, i)
        out.append((est, tr, notes))
    return vec, out


def record_and_validate(ctx, n_inputs, totals):
    with mp.Pool(16) as pool:
        res = pool.map(_record_one, [(ctx.seed, i) for i in range(n_inputs)], chunksize=8)
    traces, meta = [], []
    for vec, outs in res:
        for est, tr, notes in outs:
            for note in notes:
                kind, method = note[0], note[1]
                totals[f'trace_note_{kind}'] = totals.get(f'trace_note_{kind}', 0) + 1
                fc, dc = N.FORMCLASS[vec['form']], N.DOFCLASS[vec['dofopt']]
                if kind == 'modified':
                    ctx.violation(f'C14/f/{note[2]}_from_{est}/{fc}/input-modified',
                                  f'{note[2]}_from_{est} modified its input', {'vector': vec, 'method': method})
                elif kind == 'shape':
                    ctx.violation(f'C14/e/cov_from_{est}/{dc}/result-shape',
                                  f'cov_from_{est} does not return one matrix per element: got {note[2]}',
                                  {'vector': vec, 'method': method})
                elif kind == 'raises':
                    ctx.violation(f'C14/a/cov_from_{est}/{fc}/{dc}/raises/{note[2].split(":")[0]}'
                                  + ('/int-dtype' if len(note) > 3 and str(note[3]).startswith('int') else ''),
                                  f'cov_from_{est} raises on an admissible input: {note[2]}', {'vector': vec, 'method': method})
                elif kind == 'nonfinite':
                    k = note[2]
                    from harness.noisecov import nan_class
                    num = _xp_of(vec['blocks'][k], vec['P'])
                    if not method.startswith('shrinkage'):
                        ctx.violation(f'C14/{"a" if method == "full" else "b"}/cov_from_{est}/{fc}/{dc}/nonfinite',
                                      f'{method}: non-finite values', {'vector': vec, 'element': k})
                        continue
                    cls = nan_class(method, num, None)
                    if cls in ('zero-residuals', 'zero-variance-channel'):
                        ctx.unsupported_case(f'{method}/{cls}', 'degenerate input: non-finite estimate')
                    else:
                        ctx.violation(f'C14/c/{method}/nan/{cls}', f'{method} returns non-finite values ({cls})',
                                      {'vector': vec, 'element': k})
            if tr is not None:
                traces.append(tr)
                meta.append((vec, est))
                ctx.count(len(tr['calls']))
    if not traces:
        raise MachineryError('no trace recorded')
    # binding self-test: the last trace is a corrupted copy of the first one and must be rejected
    bad = copy.deepcopy(traces[0])
    bad['calls'][0]['num'][0][0] += 1
    traces.append(bad)
    rejected = ctx.validate('MC_Trace_NoiseCov', TRACE_CFG, traces, name='trace_noisecov', timeout=1500)
    rej = {i: d for i, d in rejected}
    if len(traces) - 1 not in rej:
        raise MachineryError('binding self-test failed: a corrupted recorded value was accepted by Trace_NoiseCov')
    first_ok = 0 not in rej
    for idx, diag in rejected:
        if idx == len(traces) - 1:
            continue
        if idx < 0:
            ctx.violation(f'C14/trace/invariant/{diag[0].get("invariant")}',
                          'a theorem of NoiseCov fails on a recorded input', diag[0])
            continue
        d = diag[0] if diag else {}
        if not d:
            raise MachineryError(f'trace {idx} neither accepted nor rejected with a diagnostic')
        if not d.get('enabled', True):
            raise MachineryError(f'recorder produced an input the specification does not admit: {meta[idx][0]}')
        vec, est = meta[idx]
        meth = N.METHODS[d.get('meth', 1) - 1]
        ctx.violation(f"C14/trace/cov_from_{est}/{N.FORMCLASS[vec['form']]}/{N.DOFCLASS[vec['dofopt']]}/"
                      f"{'exact' if d.get('meth', 1) <= 2 else 'shrinkage'}",
                      f"recorded output of cov_from_{est}(method='{meth}') is not explained by Trace_NoiseCov "
                      f"(clause {d.get('clause')})",
                      {'vector': vec, 'estimator': est, 'diag': d, 'logged': traces[idx]['calls'][d.get('l', 1) - 1]})
    totals['traces_recorded'] = len(traces) - 1
    totals['trace_selftest_first_trace_accepted'] = int(first_ok)
    return len(traces) - 1


def _xp_of(block, P):
    x = np.array(block['x'], dtype=np.int64).reshape(len(block['x']), P)
    lab = np.array(block['lab'])
    r = x.astype(float)
    for g in set(block['lab']):
        r[lab == g] -= r[lab == g].mean(axis=0)
    return np.rint(r.T @ r).astype(np.int64)


# ------------------------------------------------------------------ run
def run(ctx):
    thorough = ctx.tier == 'thorough'
    ctx.rule = ('TLC enumerates inputs of NoiseCov (exhaustively over label vectors = designs in every row '
                'order, 0/1 or -1..1 raw data scaled by the lcm of the group sizes, dof options; plus seeded '
                'random draws over conditions 1-4 x repetitions 1-4, channels 1-4, five input forms; size-1 corners: '
                'single-condition Datasets, one repetition per condition with a passed dof, one channel) and emits '
                'each with its exact Full; every vector is run through all applicable estimators x 4 methods x '
                '(cov, prec) in one flavour; non-trivial = distinct vector whose cross-product is not all zero')
    ctx.assumptions = ['numpy linear algebra (eigvalsh, cond, matmul) is trusted for the relational clauses',
                       'shrinkage intensity is not pinned by the property: relations only',
                       'integer (int64, int32) and float32 measurements must give the result of the float64 copy '
                       '(exact oracle) without modifying the input; an exception is a violation',
                       'degenerate inputs (all residuals zero; a zero-variance channel for shrinkage_diag; '
                       'singular covariance for the precision clause) are excluded and counted',
                       'natural dof >= 1 (observations > conditions) for every block when no dof is passed; '
                       'one repetition per condition only with a passed dof']
    selftest_fingerprint()
    runs = []
    dv = [2, 5]
    if thorough:
        runs.append(('ex_lists', dict(init='InitEx', cs=[2], maxrep=2, maxn=3, ps=[1, 2], vals='Vals01',
                                      forms=[2, 3], dofopts=[0, 1, 2], dofvals=dv)))
        runs.append(('ex_dslist', dict(init='InitEx', cs=[1, 2], maxrep=2, maxn=3, ps=[1], vals='Vals01',
                                       forms=[5], dofopts=[0, 2], dofvals=dv)))
        runs.append(('ex_single_pm1', dict(init='InitEx', cs=[1, 2, 3, 4], maxrep=4, maxn=5, ps=[1], vals='ValsPM1',
                                           forms=[1, 4], dofopts=[0], dofvals=[3])))
        runs.append(('ex_single', dict(init='InitEx', cs=[1, 2, 3], maxrep=3, maxn=4, ps=[2], vals='Vals01',
                                       forms=[1, 4], dofopts=[0, 1], dofvals=[3])))
        runs.append(('ex_corner', dict(init='InitEx', cs=[1, 2, 3], maxrep=1, maxn=3, ps=[1, 2], vals='ValsPM1',
                                       forms=[4], dofopts=[0, 1], dofvals=[1, 3])))
        runs.append(('rnd', dict(init='InitRnd', cs=[1, 2, 3, 4], maxrep=4, maxn=16, ps=[1, 2, 3, 4], vals='ValsPM2',
                                 forms=[1, 2, 3, 4, 5], dofopts=[0, 1, 2], dofvals=[1, 2, 3, 5, 7, 11], ndraw=300)))
        runs.append(('rnd3', dict(init='InitRnd', cs=[1, 2, 3, 4], maxrep=4, maxn=12, ps=[2, 3, 4], vals='ValsPM3',
                                  forms=[2, 3, 5], dofopts=[0, 2], dofvals=[1, 4, 9], klist=3, ndraw=60)))
    else:
        runs.append(('ex_lists', dict(init='InitEx', cs=[2], maxrep=2, maxn=3, ps=[1], vals='Vals01',
                                      forms=[2, 3], dofopts=[0, 1, 2], dofvals=dv)))
        runs.append(('ex_single', dict(init='InitEx', cs=[1, 2, 3], maxrep=3, maxn=4, ps=[2], vals='Vals01',
                                       forms=[1, 4], dofopts=[0], dofvals=[3])))
        # size-1 corners: Datasets with a single condition (all rows one label), and one repetition
        # per condition (N = C; admissible only with a passed dof), one and two channels
        runs.append(('ex_corner', dict(init='InitEx', cs=[1, 2, 3], maxrep=1, maxn=3, ps=[1, 2], vals='Vals01',
                                       forms=[4], dofopts=[0, 1], dofvals=[3])))
        runs.append(('rnd', dict(init='InitRnd', cs=[1, 2, 3, 4], maxrep=4, maxn=16, ps=[1, 2, 3, 4], vals='ValsPM2',
                                 forms=[1, 2, 3, 4, 5], dofopts=[0, 1, 2], dofvals=[1, 2, 3, 5, 7, 11], ndraw=30)))
    ctx.exhaustive = False   # exhaustive over the small grids only; the larger space is sampled
    totals = {}
    nvec = 0
    selftested = False
    for name, kw in runs:
        cov = thorough and name == 'ex_lists'
        r = ctx.tlc('MC_NoiseCov', cfg(**kw), name=name, timeout=1700, coverage=cov)
        if not r.n_emitted:
            raise MachineryError(f'TLC emitted no vectors in run {name}')
        if cov:
            ctx.require_coverage(r, ['Resid', 'CrossProd', 'Dof', 'Full'])
        it = r.iter_emitted()
        first = next(it)
        if not selftested:
            for cand in [first] + [v for _, v in zip(range(200), it)]:
                if cand['P'] >= 2 and cand['form'] in (1, 4) and cand['full'][0][0][0][0] > 0:
                    if not selftest_vector(cand):
                        raise MachineryError('binding self-test failed: corrupted expected value not noticed')
                    selftested = True
                    break
        ctx.sample({'run': name, 'vector': first}, cap=3)
        nvec += replay_all(ctx, r, totals)
        totals[f'vectors_{name}'] = r.n_emitted
    if not selftested:
        raise MachineryError('binding self-test could not be run (no suitable vector)')
    ctx.traces += nvec
    ctx.extra['vectors_replayed'] = nvec
    # vacuity guards
    for k, floor in [('exact_compared', 1000), ('shrink_checked', 1000), ('lambda_interior', 100), ('pd_checked', 100),
                     ('prec_checked', 1000), ('d_pairs_compared', 100), ('prec_skipped_singular', 1),
                     ('prec_checked_channel_scaled', 200), ('dataset_calls_int64', 100), ('dataset_calls_int32', 100),
                     ('dataset_calls_float32', 100), ('scaled_calls', 1000), ('scaled_residual_calls_nonzero_column_means', 200),
                     ('single_condition_dataset_calls_measurements', 100),
                     ('single_condition_dataset_calls_unbalanced', 100),
                     ('one_repetition_dataset_calls_measurements', 50),
                     ('one_repetition_dataset_calls_unbalanced', 50)]:
        if totals.get(k, 0) < floor:
            raise MachineryError(f'vacuous run: {k} = {totals.get(k, 0)} < {floor}')
    # implementation -> specification
    n = record_and_validate(ctx, 1500 if thorough else 160, totals)
    ctx.extra['recorded_traces_validated'] = n
    ctx.extra['check_counts'] = totals
    ctx.sample({'check_counts': {k: totals[k] for k in sorted(totals)}}, cap=6)
