"""C15 - Unbalanced (compiled) estimator matches the balanced one, skips missing channels.

Specification: specs/Unbalanced.tla.  TLC enumerates designs (labelings of 3-6 observations, fold
assignments, every pattern of missing channels, six methods, two weightings, optional precision) over
a catalogue of small integer data, computes which observation pairs enter which slot with which factor
and weight, the exact rational RDM for the dot / quadratic kernels and the statistics for correlation /
Poisson, and checks on the definitions themselves: coincidence with the balanced definition on exactly
the design classes the property names (BalancedAnyReps, SingleObsStructure, CrossFoldBalanced,
PoissonCoefficients), "a channel missing everywhere = that channel deleted", "NaN iff a slot has no
admissible pair", independence of the weighting on complete data, first-appearance label order.

spec -> impl: every emitted record is replayed (harness/unbalanced.py) into calc_rdm_unbalanced and
calc_one_similarity in rotating dtype (float64, float32, int64, int32) / layout (C, Fortran,
non-contiguous slice) / label / fold-value flavours, compared at rtol 1e-10, and with calc_rdm where
the definitions coincide; calls with descriptor=None on datasets that already carry an obs descriptor named
'index' (unique-but-permuted / repeated values) and two-step sessions on ONE dataset object (a
cross-validated call without fold descriptor first), the caller's dataset fingerprinted around every call.
impl -> spec: larger random integer designs validated by Trace_Unbalanced.

The compiled engine cannot be rebuilt here: the check first proves that similarity.pyx is the source
the extension was generated from (else exit 2, "compiled engine stale").
"""
from __future__ import annotations

import json
import multiprocessing as mp

import numpy as np

from harness import unbalanced as U
from harness.core import MachineryError

PID = 'C15'
NPROC = 8


def replay(ctx, r, label, floor):
    def jobs():
        base = 0
        for chunk in r.iter_lines(50):
            yield (base, chunk)
            base += len(chunk)
    tot = {'n_rec': 0, 'n_eval': 0, 'nontriv': 0}
    classes, flav = {}, {}
    with mp.Pool(NPROC) as pool:
        for res in pool.imap_unordered(U.replay_chunk, jobs()):
            if 'kernel' in res:
                raise MachineryError(f'kernel disagrees with the exact values of the specification ({label}): {res["kernel"]}')
            for k in tot:
                tot[k] += res[k]
            for c, n in res['classes'].items():
                classes[c] = classes.get(c, 0) + n
            for c, n in res['flavours'].items():
                flav[c] = flav.get(c, 0) + n
            ses = ctx.extra.setdefault('records_by_session', {})
            for c, n in res['sessions'].items():
                ses[c] = ses.get(c, 0) + n
            for key, what, case in res['vio']:
                ctx.violation(f'{PID}/{key}', what, {'run': label, **case})
    if tot['n_rec'] < floor:
        raise MachineryError(f'{label}: only {tot["n_rec"]} records replayed')
    ctx.count(tot['n_eval'])
    ctx.nontrivial_extra += tot['nontriv']
    ctx.traces += tot['n_rec']
    ctx.extra.setdefault('records_by_class', {})[label] = classes
    fl = ctx.extra.setdefault('records_by_flavour', {})
    for c, n in flav.items():
        fl[c] = fl.get(c, 0) + n
    return tot, classes


def selftest(ctx, r):
    """binding: a corrupted expectation must be noticed"""
    for rec in r.iter_emitted():
        if rec['out']['kind'] == 'dot' and rec['w'] == 'number' and not rec['out']['nan'][0] \
                and not rec['usefold'] and rec['m'] == 'euclidean':
            bad = json.loads(json.dumps(rec))
            q = bad['out']['rdm'][0]
            bad['out']['rdm'][0] = [q[0] + q[1], q[1]]
            try:
                U.check_record(bad, 0)
            except U.KernelMismatch:
                pass      # the kernel cross-check notices the corrupted rational
            else:
                raise MachineryError('self-test: corrupted exact value not noticed')
            bad = json.loads(json.dumps(rec))
            for s in bad['out']['self'] + bad['out']['cross']:
                for p in s['pairs']:
                    p['st'] += 1
                if s['val'] != [0, 0]:
                    s['val'] = [0, 0]
            bad['out']['rdm'] = []
            bad['out']['kind'] = 'dotx'
            # consistent corruption of statistics: now the implementation must be reported
            bad['out']['kind'] = 'dot'
            try:
                U.check_record(bad, 0)
                raise MachineryError('self-test: corrupted statistics not noticed')
            except U.KernelMismatch:
                pass
            ctx.extra['selftest_replay'] = 'corrupted exact value and corrupted statistics rejected'
            return
    raise MachineryError('self-test: no suitable record')


def traces(ctx, n):
    seeds = [ctx.seed * 1000003 + i for i in range(n)]
    with mp.Pool(NPROC) as pool:
        res = pool.map(U.trace_job, seeds, chunksize=8)
    evs, meta, skipped = [], [], 0
    for seed, d in res:
        if d is None:
            skipped += 1
            continue
        if 'error' in d:
            ctx.violation(f'{PID}/' + (d['known'] or 'a/raises/trace'), f'calc_rdm_unbalanced raises {d["error"]}',
                          {'seed': seed, **d['rec']})
            continue
        if not d['frac_ok']:
            ctx.violation(f'{PID}/' + (d['known'] or 'a/value/trace/not-a-small-rational'),
                          'returned value is not a rational with a small denominator', {'seed': seed, **d['rec'], 'raw': d['raw']})
            continue
        evs.append([d['ev']])
        meta.append((seed, d))
        ctx.count(1)
    if len(evs) < n // 2:
        raise MachineryError('too few recorded designs')
    # binding self-test: corrupt one recorded exact entry
    bad = None
    for t, (seed, d) in zip(evs, meta):
        if t[0]['exact'] and not all(t[0]['nan']) and d['known'] is None:
            bad = json.loads(json.dumps(t))
            k = bad[0]['nan'].index(False)
            q = bad[0]['rdm'][k]
            bad[0]['rdm'][k] = [q[0] + 1, q[1]]
            break
    batch = evs + ([bad] if bad else [])
    rejected = dict(ctx.validate('MC_Trace_Unbalanced', U.trace_cfg(), batch, name='trace_unb', timeout=1500))
    if bad:
        if (len(batch) - 1) not in rejected:
            raise MachineryError('self-test: a corrupted recorded value was accepted by Trace_Unbalanced')
        rejected.pop(len(batch) - 1)
        ctx.extra['selftest_trace'] = 'corrupted recorded value rejected'
    # correlation / Poisson designs: the kernel finishes from the structure TLC printed
    fin = {}
    with open(ctx.scratch / 'trace_unb' / 'emitted.ndjson') as f:
        for line in f:
            o = json.loads(line)
            if isinstance(o, dict) and 'fin' in o:
                fin[o['fin']] = o['out']
    nfin = 0
    for tid, outrec in fin.items():
        if tid - 1 >= len(evs):
            continue
        seed, d = meta[tid - 1]
        rec = dict(d['rec'], out=outrec)
        _, exp, _, _ = U.expected_rdm(rec)
        nfin += 1
        if not U._same(d['raw'], exp):
            dc = U.design_class(rec)
            ctx.violation(f'{PID}/' + (d['known'] or f"a/value/trace/{rec['m']}/{rec['w']}/" + ('cv' if dc['cv'] else 'nocv')
                                       + '/' + ('complete' if dc['complete'] else 'nan')),
                          'recorded RDM differs from the average over admissible pairs', {'seed': seed, **d['rec'],
                                                                                         'got': d['raw'], 'expected': exp})
    for idx, diag in rejected.items():
        if idx < 0:
            ctx.violation(f'{PID}/trace/invariant/{diag[0].get("invariant")}',
                          'a theorem of Unbalanced fails on a recorded design', diag[0])
            continue
        seed, d = meta[idx]
        g = diag[0] if diag else {}
        if g and not g.get('enabled', True):
            raise MachineryError(f'recorder issued a design outside the domain of the specification: {d["rec"]}')
        rec = d['rec']
        dc = U.design_class(rec)
        exp_nan = (g.get('expected') or {}).get('nan') if g else None
        if g and not g.get('labels', True):
            key = 'a/labels/trace'
        elif d['known'] is None and exp_nan and not all(exp_nan) and all(d['ev']['nan']) and g.get('labels', True) \
                and not g.get('nan', True):
            key = U.POISON
        else:
            key = d['known'] or (f"a/value/trace/{rec['m']}/{rec['w']}/" + ('cv' if dc['cv'] else 'nocv') + '/'
                                 + ('complete' if dc['complete'] else 'nan'))
        ctx.violation(f'{PID}/{key}', 'recorded result is not the result of the definition on the recorded input',
                      {'seed': seed, **rec, 'logged': d['ev'], 'diag': g, 'flavour': d['flavour']})
    ctx.extra['trace'] = {'designs': len(evs), 'degenerate_skipped': skipped, 'finished_by_kernel': nfin}
    return len(evs)


def run(ctx):
    thorough = ctx.tier == 'thorough'
    ctx.extra['engine'] = U.engine_check()
    ctx.rule = ('TLC enumerates designs (labelings x fold assignments x missing-channel patterns x methods x '
                'weightings x precision) over a data catalogue; each emitted record is replayed through '
                'calc_rdm_unbalanced, calc_one_similarity and (where the definitions coincide) calc_rdm in one '
                'dtype/layout/label flavour; non-trivial = design with a repeated condition or a missing channel')
    ctx.assumptions = ['similarity.pyx is the source of the loaded extension module (checked, else exit 2)',
                       'sqrt / log in the kernels of harness/unbalanced.py; slot arithmetic checked against the exact '
                       'TLA+ rationals on every dot / quadratic record',
                       'precision matrices are symmetric (the property speaks of a precision)',
                       'correlation: observations constant on the shared channels excluded (0/0), counted by Adm']
    A = U.ALL_METHODS
    if not thorough:
        runs = [
            ('single', dict(nobs=3, nch=3, nlab=3, design='single', dataids=(1, 2, 3), nanmode='none'), 1, 1500),
            ('reps', dict(nobs=4, nch=2, nlab=3, dataids=(1,), nanmode='none'), 3, 4000),
            ('nan_obs', dict(nobs=3, nch=2, nlab=2, dataids=(2,), nanmode='obs'), 8, 4000),
            ('nan_chan', dict(nobs=4, nch=3, nlab=2, dataids=(3,), nanmode='chan', foldmodes=('none', 'given')), 6, 2500),
            ('foldbal', dict(nobs=6, nch=2, nlab=3, dataids=(1,), nanmode='none', design='foldbal', foldmodes=('given',),
                             methods=('crossnobis', 'poisson_cv', 'euclidean')), 2, 1500),
            # three conditions of which one has no admissible pair of its own needs >= 5 observations
            ('reps5cv', dict(nobs=5, nch=2, nlab=3, dataids=(2,), nanmode='none', foldmodes=('given',),
                             methods=('euclidean', 'poisson_cv'), weightings=('number',), precids=(0,)), 4, 1500),
            # descriptor=None / datasets that already carry an obs descriptor named 'index' (permuted, repeated) /
            # two-step sessions on one dataset object (a cross-validated call without fold descriptor first)
            ('nodesc', dict(nobs=4, nch=2, nlab=2, dataids=(3,), nanmode='none', weightings=('number',),
                            nodescs=(True, False), idxkinds=('none', 'perm', 'rep'), priors=(False, True)), 4, 3000),
        ]
    else:
        runs = [
            ('single', dict(nobs=4, nch=3, nlab=4, design='single', dataids=(1, 2, 3), nanmode='none'), 1, 10000),
            ('single_nan', dict(nobs=3, nch=3, nlab=3, design='single', dataids=(1, 2), nanmode='obs',
                                foldmodes=('none',)), 4, 10000),
            ('reps', dict(nobs=4, nch=3, nlab=3, dataids=(1, 2), nanmode='none'), 3, 10000),
            ('reps5', dict(nobs=5, nch=2, nlab=3, dataids=(3,), nanmode='none', foldmodes=('none',)), 1, 3000),
            ('nan_obs', dict(nobs=3, nch=2, nlab=2, dataids=(1, 2, 3), nanmode='obs'), 6, 20000),
            ('nan_obs4', dict(nobs=4, nch=2, nlab=2, dataids=(2,), nanmode='obs', foldmodes=('none',)), 4, 10000),
            ('nan_chan', dict(nobs=4, nch=3, nlab=3, dataids=(3, 1), nanmode='chan'), 20, 10000),
            ('foldbal', dict(nobs=6, nch=2, nlab=3, dataids=(1, 2), nanmode='none', design='foldbal', foldmodes=('given',),
                             methods=('crossnobis', 'poisson_cv', 'euclidean', 'mahalanobis')), 2, 5000),
            ('foldbal4', dict(nobs=4, nch=3, nlab=2, nfold=2, dataids=(1, 2, 3), nanmode='none', design='foldbal',
                              foldmodes=('given',)), 1, 500),
            ('reps5cv', dict(nobs=5, nch=2, nlab=3, dataids=(2, 3), nanmode='none', foldmodes=('given',),
                             methods=('euclidean', 'poisson_cv', 'crossnobis', 'correlation'), precids=(0, 1)), 8, 8000),
            ('nodesc', dict(nobs=4, nch=2, nlab=3, dataids=(3,), nanmode='none', weightings=('number',),
                            nodescs=(True, False), idxkinds=('none', 'perm', 'rep'), priors=(False, True)), 6, 10000),
            ('nodesc_nan', dict(nobs=3, nch=2, nlab=2, dataids=(2,), nanmode='obs', foldmodes=('none',),
                                nodescs=(True,), idxkinds=('none', 'perm', 'rep'), priors=(False, True)), 4, 3000),
        ]
    ctx.exhaustive = False
    first = None
    seen_classes = set()
    for name, kw, emitmod, floor in runs:
        r = ctx.tlc('MC_Unbalanced', U.cfg(emitmod=emitmod, **kw), name=name, workers=NPROC, timeout=3000)
        if not r.n_emitted:
            raise MachineryError(f'{name}: TLC emitted nothing')
        tot, classes = replay(ctx, r, name, floor)
        seen_classes |= set(classes)
        if first is None:
            first = r
        for rec in r.iter_emitted():
            ctx.sample({'run': name, **{k: rec[k] for k in ('lab', 'fold', 'usefold', 'x', 'valid', 'm', 'w', 'prec')},
                        'conds': rec['out']['conds'], 'rdm': rec['out']['rdm']}, cap=8)
            break
    need = {f'{m}/{w}/{c}/{d}' for m in A for w in ('number', 'equal') for c, d in (('nocv', 'complete'), ('cv', 'complete'),
                                                                                    ('cv', 'nan'))
            if not (c == 'nocv' and m in ('crossnobis', 'poisson_cv'))}
    if not need <= seen_classes:
        raise MachineryError(f'vacuous: configuration classes never replayed: {sorted(need - seen_classes)[:6]}')
    ses = ctx.extra.get('records_by_session', {})
    want = {f'nodesc={a}/index={b}/prior={c}' for a in (True, False) for b in ('none', 'perm', 'rep') for c in (True, False)}
    if not want <= set(ses):
        raise MachineryError(f'vacuous: session / descriptor classes never replayed: {sorted(want - set(ses))}')
    fl = ctx.extra['records_by_flavour']
    if len(fl) < 12:
        raise MachineryError(f'vacuous: only {len(fl)} dtype/layout flavours exercised')
    selftest(ctx, first)
    ctx.extra['recorded_designs_validated'] = traces(ctx, 400 if not thorough else 4000)
