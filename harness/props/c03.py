"""C03 - RDM comparison measures equal their definitions for every pair of RDMs.

Specification: specs/Compare.tla.  Every measure is an exact integer/rational definition (sufficient
statistics [ab, aa, bb] with value ab/sqrt(aa*bb); exact integer V(sigma_k) for the whitened
measures with None / variance vector / matrix as ONE definition; squared Bures fidelity of integer
point configurations in closed form).  TLC checks the theorems of clause g on the whole grid
(Cauchy-Schwarz range, symmetry, self-similarity, pairing, V positive definite, vector sigma = its
diagonal matrix, embeddability, invariance under joint permutation of the conditions through the
condensed index map, swap = transpose) and emits every state as a test vector.

spec -> impl: every vector is replayed through rsatoolbox.rdm.compare and the compare_* functions
with RDMs objects, 2-D and 1-D ndarrays; the last irrational step is the trusted kernel of
harness/compare.py, whose array form is cross-checked against the TLA+ statistics on every vector
and then judges real-valued inputs (float tier).  impl -> spec: calls recorded on integer stacks
larger than the grid are re-evaluated by specs/Trace_Compare.tla in exact (multi-limb) arithmetic.
"""
from __future__ import annotations

import json
import multiprocessing as mp

from harness import compare as C
from harness.core import MachineryError

NONBURES = C.ALL_METHODS[:8]



def _report(ctx, key, what, case):
    """violations of C03; the optimiser quality of neg_riem_dist (a measure C03 does not name: spec growth) is an
    observation, not a violation - see notes/C03.md round 4 and DESIGN.md section 6"""
    if '/riem/' in key and key.endswith('/not-the-minimum'):
        obs = ctx.extra.setdefault('observations', {}).setdefault(key, {'what': what, 'cases': 0, 'first': case})
        obs['cases'] += 1
        return
    ctx.violation(key, what, case)

def read_vcat(r, nc):
    """the exact V matrices TLC printed once for the catalogue, next to the sigma records"""
    for o in r.iter_emitted():
        if isinstance(o, dict) and 'vcat' in o:
            V = o['vcat']
            break
    else:
        raise MachineryError('TLC did not print the V catalogue')
    sig = C.SIGMAS[nc]
    if len(V) != len(sig):
        raise MachineryError('V catalogue and sigma catalogue differ in length')
    # the array-form kernel of V must reproduce the exact integer matrices
    import numpy as np
    for s, v in zip(sig, V):
        if not np.array_equal(C.v_matrix(nc, C.sigma_array(s)), np.array(v, dtype=float)):
            raise MachineryError(f'kernel v_matrix disagrees with the TLA+ V for {s}')
        if nc > 3 and np.min(np.linalg.eigvalsh(np.array(v, dtype=float))) <= 0:
            raise MachineryError(f'V({s}) is not positive definite')
    SH = None
    for o in r.iter_emitted():
        if isinstance(o, dict) and 'shcat' in o:
            SH = o['shcat']
            break
    if SH is None:
        raise MachineryError('TLC did not print the Sigma^ catalogue')
    for s, sh in zip(sig, SH):       # kernel sig_hat against the exact integer matrices
        if not np.array_equal(C.sig_hat(nc, C.sigma_array(s)), np.array(sh, dtype=float)):
            raise MachineryError(f'kernel sig_hat disagrees with the TLA+ Sigma^ for {s}')
    return {'sigmas': sig, 'V': V, 'SH': SH}


def replay(ctx, r, vcat, nc, pool):
    def jobs():
        base = 0
        for chunk in r.iter_lines(150):
            yield (base, chunk, vcat, nc)
            base += len(chunk)
    n = nm = 0
    try:
        for cnt, nev, nontriv, nmoves, bad in pool.imap_unordered(C.replay_chunk, jobs()):
            n += cnt
            nm += nmoves
            ctx.count(nev)
            ctx.nontrivial_extra += nontriv
            for key, what, case in bad:
                _report(ctx, key, what, case)
    except C.KernelMismatch as e:
        raise MachineryError(str(e))
    return n, nm


def run_grid(ctx, pool, name, nc, total, **kw):
    import time
    t0 = time.time()
    r = ctx.tlc('MC_Compare', C.cfg(nc, **kw), name=name, timeout=1700)
    if r.n_emitted < 2:
        raise MachineryError(f'{name}: TLC emitted no test vectors')
    vcat = read_vcat(r, nc)
    first = next(o for o in r.iter_emitted() if isinstance(o, dict) and o.get('t') == 'v')
    if not C.selftest_corrupted_vector(first, vcat, nc):
        raise MachineryError('binding self-test failed: a corrupted expected statistic was not noticed by the replay')
    ctx.extra['selftest_corrupted_vector_noticed'] = ctx.extra.get('selftest_corrupted_vector_noticed', 0) + 1
    n, nm = replay(ctx, r, vcat, nc, pool)
    ctx.traces += n
    info = {'run': name, 'states': r.distinct, 'vectors_replayed': n - nm, 'moves_replayed': nm,
            'tlc_wall_s': round(r.wall, 1), 'total_wall_s': round(time.time() - t0, 1)}
    if total is not None:
        info['grid_before_constraint'] = total
    ctx.extra.setdefault('grid_runs', []).append(info)
    return r


def count_excluded(ctx, r, total, name):
    """initial states = admissible inputs; the rest of the grid was excluded by AdmVec"""
    import re
    m = re.search(r'(\d+) states generated, with (\d+) of them distinct', r.out) or \
        re.search(r'Finished computing initial states: (\d+) distinct state', r.out)
    if not m:
        return
    init = int(m.groups()[-1])
    ctx.extra.setdefault('degenerate_inputs_excluded', {})[name] = {'grid': total, 'admissible': init,
                                                                   'excluded': total - init}


def traces(ctx, pool, nc, ntr):
    jobs = [(ctx.seed * 1000003 + 7919 * nc + i, nc) for i in range(ntr)]
    out = pool.map(C.trace_job, jobs, chunksize=8)
    trs, meta = [], []
    skipped = 0
    for seed, nc_, (events, sk), err in out:
        skipped += sk
        if err is not None:
            ctx.violation('C03/trace/raises', f'compare raises on an admissible integer stack: {err}',
                          {'seed': seed, 'n_cond': nc})
            continue
        if events:
            trs.append(events)
            meta.append(seed)
            ctx.count(len(events))
    stripped = [[{k: v for k, v in ev.items() if k != 'raw'} for ev in t] for t in trs]
    name = f'trace_compare_{nc}'
    # binding self-test: a copy of one session with one recorded value changed must be rejected
    corrupted = next((c for c in (C.corrupt_trace(t) for t in stripped) if c is not None), None)
    if corrupted is None:
        raise MachineryError('no session to corrupt for the binding self-test')
    rejected = ctx.validate('MC_Trace_Compare', C.trace_cfg(nc), stripped + [corrupted], name=name, timeout=1500)
    if not any(i == len(stripped) for i, _ in rejected):
        raise MachineryError('binding self-test failed: a corrupted recorded value was accepted by Trace_Compare')
    rejected = [(i, d) for i, d in rejected if i != len(stripped)]
    ctx.extra['selftest_corrupted_trace_rejected'] = ctx.extra.get('selftest_corrupted_trace_rejected', 0) + 1
    rej_ids = {i for i, _ in rejected}
    for idx, diag in rejected:
        if idx < 0:
            ctx.violation(f'C03/trace/invariant/{diag[0].get("invariant")}',
                          'an invariant of Compare fails on a recorded call', diag[0])
            continue
        d = diag[0] if diag else {}
        if d and not d.get('enabled', True):
            raise MachineryError(f'recorder logged a call outside the domain of the specification: {d}')
        ev = trs[idx][d.get('l', 1) - 1] if d else {}
        m = ev.get('m', '?')
        kind = 'shape-or-nonfinite' if d and not d.get('shape', True) else 'value'
        ctx.violation(f"C03/{C.CLAUSE.get(m, '?')}/{m}/trace/{kind}",
                      'recorded result of compare is not explained by the exact statistics of Trace_Compare',
                      {'seed': meta[idx], 'n_cond': nc, 'event': ev, 'diag': {k: v for k, v in d.items() if k != 'expected'},
                       'expected_stats': d.get('expected')})
    # whitened calls: TLC validated shape/pairing and printed the exact V and centred vectors
    ncov = 0
    path = ctx.scratch / name / 'emitted.ndjson'
    with open(path) as f:
        for line in f:
            o = json.loads(line)
            if not (isinstance(o, dict) and 'cov' in o):
                continue
            idx = o['cov'] - 1
            if idx in rej_ids or idx >= len(trs):      # (the corrupted self-test session is not judged)
                continue
            ev = trs[idx][o['l'] - 1]
            bad = C.finish_cov_event(ev, o, nc)
            ncov += 1
            if bad:
                sgc = C.sigma_class(ev['sg'])
                kind, det = bad
                key = (f"C03/e/{ev['m']}/sigma={sgc}/{kind}" if kind != 'value'
                       else f"C03/e/{ev['m']}/sigma={sgc}/trace/value")
                ctx.violation(key, 'recorded whitened measure differs from u\'V^-1v/sqrt(..) with the exact V of the specification',
                              {'seed': meta[idx], 'n_cond': nc, 'event': ev, 'bad': det})
    return len(trs), skipped, ncov


def float_tier(ctx, pool, n):
    seeds = [ctx.seed * 7919 + i for i in range(n)]
    nev = 0
    for ne, bad in pool.imap_unordered(C.check_float_case, seeds, chunksize=8):
        nev += ne
        for key, what, case in bad:
            _report(ctx, key, what, case)
    ctx.count(nev)
    return nev


def run(ctx):
    thorough = ctx.tier == 'thorough'
    ctx.rule = ('TLC enumerates every pair of RDM vectors of the stated integer grids (and all stacks of the '
                'stated shapes over a reduced vector set) x method x sigma_k catalogue; every emitted state is '
                'replayed through compare()/compare_* in RDMs and ndarray flavours; non-trivial = a compared '
                'vector has ties or a negative entry, or the stacks differ in size, or sigma_k is not None')
    ctx.assumptions = ['trusted kernel: float sqrt/division, numpy.linalg.solve, scipy.linalg.sqrtm (harness/compare.py), '
                       'cross-checked against the exact TLA+ statistics on every emitted vector',
                       'degenerate inputs (zero vector for cosine types, constant vector for correlation types and '
                       'tau-b, coincident points for Bures) excluded by AdmVec of Compare.tla and counted',
                       'Bures values: exact only for point configurations of dimension <= 2; sqrtm kernel beyond',
                       'neg_riem_dist is not named by the property: checked as spec growth (keys C03/riem/...); its kernel is a '
                       'global grid search + polishing, tolerance 2e-3 (Nelder-Mead defaults of the code)',
                       'the second Bures implementations (_bures_similarity_second_way, _sq_bures_metric_second_way) are called '
                       'directly on the double-centred kernels']
    ctx.exhaustive = False      # TLC's theorems are exhaustive on every grid; the replay of pairs4 / stacks is sampled
    with mp.Pool(16) as pool:
        # 1. all pairs of vectors, n_cond = 3, values -1..2, every method and sigma, perm + swap moves
        t = C.grid_size(3, 1, 3, NONBURES)
        r = run_grid(ctx, pool, 'pairs3', 3, t, voff=1, vspan=3, methods=NONBURES, moves=('perm', 'swap'),
                     movevecs='AllVecs' if thorough else 'MoveVecsHalf', moveemitmod=4 if not thorough else 2)
        count_excluded(ctx, r, t, 'pairs3')
        first = next(o for o in r.iter_emitted() if isinstance(o, dict) and o.get('t') == 'v')
        ctx.sample({'run': 'pairs3', 'vector': first})
        # 2. stacks of different sizes over a reduced vector set: pairing, transposition
        r = run_grid(ctx, pool, 'stacks3', 3, None, voff=1, vspan=3, vecs='StackVecs', movevecs='StackVecs',
                     shapes='ShapesAll', methods=NONBURES, moves=('swap',), emitmod=1 if thorough else 3,
                     moveemitmod=2 if thorough else 8)
        ctx.sample({'run': 'stacks3', 'vector': next(o for o in r.iter_emitted() if isinstance(o, dict) and o.get('t') == 'v')})
        # 2b. stacks in which exactly ONE RDM is degenerate for the method (zero vector / constant vector):
        #     all entries between two non-degenerate RDMs are demanded, the others are not
        dm = ('cosine', 'corr', 'spearman', 'kendall', 'cosine_cov', 'corr_cov')
        for nc_ in (3, 4):
            run_grid(ctx, pool, f'degenerate{nc_}', nc_, None, voff=1, vspan=3, vecs='DegVecs', movevecs='DegVecs',
                     shapes='ShapesDeg', methods=dm if (thorough or nc_ == 3) else ('cosine', 'spearman', 'corr_cov'),
                     moves=(), degenerate=True, emitmod=1 if thorough else 3)
        # 3. n_cond = 4
        if thorough:
            t = C.grid_size(4, 0, 2, NONBURES, nvecsb=81)
            r = run_grid(ctx, pool, 'pairs4', 4, t, voff=0, vspan=2, vecsb='VecsBSub', movevecs='MoveVecsSub',
                         methods=NONBURES, moves=('perm', 'swap'), emitmod=4, moveemitmod=4)
            ctx.exhaustive = False     # n_cond 4: first vector exhaustive, second from a 1/9 subset; replay is a 1/4 sample
        else:
            t = C.grid_size(4, 0, 1, NONBURES)
            r = run_grid(ctx, pool, 'pairs4', 4, t, voff=0, vspan=1, movevecs='MoveVecsSub', methods=NONBURES,
                         moves=('perm', 'swap'), emitmod=2, moveemitmod=2)
        count_excluded(ctx, r, t, 'pairs4')
        run_grid(ctx, pool, 'stacks4', 4, None, voff=1, vspan=3, vecs='StackVecs', movevecs='StackVecs',
                 shapes='ShapesAll', methods=NONBURES if thorough else ('cosine', 'kendall', 'rho-a', 'corr_cov'),
                 moves=('swap',), emitmod=2 if thorough else 6, moveemitmod=4 if thorough else 12)
        # 4. Bures: integer point configurations
        bm = ('bures', 'bures_metric')
        if thorough:
            r = run_grid(ctx, pool, 'bures3', 3, 2 * 216 ** 2, methods=bm, px=2, py=1, moves=('perm', 'swap'),
                         moveconfigs='MoveConfigsSmall', emitmod=2, moveemitmod=1)
            count_excluded(ctx, r, 2 * 216 ** 2, 'bures3')
            r = run_grid(ctx, pool, 'bures4', 4, 2 * 256 ** 2, methods=bm, px=1, py=1, moves=('perm', 'swap'),
                         moveconfigs='MoveConfigsSmall', emitmod=4, moveemitmod=1)
            count_excluded(ctx, r, 2 * 256 ** 2, 'bures4')
        else:
            r = run_grid(ctx, pool, 'bures3', 3, 2 * 64 ** 2, methods=bm, px=1, py=1, moves=('perm', 'swap'),
                         moveconfigs='MoveConfigsSmall', emitmod=1, moveemitmod=1)
            count_excluded(ctx, r, 2 * 64 ** 2, 'bures3')
        ctx.sample({'run': 'bures', 'vector': next(o for o in r.iter_emitted() if isinstance(o, dict) and o.get('t') == 'v')})
        # 4b. spec growth beyond the statement: neg_riem_dist (exact G~, Sigma^, congruence under permutations in TLA+;
        #     the minimisation over (t0, t1) by the kernel riem_value) - sigma_k None and the three matrices
        rm = ('neg_riem_dist',)
        if thorough:
            run_grid(ctx, pool, 'riem3', 3, None, methods=rm, px=2, py=1, moves=('perm', 'swap'),
                     moveconfigs='MoveConfigsSmall', emitmod=6, moveemitmod=6)
            run_grid(ctx, pool, 'riem4', 4, None, methods=rm, px=1, py=1, pz=1, configs='ConfigsOrigin',
                     moves=('perm', 'swap'), moveconfigs='MoveConfigsSmall', emitmod=60, moveemitmod=300)
        else:
            run_grid(ctx, pool, 'riem3', 3, None, methods=rm, px=1, py=1, moves=('perm', 'swap'),
                     moveconfigs='MoveConfigsSmall', emitmod=8, moveemitmod=2)
        # 4c. guards of the dispatcher, a missing condition = the comparison of the remaining conditions
        nev, bad, unsup = C.guard_checks()
        ctx.count(nev)
        for key, what, case in bad:
            _report(ctx, key, what, case)
        for cls, msg in unsup:
            ctx.unsupported_case(cls, msg)
        # 5. float tier (kernels were validated against the exact statistics on every vector above)
        ctx.extra['float_tier_evaluations'] = float_tier(ctx, pool, 4000 if thorough else 400)
        # 6. implementation -> specification
        tot = sk = cov = 0
        for nc, ntr in ((5, 1500 if thorough else 150), (6, 1500 if thorough else 100), (7, 600 if thorough else 50)):
            n, s, c = traces(ctx, pool, nc, ntr)
            tot, sk, cov = tot + n, sk + s, cov + c
        ctx.extra['recorded_sessions_validated'] = tot
        ctx.extra['recorded_calls_skipped_degenerate'] = sk
        ctx.extra['recorded_whitened_calls_finished_by_kernel'] = cov
