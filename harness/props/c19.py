"""C19 - searchlights hold exactly the voxels in radius; RDMs match direct computation.

Specification: specs/Searchlight.tla.  TLC
  * enumerates ALL masks of small volumes x radii {1, 3/2, 2, 5/2} x thresholds {1/2, 3/4, 1}, runs the
    stages of get_volume_searchlight in the model (Scan -> Filter -> Ravel), checks the theorems
    (PipelineIsDefinition, PrefilterSound, SphereSymmetric, ThresholdMonotone, ...) and emits every case
    with its expected centres and neighbour lists;
  * enumerates every centre of further volumes x 13 radii for _get_searchlight_neighbors;
  * evaluates a few large masks (centres just below / at / above the chunking limit of 1000);
  * runs the chunk loop of get_searchlight_RDMs (ChunkedIsDirect, ChunkProgress, ChunkPartition) with the
    code's constants (100 chunks above 1000 centres) and with small constants for all n;
  * explores every interleaving of Dispatch / Complete(w) / Collect of the parallel model evaluation
    (ResultOrder), with two negative controls that must FAIL in the model (collection in completion order;
    "workers always complete in submission order").
Spec -> implementation: every emitted case is replayed into _get_searchlight_neighbors /
get_volume_searchlight (mask dtypes bool/int64/float64/uint8, C/Fortran order, int/float radius);
get_searchlight_RDMs is compared, centre by centre, with a direct calc_rdm on the columns of the
specification's neighbour list (token data, five RDM methods, event-label flavours) - below and above
the chunking limit; evaluate_models_searchlight for n_jobs in {1,2,4} with an evaluation function whose
result names its centre and that finishes later centres first.
Implementation -> spec: calls on random larger masks / radii / thresholds are recorded and validated by
specs/Trace_Searchlight.tla (TLC recomputes membership on the logged input).
"""
from __future__ import annotations

import copy
import json
import multiprocessing as mp
import zlib

import numpy as np

from harness import searchlight as S
from harness.core import MachineryError

PID = 'C19'


def _report(ctx, bad, extra=None):
    for key, what, detail in bad:
        if key == 'unsupported':
            ctx.unsupported_case(f'{PID}/b/{what}', detail)
        else:
            d = dict(detail)
            if extra:
                d.update(extra)
            ctx.violation(f'{PID}/{key}', what, d)


# ------------------------------------------------------------------ pool workers
def _vol_chunk(args):
    base, lines, seed, rdm_mod, deep = args
    out = []
    n_eval = 0
    nontriv = []
    for j, line in enumerate(lines):
        rec = json.loads(line)
        # TLC's emission order varies between runs: derive flavour / sampling from the content
        i = zlib.crc32(line.strip().encode()) % 1000003
        variant = i + seed
        bad = S.check_vol(rec, variant)
        n_eval += 1
        nc = len(rec['centres'])
        # non-trivial: a proper subset of the mask voxels is accepted, or spheres are clipped differently
        if 0 < nc < len(rec['mask']) or (nc and len({len(x) for x in rec['neigh']}) > 1):
            nontriv.append(i)
        if nc and (i + seed) % rdm_mod == 0:
            m = S.RDM_METHODS[(i // rdm_mod + seed) % len(S.RDM_METHODS)]
            reps, orders = None, S.ORDERS
            if deep:        # thorough: event designs (2-5 conditions, single / unequal repetitions), six orders
                reps = S.EVENT_DESIGNS[(i // 11 + seed) % len(S.EVENT_DESIGNS)]
                if not S.design_ok(reps, m):
                    reps = S.EVENT_DESIGNS[(i // 11 + seed) % 5]          # the balanced ones
                orders = S.ORDERS_MORE
            b2, _ = S.check_rdms(tuple(rec['shape']), rec['centres'], rec['neigh'], m, variant=variant,
                                 seed=seed * 7919 + i, dtype=S.DATA_DTYPES[(i // 3 + seed) % len(S.DATA_DTYPES)],
                                 order=orders[(i // 7 + seed) % len(orders)], reps=reps)
            for k, w, d in b2:
                d = dict(d)
                d.update({'mask': rec['mask'], 'radius': rec['rad'], 'threshold': rec['thr']})
                bad.append((k, w, d))
            n_eval += nc
        out.extend(bad)
    return len(lines), n_eval, nontriv, out


def _nb_chunk(args):
    base, lines, seed = args
    out = []
    nontriv = 0
    for j, line in enumerate(lines):
        rec = json.loads(line)
        out.extend(S.check_nb(rec, zlib.crc32(line.strip().encode()) % 1000003 + seed))
        nontriv += 1 < len(rec['nb']) < int(np.prod(rec['shape']))
    return len(lines), nontriv, out


def _trace_one(seed):
    return seed, S.record_trace(seed)


# ------------------------------------------------------------------ stages
def model_schedules(ctx, thorough):
    w, t = (3, 5) if thorough else (3, 4)
    r = ctx.tlc('MC_Searchlight', S.cfg('sch', workers=w, tasks=t), name='sch', workers=4, coverage=True)
    ctx.require_coverage(r, ['SchNext'])
    ctx.extra['schedule_model'] = {'workers': w, 'tasks': t, 'states': r.distinct, 'transitions': r.generated}
    # sequential (n_jobs = 1) and more workers than tasks
    for ww, tt in (((1, 4), (2, 4), (4, 3)) if thorough else ((1, 4),)):
        ctx.tlc('MC_Searchlight', S.cfg('sch', workers=ww, tasks=tt), name=f'sch_{ww}_{tt}', workers=2)
    # negative controls: the model must be able to tell the difference
    r1 = ctx.tlc('MC_Searchlight', S.cfg('sch', workers=w, tasks=t, collect='completion'), name='sch_neg1',
                 must_pass=False, count=False, workers=2)
    if r1.invariant != 'ResultOrder':
        raise MachineryError('negative control failed: collecting in completion order does not violate ResultOrder '
                             f'in the model\n{r1.out[-1500:]}')
    r2 = ctx.tlc('MC_Searchlight', S.cfg('sch_inorder', workers=w, tasks=t), name='sch_neg2', must_pass=False,
                 count=False, workers=2)
    if r2.invariant != 'CompletionInOrder':
        raise MachineryError('negative control failed: the schedule model has no out-of-order completion')
    r3 = ctx.tlc('MC_Searchlight', S.cfg('sch', workers=w, tasks=t, collect='origindex'), name='sch_neg3',
                 must_pass=False, count=False, workers=2)
    if r3.invariant != 'ResultOrder':
        raise MachineryError("negative control failed: looking elements up by their original 'index' does not violate "
                             'ResultOrder for a re-ordered / selected object in the model')
    ctx.extra['schedule_negative_controls'] = ['CollectBy=completion violates ResultOrder',
                                               'CompletionInOrder is violated (out-of-order completion reachable)',
                                               "CollectBy=origindex (look-up by the original 'index' descriptor) violates "
                                               'ResultOrder for a re-ordered or selected object']


def model_chunks(ctx, thorough):
    ctx.tlc('MC_Searchlight', S.cfg('chunk', ns='NsReal'), name='chunk_real', workers=8)
    ctx.tlc('MC_Searchlight', S.cfg('chunk', ns='NsBelow'), name='chunk_below', workers=2)
    ctx.tlc('MC_Searchlight', S.cfg('chunk', ns='NsSmall', nchunk=3, limit=4), name='chunk_small', workers=4)
    if thorough:
        ctx.tlc('MC_Searchlight', S.cfg('chunk', ns='NsSmall', nchunk=7, limit=9), name='chunk_small7', workers=4)


def replay_nb(ctx, thorough):
    runs = [('NbSmall', 'RMany', 1)]
    if thorough:
        # radius == distance: irrational radii sqrt(2), sqrt(3), .. and integer radii with off-axis lattice points on
        # the sphere, a hair below / above them; volumes larger than the largest sphere (every 5th centre)
        runs += [('NbLarge', 'RMany', 1), ('NbLarge', 'RBound', 1), ('NbSmall', 'RBound', 1), ('NbHuge', 'RBound', 5)]
    for nbs, radii, mod in runs:
        r = ctx.tlc('MC_Searchlight', S.cfg('nb', nbshapes=nbs, radii=radii, emitmod=mod), name=f'nb_{nbs}_{radii}',
                    workers=16 if thorough else 8, timeout=1700)
        if not r.n_emitted:
            raise MachineryError('TLC emitted no neighbour vectors')
        jobs, base = [], 0
        for chunk in r.iter_lines(200):
            jobs.append((base, chunk, ctx.seed))
            base += len(chunk)
        with mp.Pool(16) as pool:
            for n, nontriv, bad in pool.imap_unordered(_nb_chunk, jobs):
                ctx.count(n)
                ctx.traces += n
                ctx.nontrivial_extra += nontriv
                _report(ctx, bad)
        ctx.sample(next(r.iter_emitted()))


def replay_vol(ctx, shapes, emitmod, rdm_mod, name, *, mode='vol', radii='R4', thresholds='T3', simulate=None,
               depth=None, seed=None):
    kw = {}
    if simulate:
        kw = dict(simulate=simulate, depth=depth, seed=seed, workers=16)
    r = ctx.tlc('MC_Searchlight', S.cfg(mode, shapes=shapes, emitmod=emitmod, radii=radii, thresholds=thresholds),
                name=name, timeout=1700, **kw)
    if not r.n_emitted:
        raise MachineryError('TLC emitted no volume cases')
    deep = ctx.tier == 'thorough'

    def jobs():
        base = 0
        for chunk in r.iter_lines(300):
            yield (base, chunk, ctx.seed, rdm_mod, deep)
            base += len(chunk)
    total = 0
    with mp.Pool(16) as pool:
        for n, n_eval, nontriv, bad in pool.imap_unordered(_vol_chunk, jobs()):
            total += n
            ctx.count(n_eval)
            ctx.nontrivial_extra += len(nontriv)
            _report(ctx, bad)
    ctx.traces += total
    for k, rec in enumerate(r.iter_emitted()):
        if rec['centres'] and len(rec['centres']) < len(rec['mask']):
            ctx.sample(rec)
            break
    return r, total


def replay_big(ctx, thorough):
    r = ctx.tlc('MC_Searchlight', S.cfg('big', big='BigThorough' if thorough else 'BigQuick'), name='big',
                workers=8, timeout=1700)
    recs = list(r.iter_emitted())
    if not any(x['chunked'] for x in recs) or all(x['chunked'] for x in recs):
        raise MachineryError('big cases do not cover both sides of the chunking limit')
    methods = S.RDM_METHODS if thorough else ['euclidean', 'correlation', 'crossnobis']
    sizes = []
    keep = None
    for k, rec in enumerate(recs):
        shape = tuple(rec['shape'])
        bad = S.check_vol(rec, variant=ctx.seed + k)
        ctx.count(1)
        _report(ctx, bad)
        # (method, dtype of the data matrix): every method on float64; euclidean additionally on an INTEGER matrix
        # on both sides of the chunking limit (the chunked branch preallocates its result array - it must be
        # float whatever the data dtype) - the integer width rotates with the seed; thorough: all dtypes
        combos = [(m, 'float64') for m in (methods if rec['chunked'] or thorough else methods[:1])]
        combos += [('euclidean', dt) for dt in (S.DATA_DTYPES[1:] if thorough else [S.INT_DTYPES[(ctx.seed + k) % 3]])]
        for mi, (m, dt) in enumerate(combos):
            b2, info = S.check_rdms(shape, rec['centres'], rec['neigh'], m, variant=ctx.seed + k + mi,
                                    seed=ctx.seed * 31 + k, dtype=dt,
                                    # >= 2 runs per case: never all ascending ('subset' would leave the chunked branch)
                                    order=(S.ORDERS + ['rotated', 'interleaved'] if thorough else S.ORDERS)[
                                        (mi + k + ctx.seed) % (5 if thorough else 3)],
                                    reps=S.EVENT_DESIGNS[(mi + k) % 5] if thorough else None)
            ctx.count(len(rec['centres']))
            _report(ctx, b2, {'radius': rec['rad'], 'threshold': rec['thr'], 'n_mask': len(rec['mask'])})
            if not b2 and info.get('chunks') is not None:
                obs = info['chunks']
                exp = rec['chunksizes'] if rec['chunked'] else [len(rec['centres'])]
                sizes.append({'n': len(rec['centres']), 'method': f'{m}/{dt}', 'observed_equals_Chunks': obs == exp})
                # order and partition are demanded (already by the per-centre input comparison); the exact
                # boundaries are the code's choice - report, do not demand
                if sum(obs) != len(rec['centres']):
                    ctx.violation(f'{PID}/c/rdms/inputs/count', 'datasets handed to calc_rdm do not add up to the centres',
                                  {'n': len(rec['centres']), 'observed_chunks': obs})
        ctx.nontriv(('big', k))
        ctx.traces += 1
        if rec['chunked'] and keep is None:
            keep = rec
    summ = {}
    for x in sizes:
        d = summ.setdefault(x['n'], {'n': x['n'], 'methods': [], 'observed_equals_Chunks': True})
        if x['method'] not in d['methods']:
            d['methods'].append(x['method'])
        d['observed_equals_Chunks'] = d['observed_equals_Chunks'] and x['observed_equals_Chunks']
    ctx.extra['chunk_sizes_observed'] = list(summ.values())
    ctx.sample({'kind': 'big', 'shape': recs[0]['shape'], 'rad': recs[0]['rad'], 'thr': recs[0]['thr'],
                'n_centres': len(recs[0]['centres']), 'first_centres': recs[0]['centres'][:5],
                'first_neigh': recs[0]['neigh'][:2]})
    return keep


def eval_models(ctx, rec, thorough):
    """clause d on real RDMs of the implementation (a prefix of the centres of a chunked case)"""
    import rsatoolbox.util.searchlight as sl
    n = 40 if thorough else 24
    shape = tuple(rec['shape'])
    data, _ = S.token_data(6, int(np.prod(shape)), ctx.seed)
    events = np.repeat(np.arange(3), 2)
    with S.quiet():
        rdms = sl.get_searchlight_RDMs(data, np.array(rec['centres'][:n]), [np.array(x) for x in rec['neigh'][:n]],
                                       events, method='euclidean')
    # quick: one (non-default) comparison method rotating with the seed; thorough: every vector method x every
    # model class x more n_jobs
    methods = ['cosine', 'corr', 'spearman', 'rho-a', 'tau-a', 'corr_cov', 'cosine_cov']
    total = 0
    for mi, method in enumerate(methods if thorough else [methods[ctx.seed % 2]]):
        jobs = (1, 2, 4) if not thorough else ((1, 2, 3, 4, 8) if mi == 0 else (1, 2 + mi % 3))
        bad, nev = S.check_eval(rdms, jobs, method=method, model_types=thorough)
        ctx.count(nev * n)
        ctx.traces += nev
        total += nev
        _report(ctx, bad)
    ctx.extra['eval_runs'] = total


def traces(ctx, n):
    seeds = [ctx.seed * 1000003 + i for i in range(n)]
    with mp.Pool(16) as pool:
        out = pool.map(_trace_one, seeds, chunksize=4)
    trs, meta = [], []
    for seed, (events, unsup) in out:
        for _ in range(unsup):
            ctx.unsupported_case(f'{PID}/b/no-accepted-centre/ValueError', 'recorded run: no centre qualifies')
        if events:
            trs.append(events)
            meta.append(seed)
            ctx.count(len(events))
            if any(e['op'] == 'vol' and 0 < len(e['centres']) < len(e['mask']) for e in events):
                ctx.nontriv(('trace', seed))
    rejected = ctx.validate('MC_Trace_Searchlight', S.cfg('trace', trace=True), trs, name='trace_sl', timeout=1700)
    for idx, diag in rejected:
        if idx < 0:
            raise MachineryError(f'trace validation failed outside an event: {diag}')
        d = diag[0] if diag else {}
        ev = trs[idx][d.get('l', 1) - 1] if d else {}
        dd = d.get('diag', {})
        if dd.get('op') == 'volraise':
            key = f"b/volume/raises/{ev.get('error', 'Exception')}/trace"
        elif dd.get('op') == 'nb':
            key = 'a/neighbours/membership/trace'
        elif dd.get('centres_ok') is False:
            key = 'b/centres/trace'
        else:
            key = 'a/volume/membership/trace'
        ctx.violation(f'{PID}/{key}', 'a recorded call is not explained by Searchlight.tla (TLC recomputed the '
                      'definition on the logged input)', {'trace_seed': meta[idx], 'diag': d, 'event': ev})
    # binding demonstration: a corrupted recorded value must be rejected, the original accepted
    rejected_idx = {i for i, _ in rejected}
    pick = next((t for k, t in enumerate(trs) if k not in rejected_idx and
                 any(e['op'] == 'vol' and e['centres'] and len(e['neigh'][0]) > 1 for e in t) and
                 any(e['op'] == 'nb' for e in t)), None)
    if pick is None:
        if rejected:
            ctx.extra['trace_selftest'] = 'skipped: no accepted trace suitable (violations were reported)'
            return len(trs)
        raise MachineryError('no recorded trace suitable for the corruption self-test')
    c1, c2, c3 = copy.deepcopy(pick), copy.deepcopy(pick), copy.deepcopy(pick)
    e1 = next(e for e in c1 if e['op'] == 'vol' and e['centres'] and len(e['neigh'][0]) > 1)
    e1['neigh'][0] = e1['neigh'][0][:-1]                       # one voxel dropped from a searchlight
    e2 = next(e for e in c2 if e['op'] == 'vol' and e['centres'])
    e2['centres'] = e2['centres'][:-1]                         # an accepted centre missing (its list kept)
    e3 = next(e for e in c3 if e['op'] == 'nb')
    e3['out'] = e3['out'] + [[e3['centre'][0] + 50, 0, 0]]      # a voxel outside the sphere added
    before = ctx.traces
    rej = ctx.validate('MC_Trace_Searchlight', S.cfg('trace', trace=True), [pick, c1, c2, c3], name='trace_selftest',
                       count=False)
    ctx.traces = before
    got = sorted(i for i, _ in rej)
    if got != [1, 2, 3]:
        raise MachineryError(f'trace self-test: corrupted traces 1,2,3 must be rejected and 0 accepted, got rejected={got}')
    ctx.extra['trace_selftest'] = 'original accepted; dropped neighbour, missing centre, foreign voxel: all rejected'
    return len(trs)


def vector_selftest(ctx, r):
    """spec -> impl binding: a corrupted expected value must be reported by the replay.  Uses a vector whose
    clean replay passes (if the implementation is wrong everywhere the violations are reported anyway)."""
    tried = 0
    for rec in r.iter_emitted():
        if len(rec['centres']) >= 2 and len(rec['neigh'][0]) >= 2:
            tried += 1
            if tried > 40:
                break
            if S.check_vol(rec, 0) or S.check_rdms(tuple(rec['shape']), rec['centres'], rec['neigh'], 'euclidean', seed=1)[0]:
                continue
            a = copy.deepcopy(rec)
            a['neigh'][0] = a['neigh'][0][:-1]
            b = copy.deepcopy(rec)
            b['centres'] = b['centres'][:-1]
            b['neigh'] = b['neigh'][:-1]
            ka, kb = S.check_vol(a, 0), S.check_vol(b, 0)
            if not ka or not kb:
                raise MachineryError('vector self-test: corrupted expectation not detected by the replay')
            ctx.extra['vector_selftest'] = f'dropped expected neighbour -> {ka[0][0]}; dropped expected centre -> {kb[0][0]}'
            return
    if ctx.new_violations:
        ctx.extra['vector_selftest'] = 'skipped: no vector with a clean replay (violations were reported)'
        return
    raise MachineryError('vector self-test: no suitable vector')


def run(ctx):
    thorough = ctx.tier == 'thorough'
    ctx.rule = ('TLC enumerates every mask of the listed small volumes x radii x thresholds (Vol), every centre of '
                'further volumes x 13 radii (Nb) and a few large masks around the chunking limit (Big); each is '
                'replayed into the searchlight functions.  Non-trivial = a proper non-empty subset of the mask '
                'voxels is accepted or the accepted searchlights have different sizes (Vol), the sphere is '
                'neither a single voxel nor the whole volume (Nb), recorded trace with a proper subset accepted')
    ctx.assumptions = ['masks are binary (documented); centres lie inside the volume',
                       'radii and thresholds are the floats nearest to small rationals (no float boundary effects: '
                       'squared lattice distances are integers, r^2 is not an integer unless r is)',
                       'joblib schedules cannot be forced: every interleaving is explored in the model, the '
                       'implementation is run with n_jobs in {1,2,4} and an evaluation function that finishes '
                       'later centres first',
                       'an empty set of accepted centres makes get_volume_searchlight raise (numpy.ravel_multi_index '
                       'on an empty list); counted as unsupported, not demanded by the property']
    _report(ctx, S.check_error_branches())
    ctx.count(2)
    model_schedules(ctx, thorough)
    model_chunks(ctx, thorough)
    replay_nb(ctx, thorough)
    r222, n1 = replay_vol(ctx, 'S222', 1, 5 if not thorough else 2, 'vol_222')
    vector_selftest(ctx, r222)
    r322, n2 = replay_vol(ctx, 'S322', 1, 40 if not thorough else 8, 'vol_322')
    total = n1 + n2
    ctx.exhaustive = True
    if thorough:
        for sh in ('S232', 'S223'):
            _, n = replay_vol(ctx, sh, 1, 16, f'vol_{sh}')
            total += n
        # every mask of the 3 x 3 x 2 volume (2^18) for a half-integer and an irrational radius
        _, n = replay_vol(ctx, 'S332', 1, 400, 'vol_S332', radii='R332', thresholds='T1')
        total += n
        _, n = replay_vol(ctx, 'S422', 1, 100, 'vol_S422', radii='R332', thresholds='T1')
        total += n
        # mask topologies on larger / anisotropic volumes: holes, single voxels, disconnected slabs, shells,
        # interiors that never touch the border, checkerboards, balls x 10 radii x 5 thresholds
        _, n = replay_vol(ctx, 'STopo', 1, 6, 'topo', mode='topo', radii='RTopo', thresholds='TTopo')
        total += n
        ctx.extra['topology_cases_replayed'] = n
        # random walks over the masks of 45/48-voxel volumes (tlc -simulate), four seeds
        nw = 0
        for j in range(4):
            _, n = replay_vol(ctx, 'SWalk', 2, 25, f'walk_{j}', mode='walk', radii='RWalk', thresholds='TTopo',
                              simulate='num=100', depth=80, seed=ctx.seed * 10 + j + 1)
            nw += n
        total += nw
        ctx.extra['random_walk_cases_replayed'] = nw
    ctx.extra['volume_cases_replayed'] = total
    keep = replay_big(ctx, thorough)
    eval_models(ctx, keep, thorough)
    ctx.extra['recorded_traces_validated'] = traces(ctx, 160 if not thorough else 1200)
