"""C04 - Each stored evaluation is the direct comparison of prediction and resampled data.

Specification: specs/EvalProtocol.tla (EXTENDS CvSets, hence RdmsStore): the evaluation routines
(eval_fixed, eval_bootstrap / _rdm / _pattern, crossval, bootstrap_crossval, eval_dual_bootstrap,
eval_dual_bootstrap_random, and bootstrap_testset / _rdm / _pattern of boot_testset.py: fit on the sample, evaluate
on the groups NOT drawn; keys C04/testset/...) as ONE protocol  Draw -> TooSmall | (MakeSets -> Fit -> Predict -> Compare
-> Ceiling -> Store)* -> Aggregate  over a SYMBOLIC evaluation table: every cell says which model, at
parameters from where (supplied / fitted on which training rows x condition sequence), restricted to
which condition sequence, is compared with which data rows x condition sequence.  TLC explores every
bootstrap draw and shuffle outcome of small configurations and checks PredMatchesSample, SampleIsDraw,
FitBeforeUse, ThetaFromOwnFold, NaNIffTooSmall, OkMask, CeilingSameSample, DofRule, AllCellsStoredOnce.

S -> I: every emitted behaviour is replayed into the real routine with numpy.random.randint / shuffle
forced; wrappers around the module-level names of rsatoolbox.inference.evaluate and recording fitters
show which prediction was compared with which data and what every fitter / ceiling function was given
(objects decoded from their values); the number each symbolic cell denotes is computed with
rsatoolbox.rdm.compare on objects built here from the original values and compared with
Result.evaluations / noise_ceiling / dof / variances (variances by the stated definition from the
stored evaluations).  I -> S: routines run under real seeds, the recorded events are validated by
specs/Trace_EvalProtocol.tla (stored value = mean of the values of THAT compare event, integers x 1e6).
Clause g: a rerun with the same seed must give bit-identical Result fields.
"""
from __future__ import annotations

import copy
import json
import multiprocessing as mp

import numpy as np

from harness import evalprotocol as EP
from harness import rdmstore as S
from harness.core import MachineryError

INVS = ['TypeOk', 'PredMatchesSample', 'LightEqFull', 'SampleIsDraw', 'TestIsComplementOfDraw', 'FitBeforeUse', 'ThetaFromOwnFold',
        'NaNIffTooSmall', 'OkMask', 'CeilingSameSample', 'DofRule', 'AllCellsStoredOnce']
ACTIONS = ['DrawAny', 'TooSmall', 'MakeSetsAny', 'Fit', 'Predict', 'Compare', 'Ceiling', 'Store', 'Aggregate']
METHODS = ['cosine', 'corr', 'spearman']
NPROC = 8


def cfg(nr, nc, arglevel, configs, emitmod=1, trace=False):
    lines = ['CONSTANTS', f'  NR = {nr}', f'  NC = {nc}', '  MaxObj = 1', '  MaxRows = 9', '  MaxPats = 9', '  Depth = 0',
             '  NanPairs <- NanPairsNone', f'  ArgLevel = {arglevel}', f'  EmitMod = {emitmod}', '  Ops <- NoOps',
             '  Gens <- NoGens', '  PermLevel = 0', '  KMax = 9', f'  Configs <- {configs}']
    if trace:
        lines += ['SPECIFICATION TSpec']
    else:
        lines += ['INIT EInit', 'NEXT ENext']
    lines += [f'INVARIANT {i}' for i in INVS]
    if not trace:
        lines.append('INVARIANT EmitRun')
    lines.append('CHECK_DEADLOCK FALSE')
    return '\n'.join(lines) + '\n'


# ------------------------------------------------------------------ S -> I
def variant_of(i, seed, thorough):
    flavour = S.FLAVOURS[i % 4]
    mode = 'tok' if (i // 4) % 2 == 0 else 'rnd'
    methods = METHODS + (['rho-a', 'tau-a'] if thorough else [])
    method = methods[(i + seed) % len(methods)]
    fitmodes = ['tok', 'regress'] + (['optimize'] if thorough and i % 97 == 0 else [])
    fitmode = fitmodes[(i // 3) % len(fitmodes)]
    theta_supplied = (i % 5) != 0
    return flavour, mode, method, fitmode, theta_supplied


def _replay_chunk(args):
    base, lines, const, seed, thorough = args
    out = []
    agg = {'cells': 0, 'nan': 0, 'fitted': 0, 'compares': 0, 'nontriv': 0, 'var_plain': 0, 'var_corrected': 0,
           'var_fixed': 0, 'method_sensitive': 0, 'select_sensitive': 0, 'testset_cells': 0, 'testset_perturbed': 0, 'fixed_resampled': 0}
    for k, line in enumerate(lines):
        i = base + k
        rec = json.loads(line)
        flavour, mode, method, fitmode, ts = variant_of(i, seed, thorough)
        bad, stats = EP.replay_behaviour(rec, const, flavour, mode, method, fitmode, seed * 1000003 + i, theta_supplied=ts)
        for q in set(agg) | {x for x in stats if x.startswith('dofP_')}:
            agg[q] = agg.get(q, 0) + stats.get(q, 0)
        rep_draw = any(len(set(d)) < len(d) for s in rec['log'] for d in s['d'])
        if stats.get('cells', 0) > stats.get('nan', 0) and (rep_draw or EP.n_folds(rec['rc'], const['NR']) > 1):
            agg['nontriv'] += 1
        if rec['rc']['routine'] == 'testset':
            agg['testset_cells'] += stats.get('cells', 0) - stats.get('nan', 0)
            if i % 5 == 0:
                # deps(theta) / deps(score) by perturbation, draws of the behaviour forced
                pbad, npert = EP.perturb_testset(rec, const, flavour, method, seed * 1000003 + i)
                agg['testset_perturbed'] += npert
                bad = list(bad) + pbad
        for key, detail in bad:
            out.append((i, key, detail, rec['rc'], rec['log'], [flavour, mode, method, fitmode, ts]))
    return len(lines), agg, out


def replay_all(ctx, r, const, thorough):
    def jobs():
        base = 0
        for chunk in r.iter_lines(40):
            yield (base, chunk, const, ctx.seed, thorough)
            base += len(chunk)
    n = 0
    tot = {}
    with mp.Pool(NPROC) as pool:
        for cnt, agg, bad in pool.imap_unordered(_replay_chunk, jobs()):
            n += cnt
            ctx.count(agg['compares'] + agg['cells'])
            ctx.nontrivial_extra += agg['nontriv']
            for q, v in agg.items():
                tot[q] = tot.get(q, 0) + v
            for i, key, detail, rc, log, var in bad:
                ctx.violation(f'C04/{key}', f'replayed behaviour leaves the protocol: {key}',
                              {'const': const, 'rc': rc, 'log': log, 'variant': var, 'detail': detail, 'behaviour': i})
    return n, tot


def selftest_replay(ctx, r, const):
    """binding: a corrupted expected cell must make the replay report a mismatch"""
    for rec in r.iter_emitted():
        idx = [k for k, c in enumerate(rec['cells']) if c['nan'] == 0 and len(c['data']['conds']) >= 3]
        if not idx:
            continue
        bad0, _ = EP.replay_behaviour(rec, const, ('list', 'int'), 'rnd', 'cosine', 'tok', 1)
        rec2 = copy.deepcopy(rec)
        c = rec2['cells'][idx[0]]
        c['data']['conds'] = list(reversed(c['data']['conds']))
        c['pred']['conds'] = list(reversed(c['pred']['conds']))
        bad1, _ = EP.replay_behaviour(rec2, const, ('list', 'int'), 'rnd', 'cosine', 'tok', 1)
        k0 = {k for k, _ in bad0}
        k1 = {k for k, _ in bad1}
        if not any(k.startswith(('a/pred-conds', 'a/data')) for k in k1 - k0):
            raise MachineryError('binding self-test: a corrupted expected cell was not noticed by the replay')
        return True
    return False


# ------------------------------------------------------------------ I -> S
def random_rc(rng, nr, nc, thorough):
    fam = str(rng.choice(['fixed', 'boot', 'boot', 'boot', 'crossval', 'bootcv', 'bootcv', 'dual', 'dualrand', 'testset', 'testset']))
    byR = str(rng.choice(['index', 'subj', 'grp']))
    byP = str(rng.choice(['index', 'cond', 'cat']))
    nM = int(rng.integers(2, 5))
    N = int(rng.integers(3, 7 if not thorough else 13))
    rc = {'routine': fam, 'bootR': False, 'bootP': False, 'cv': 'none', 'nCv': 1, 'N': N, 'kR': 1, 'kP': 1, 'byR': byR,
          'byP': byP, 'bootNc': True, 'nM': nM, 'plR': 2, 'plP': 2}
    ur, up = EP.n_units(rc, nr, nc)
    bt = [(True, True), (True, False), (False, True)][int(rng.integers(0, 3))]
    if fam == 'fixed':
        rc.update(N=1, byR='index', byP='index', plR=9, plP=9)
        if rng.integers(0, 3):
            # the stack handed to eval_fixed is a bootstrap sample (RDMs and 'index' values repeated)
            rc.update(bootR=True, byR=str(rng.choice(['index', 'subj'])))
    elif fam == 'testset':
        if bt[1] and up < 6:
            bt = (True, False)          # >= 3 condition groups must stay undrawn: hopeless below 6 groups
        rc.update(bootR=bt[0], bootP=bt[1], cv='testset', plR=9, plP=9, nM=min(nM, 3),
                  byR=byR if bt[0] else 'index', byP=byP if bt[1] else 'index')
    elif fam == 'boot':
        rc.update(bootR=bt[0], bootP=bt[1], bootNc=bool(rng.integers(0, 2)), plR=9, plP=9)
        if not bt[1]:
            rc['byP'] = 'index'
    elif fam == 'crossval':
        rc.update(N=1)
        if rng.integers(0, 2):
            # test folds of <= 2 conditions are refused by crossval but not by cv_noise_ceiling (a single
            # dissimilarity has no correlation): degenerate fold sets are not generated
            rc.update(cv='kfold', kR=int(rng.integers(1, min(2, ur) + 1)), kP=2 if (up >= 6 and rng.integers(0, 2)) else 1)
        else:
            rc.update(cv='kfoldpat', kP=int(rng.integers(1, 3)), byR='index')
        if rc['kP'] > up:
            rc['kP'] = 1
    elif fam == 'bootcv':
        rc.update(bootR=bt[0], bootP=bt[1], cv='kfold', nCv=int(rng.integers(1, 3)),
                  kR=int(rng.integers(1, min(2, ur) + 1)), kP=2 if (up >= 6 and rng.integers(0, 2)) else 1)
        if rc['kR'] == 1 and rc['kP'] == 1 and rng.integers(0, 2) and ur >= 2:
            rc['kR'] = 2
    elif fam == 'dual':
        rc.update(bootR=True, bootP=True, cv='kfold', nCv=int(rng.integers(1, 3)), kR=2 if ur >= 2 else 1,
                  kP=2 if (up >= 6 and rng.integers(0, 3) == 0) else 1, nM=min(nM, 3), N=min(N, 6))
        if rc['kR'] == 1 and rc['kP'] == 1:
            rc['nCv'] = 1
    else:
        rc.update(bootR=bt[0], bootP=bt[1], cv='random', nCv=int(rng.integers(1, 4)), kR=int(rng.integers(0, 2)) if ur >= 2 else 0,
                  kP=3 if (up >= 6 and rng.integers(0, 2)) else 0)
    return rc


def sweep_rcs(nr, nc, thorough):
    """every resampling routine with enough samples that NaN samples AND >= 2 usable samples occur, so that the
    variance clauses (NaN samples excluded, per-resample means, cv correction) are decided on every routine"""
    N = 8 if not thorough else 14
    base = {'routine': 'boot', 'bootR': False, 'bootP': False, 'cv': 'none', 'nCv': 1, 'N': N, 'kR': 1, 'kP': 1, 'byR': 'subj',
            'byP': 'cond', 'bootNc': True, 'nM': 3, 'plR': 2, 'plP': 2}
    out = []
    types = [(True, True), (True, False), (False, True)]
    for k, bt in enumerate(types):
        for bnc in (True, False):
            out.append(dict(base, bootR=bt[0], bootP=bt[1], bootNc=bnc, byP='cond' if bt[1] else 'index',
                            byR=['subj', 'index', 'grp'][k], plR=9, plP=9))
        for ncv in (1, 2):
            out.append(dict(base, routine='bootcv', bootR=bt[0], bootP=bt[1], cv='kfold', nCv=ncv, kR=2, kP=1,
                            byR=['index', 'subj', 'index'][k], byP=['cond', 'index', 'index'][k]))
        out.append(dict(base, routine='dualrand', bootR=bt[0], bootP=bt[1], cv='random', nCv=2, kR=1, kP=0,
                        byR=['subj', 'index', 'subj'][k], byP=['index', 'cond', 'cond'][k]))
    for ncv in (1, 2):
        out.append(dict(base, routine='dual', bootR=True, bootP=True, cv='kfold', nCv=ncv, kR=2, kP=1, nM=2, N=min(N, 8),
                        byR='index', byP='index'))
    # eval_fixed on a resampled stack (repeated RDMs / 'index' values): dof = RDMs of the stack - 1
    for by in ('index', 'subj', 'index'):
        out.append(dict(base, routine='fixed', bootR=True, bootP=False, N=1, byR=by, byP='index', plR=9, plP=9))
    return out


def cond_fold_rcs(k):
    """bootstrap + folds over CONDITIONS under real seeds needs >= 6 distinct drawn condition groups: 8 conditions"""
    base = {'routine': 'bootcv', 'bootR': True, 'bootP': True, 'cv': 'kfold', 'nCv': 2, 'N': 6, 'kR': 1, 'kP': 2, 'byR': 'subj',
            'byP': 'cond', 'bootNc': True, 'nM': 3, 'plR': 2, 'plP': 2}
    rcs = [base, dict(base, bootR=False, byR='index', byP='index', kR=2), dict(base, routine='dual', nM=2, kR=2, N=4),
           dict(base, routine='dualrand', cv='random', kR=1, kP=3), dict(base, nCv=1, kR=2, byR='grp'),
           dict(base, routine='crossval', bootR=False, bootP=False, N=1, nCv=1, kR=2, kP=2, byR='grp', byP='index'),
           dict(base, routine='testset', cv='testset', nCv=1, kR=1, kP=1, plR=9, plP=9),
           dict(base, routine='testset', cv='testset', nCv=1, kR=1, kP=1, plR=9, plP=9, bootR=False, byR='index', byP='cat'),
           dict(base, routine='testset', cv='testset', nCv=1, kR=1, kP=1, plR=9, plP=9, byR='grp', byP='index')]
    return [rcs[i % len(rcs)] for i in range(k)]


def _run_chunk(args):
    out = []
    for (idx, rc, const, seed, thorough) in args:
        flavour, mode, method, fitmode, ts = variant_of(idx, seed, thorough)
        if mode == 'tok' and idx % 3:
            mode = 'rnd'
        res = EP.random_run(rc, const, flavour, mode, method, fitmode, seed * 7 + idx, theta_supplied=ts)
        out.append((idx, rc, [flavour, mode, method, fitmode, ts], res))
    return out


def corrupt(trace, kind):
    """copies of an accepted trace with one recorded field altered (binding demonstration)"""
    t = copy.deepcopy(trace)
    if kind == 'stored':
        res = t[-1]
        ks = [k for k, v in enumerate(res['cells']) if v != EP.NANVAL]
        if not ks:
            return None
        res['cells'][ks[len(ks) // 2]] += 5000
        return t
    if kind == 'data-conds':
        for e in t:
            if e['e'] == 'compare':
                for v in e['cmps']:
                    for x in v:
                        if len(set(x['conds'])) >= 2:
                            x['conds'] = list(reversed(x['conds']))
                            if x['conds'] != list(reversed(x['conds'])):
                                return t
        return None
    if kind == 'fit-method':
        for e in t:
            if e['e'] == 'fit':
                for v in e['fits']:
                    for x in v:
                        x['meth'] = 'cosine' if x['meth'] != 'cosine' else 'corr'
                        return t
        return None
    if kind == 'fit-rows':
        for e in t:
            if e['e'] == 'fit':
                for v in e['fits']:
                    for x in v:
                        if x['rows']:
                            x['rows'] = x['rows'][:-1] + [x['rows'][-1] % 3 + 1] if len(set(x['rows'])) > 0 else x['rows']
                            return t
        return None
    if kind == 'nan':
        res = t[-1]
        ks = [k for k, v in enumerate(res['cells']) if v == EP.NANVAL]
        if not ks:
            return None
        res['cells'][ks[0]] = 123456
        return t
    return None


def validate(ctx, const, traces, name):
    """batch validation by Trace_EvalProtocol; returns (accepted ids, rejects {id: diag}, dofbad {id: rec})"""
    wd = ctx.scratch / name
    wd.mkdir(parents=True, exist_ok=True)
    tf = wd / 'traces.json'
    tf.write_text(json.dumps(traces))
    r = ctx.tlc('MC_Trace_EvalProtocol', cfg(const['NR'], const['NC'], 2, 'NoConfigs', trace=True), name=name,
                env={'TRACE_FILE': str(tf)}, workers=1, must_pass=False, timeout=3000)
    if not r.ok:
        if r.invariant:
            ctx.violation(f'C04/trace/invariant/{r.invariant}', 'an invariant of EvalProtocol fails along a recorded execution',
                          {'tlc_error': r.error_trace})
        else:
            raise MachineryError(f'trace validation crashed:\n{r.out[-3000:]}')
    acc, rej, dofbad = set(), {}, {}
    for o in r.iter_emitted():
        if not isinstance(o, dict):
            continue
        if 'accept' in o:
            acc.add(o['accept'])
        elif 'reject' in o:
            rej.setdefault(o['reject'], o)
        elif 'dofbad' in o:
            dofbad[o['dofbad']] = o
    return acc, rej, dofbad


WHY_KEY = {'fit': 'b/fit-train', 'fit-method': 'b/fit-method', 'fit-keywords': 'b/fit-keywords', 'compare': 'a/compared-objects', 'ceiling': 'd/ceiling-object', 'stored': 'a/value',
           'nc-stored': 'd/ceiling-value', 'ntest': 'n-test',
           'stored-first-model': 'a/value-of-first-model'}
MACHINERY_WHY = ('draw-not-admissible', 'sets-not-admissible', 'unknown-event')


def record_and_validate(ctx, const, n, thorough, label):
    rng = np.random.default_rng(ctx.seed * 9176 + const['NR'] * 31 + const['NC'])
    jobs = [(i, random_rc(rng, const['NR'], const['NC'], thorough), const, ctx.seed, thorough) for i in range(n)]
    if const['NC'] <= 4:
        sw = sweep_rcs(const['NR'], const['NC'], thorough)
        jobs += [(n + k, rc, const, ctx.seed, thorough) for k, rc in enumerate(sw + sw)]
    if const['NC'] >= 8:
        jobs = [(k, rc, const, ctx.seed, thorough) for k, rc in enumerate(cond_fold_rcs(n))]
    chunks = [jobs[k::NPROC * 4] for k in range(NPROC * 4)]
    with mp.Pool(NPROC) as pool:
        results = [x for ch in pool.map(_run_chunk, [c for c in chunks if c]) for x in ch]
    results.sort(key=lambda x: x[0])
    traces, meta = [], []
    stat = {'testset_ok_samples': 0, 'nan_samples': 0, 'ok_samples': 0, 'var_checked': 0, 'grouped': 0, 'unique': 0, 'method_sensitive': 0, 'dof_cond_smaller': 0}
    for idx, rc, var, res in results:
        ctx.count(1)
        for q in ('nan_samples', 'ok_samples', 'method_sensitive', 'dof_cond_smaller', 'fixed_resampled'):
            stat[q] = stat.get(q, 0) + res['stats'].get(q, 0)
        if rc['routine'] == 'testset':
            stat['testset_ok_samples'] += res['stats'].get('ok_samples', 0)
        if res['stats'].get('var_kind') in ('plain', 'corrected', 'fixed'):
            stat['var_checked'] += 1
            stat['var_' + res['stats']['var_kind']] = stat.get('var_' + res['stats']['var_kind'], 0) + 1
        stat['grouped' if EP.grouped(rc, const['NR'], const['NC']) else 'unique'] += 1
        for key, detail in res['bad']:
            ctx.violation(f'C04/{key}', f'recorded execution: {key}', {'const': const, 'rc': rc, 'variant': var, 'detail': detail})
        if res['trace'] is not None:
            traces.append(res['trace'])
            meta.append((idx, rc, var))
            ctx.nontriv(('trace', label, idx))
    if not traces:
        raise MachineryError('no execution could be recorded')
    # binding demonstration: corrupted copies of recorded traces must be rejected
    corrupted = []
    for kind in ('stored', 'data-conds', 'fit-rows', 'fit-method', 'nan'):
        for t in traces:
            c = corrupt(t, kind)
            if c is not None:
                corrupted.append((kind, c))
                break
    acc, rej, dofbad = validate(ctx, const, traces + [c for _, c in corrupted], f'trace_{label}')
    for k, (kind, _) in enumerate(corrupted):
        tid = len(traces) + k + 1
        if tid in acc or tid not in rej:
            raise MachineryError(f'binding self-test: trace with corrupted field {kind!r} was not rejected')
    ctx.extra.setdefault('corrupted_traces_rejected', 0)
    ctx.extra['corrupted_traces_rejected'] += len(corrupted)
    for t in range(1, len(traces) + 1):
        idx, rc, var = meta[t - 1]
        name = EP.public_name(rc)
        pre = 'C04/' + EP.key_prefix(rc)
        if t in acc:
            ctx.traces += 1
        elif t in rej:
            d = rej[t]
            why = d.get('why', '?')
            if why == 'stored' and rc['routine'] == 'testset':
                # which class: every model's column holding the evaluation of model 1 has its own key
                fk = d.get('extra', {}).get('first', {})
                kk_ = EP.keys(rc, const['NR'])
                cells_ = traces[t - 1][-1]['cells']
                k1 = tuple(fk.get('key', []))
                if len(k1) == 5 and k1[1] > 1 and cells_[kk_.index((k1[0], 1) + k1[2:])] == fk.get('stored'):
                    why = 'stored-first-model'
            if why in MACHINERY_WHY or why.endswith('out-of-order') or why == 'result-too-early':
                # the event sequence itself does not follow the protocol: more / fewer calls than the protocol has
                ctx.violation(f'{pre}trace/{why}/{name}', f'recorded event sequence is not a behaviour of the protocol: {why}',
                              {'const': const, 'rc': rc, 'variant': var, 'diag': d, 'trace': traces[t - 1][:12]})
            else:
                if why == 'fit':
                    ev_ = traces[t - 1][d['l'] - 1]
                    meth = traces[t - 1][0]['rc']['method']
                    if any(x['meth'] != meth for v in ev_['fits'] for x in v):
                        why = 'fit-method'
                    elif any(x['desc'] != rc['byP'] or x['kw'] for v in ev_['fits'] for x in v):
                        why = 'fit-keywords'
                ctx.violation(f'{pre}{WHY_KEY.get(why, why)}/{name}',
                              f'trace validation: event {d.get("l")} not explained by the protocol ({why})',
                              {'const': const, 'rc': rc, 'variant': var, 'diag': d,
                               'event': traces[t - 1][d['l'] - 1] if 0 < d.get('l', 0) <= len(traces[t - 1]) else None})
        else:
            ctx.violation(f'{pre}trace/stalled/{name}', 'recorded event sequence ends before the protocol is complete',
                          {'const': const, 'rc': rc, 'variant': var, 'events': [e['e'] for e in traces[t - 1]]})
        if t in dofbad:
            cls = 'grouped-descriptor' if EP.grouped(rc, const['NR'], const['NC']) else 'unique-descriptor'
            if rc['routine'] == 'fixed':
                cls = 'resampled-stack' if rc['bootR'] else 'plain-stack'
            ctx.violation(f'C04/e/dof/{cls}/{name}', 'dof is not (number of resampled units - 1)',
                          {'const': const, 'rc': rc, 'diag': dofbad[t]})
    return len(traces), stat


# ------------------------------------------------------------------ option classes outside the protocol
def probes(ctx):
    """option classes on which a routine raises: recorded as unsupported, or reported where the routine's own
    documented options are concerned"""
    import rsatoolbox
    from rsatoolbox.inference import evaluate as E
    const = {'NR': 4, 'NC': 6}
    w = EP.World(4, 6, ('list', 'int'), 'rnd', ctx.seed + 5, ['fixed', 'weighted', 'select'], theta_supplied=False)
    # selection model without parameters in the routines that do not fit
    try:
        E.eval_fixed(w.models, w.data, theta=None)
    except Exception as ex:
        ctx.unsupported_case('theta=None with ModelSelect in eval_fixed / eval_bootstrap*', f'{type(ex).__name__}: {ex}')
    # one bootstrap sample: no covariance exists; the plain bootstraps index a 1-d table and raise
    for fn in (E.eval_bootstrap, E.eval_bootstrap_rdm, E.eval_bootstrap_pattern):
        np.random.seed(ctx.seed + 2)
        try:
            fn(w.models[:2], w.data, N=1)
        except Exception as ex:
            ctx.unsupported_case(f'{fn.__name__}(N=1)', f'{type(ex).__name__}: {ex}')
    for n_cv, uc, key in ((3, True, 'n_cv-not-2'), (1, False, 'n_cv-not-2'), (2, False, 'use_correction=False')):
        np.random.seed(ctx.seed + 3)
        try:
            E.eval_dual_bootstrap_random(w.models[:1], w.data, N=4, n_cv=n_cv, n_rdm=1, n_pattern=0, use_correction=uc)
        except Exception as ex:
            ctx.violation(f'C04/raises/{type(ex).__name__}/eval_dual_bootstrap_random/{key}',
                          f'eval_dual_bootstrap_random(n_cv={n_cv}, use_correction={uc}) raises {type(ex).__name__}: {ex}',
                          {'n_cv': n_cv, 'use_correction': uc, 'error': str(ex)})
        ctx.count(1)
    for fn, kw in ((E.bootstrap_crossval, {'k_pattern': 1, 'k_rdm': 2}), (E.eval_dual_bootstrap, {'k_pattern': 1, 'k_rdm': 2})):
        np.random.seed(ctx.seed + 4)
        try:
            fn(w.models[:1], w.data, N=3, n_cv=1, use_correction=True, **kw)
        except Warning as ex:
            ctx.unsupported_case(f'{fn.__name__}(n_cv=1, use_correction=True)', f'raises Warning (documented as invalid): {ex}')
        except Exception as ex:
            ctx.violation(f'C04/raises/{type(ex).__name__}/{fn.__name__}/n_cv=1', str(ex), {'error': str(ex)})


def run(ctx):
    ctx.rule = ('TLC enumerates every bootstrap draw / shuffle outcome of the configurations named in MC_EvalProtocol '
                '(all routines, unique and grouping descriptors); each emitted behaviour is replayed with the outcomes forced '
                '(descriptor flavour, value kind, comparison method, fitter kind, theta supplied or not vary with the index); '
                'non-trivial = behaviour with an evaluated cell whose draw repeats a group or that has more than one fold; '
                'plus routines run under real seeds, recorded and validated by Trace_EvalProtocol (each a distinct case)')
    ctx.assumptions = ['models carry the pattern descriptors of the data in the same order',
                       'numpy.random.randint / shuffle are the only sources of randomness of resampling and fold assignment '
                       '(otherwise: draws mismatch)',
                       'the fitters are black boxes: "fitted on the training set of the fold" = the fitter call of that fold '
                       'received exactly that training object and index list, and its return value is what the prediction uses',
                       'pool_rdm and rdm.compare are used as given (C03 / C07); C04 decides WHICH objects they are applied to',
                       'too small = the thresholds of the routines (fewer than 3 distinct condition groups; fewer RDM groups '
                       'than folds; fewer than 3 x k_pattern condition groups; fold with <= 2 conditions)',
                       'a fitter called without method= is taken to fit for the library default (cosine)']
    thorough = ctx.tier == 'thorough'
    if thorough:
        runs = [('qa', 3, 4, 1, 'QuickA', 1), ('qb', 3, 3, 2, 'QuickB', 1), ('qc', 3, 6, 1, 'QuickC', 1),
                ('qd', 5, 4, 1, 'QuickD', 1), ('qe', 3, 6, 1, 'QuickE', 1), ('te', 3, 5, 2, 'ThorE', 6), ('tf', 4, 8, 1, 'ThorF', 3),
                ('ta', 3, 4, 2, 'ThorA', 8), ('tb', 3, 4, 2, 'ThorB', 12), ('tc', 3, 4, 1, 'ThorC', 12),
                ('td', 4, 6, 1, 'ThorD', 3)]
    else:
        runs = [('qa', 3, 4, 1, 'QuickA', 5), ('qb', 3, 3, 2, 'QuickB', 5), ('qc', 3, 6, 1, 'QuickC', 1),
                ('qd', 5, 4, 1, 'QuickD', 2), ('qe', 3, 6, 1, 'QuickE', 4)]
    ctx.exhaustive = False
    total = 0
    tot = {}
    tested = False
    for name, nr, nc, al, configs, mod in runs:
        r = ctx.tlc('MC_EvalProtocol', cfg(nr, nc, al, configs, emitmod=mod), name=name, timeout=6000, workers=6,
                    coverage=(name == 'qc'))
        if not r.n_emitted:
            raise MachineryError(f'TLC emitted no behaviours for {configs}')
        if name == 'qc':
            ctx.require_coverage(r, ACTIONS)
        const = {'NR': nr, 'NC': nc}
        if not tested:
            tested = selftest_replay(ctx, r, const)
        first = next(r.iter_emitted())
        ctx.sample({'configs': configs, 'rc': first['rc'], 'log': first['log'], 'first_cell': first['cells'][0],
                    'dof': first['dof']})
        n, t = replay_all(ctx, r, const, thorough)
        total += n
        for q, v in t.items():
            tot[q] = tot.get(q, 0) + v
    if not tested:
        raise MachineryError('binding self-test could not be run')
    ctx.traces += total
    ctx.extra['behaviours_replayed'] = total
    ctx.extra['replay_totals'] = tot
    # vacuity: both branches of NaNIffTooSmall, fitted and supplied parameters, corrected and plain variances
    if not tot.get('nan') or tot.get('cells', 0) <= tot.get('nan', 0) or not tot.get('fitted'):
        raise MachineryError(f'vacuous replay: {tot}')
    if not tot.get('var_plain') or not tot.get('var_fixed'):
        raise MachineryError(f'vacuous variance check: {tot}')
    # dof: for every routine that resamples both axes the condition axis was the smaller factor in some replay
    for nm in ('eval_bootstrap', 'bootstrap_crossval', 'eval_dual_bootstrap', 'eval_dual_bootstrap_random'):
        if not tot.get('dofP_' + nm):
            raise MachineryError(f'vacuous dof rule: no replay of {nm} with fewer condition groups than RDM groups')
    # eval_fixed was replayed on stacks with repeated RDMs (dof = RDMs of the stack - 1, not distinct 'index' values - 1)
    if not tot.get('fixed_resampled'):
        raise MachineryError(f'vacuous dof rule for eval_fixed: no resampled stack with a repeated RDM: {tot}')
    # test-set routines: evaluated cells and perturbation replays happened
    if not tot.get('testset_cells') or not tot.get('testset_perturbed'):
        raise MachineryError(f'vacuous test-set replay: {tot}')
    # the cv routines were driven with non-default methods on models whose fitted parameters depend on the
    # method (verified by refitting for cosine), incl. a selection model choosing another candidate
    if not tot.get('method_sensitive') or not tot.get('select_sensitive'):
        raise MachineryError(f'vacuous method binding: no fold whose fit depends on the comparison method: {tot}')
    # implementation -> specification
    # (5, 4): more RDM groups than condition groups -- the smaller factor of the dof rule is the condition axis
    groups = [((3, 4), 70), ((5, 4), 30), ((3, 6), 50), ((3, 8), 6)] if not thorough else \
        [((3, 4), 350), ((5, 4), 150), ((3, 6), 250), ((4, 6), 250), ((5, 5), 150), ((3, 8), 36)]
    nt = 0
    st = {}
    for (nr, nc), n in groups:
        k, s = record_and_validate(ctx, {'NR': nr, 'NC': nc}, n, thorough, f'{nr}{nc}')
        nt += k
        for q, v in s.items():
            st[q] = st.get(q, 0) + v
    ctx.extra['recorded_executions'] = nt
    ctx.extra['recorded_stats'] = st
    if not st.get('nan_samples') or not st.get('ok_samples') or not st.get('var_plain') or not st.get('var_corrected') \
            or not st.get('grouped') or not st.get('unique') or not st.get('method_sensitive') or not st.get('dof_cond_smaller') \
            or not st.get('testset_ok_samples') or not st.get('fixed_resampled'):
        raise MachineryError(f'vacuous recorded executions: {st}')
    probes(ctx)
