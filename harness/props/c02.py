"""C02 - Cross-validated distances are the mean of between-fold products only.

Specification: specs/CalcRdm.tla, mode "cv".  Init picks labels, a fold assignment (explicit: any
fold-balanced assignment; default: k-th occurrence of a condition = fold k), small integer data,
method (crossnobis | poisson_cv), remove_mean, a precision (none, one integer SPD matrix, one
diagonal matrix per fold) and a prior; the actions DefaultFolds | ExplicitFolds, SortByCond,
FoldMeans, PairProducts, AverageFoldPairs (ghost bag `contrib` of the fold pairs that entered) and
BuildCv compute the exact rational result.  TLC checks NoSelfPairs, AllFoldsUsed, EqualWeights,
PairsSymmetric, CoefWithinFoldZero, CvMatchesLeaveOneOut (the definition equals the leave-one-fold-out
scheme of the code on every fold-balanced design), CvSymmetric, DefaultFoldsRule, LabelOrderSorted,
OneRowPerLabel, StagesAgree, and the action property CvInvariant (PermuteRows, RelabelFolds,
PermuteChannels leave the result unchanged).

spec -> impl: every (sampled) vector is run through calc_rdm(method='crossnobis'|'poisson_cv') and
calc_rdm_crossnobis in several flavours (condition / fold label types, containers, dtypes, per-fold
precisions as list or 3-D array, explicit or default fold descriptor) and compared label-keyed.
Clause "within-fold products never contribute": coefficient extraction - for every design TLC
enumerates, the coefficient of every product x_o * x_o' in every entry of the crossnobis RDM is
measured from the implementation with 0/1 data and compared with the matrix implied by `contrib`.
Float tier: random real data and general SPD precisions per fold against the array-form kernel.

impl -> spec: random integer-grid fold designs larger than the exhaustive domain (up to 4 conditions
x 4 folds x 2 repetitions, 3 channels, shuffled rows, gaps in the fold labels) are run through the
library and validated by Trace_CalcRdm.
"""
from __future__ import annotations

import json
import multiprocessing as mp

import numpy as np

from harness import calcrdm as C
from harness.core import MachineryError
from harness.props.c01 import replay, binding_selftest, record_and_validate, require_transformations

PID = 'C02'
BOTH = ('crossnobis', 'poisson_cv')
NOCOEF = [i for i in C.C02_INVS if i != 'CoefWithinFoldZero']   # data-independent: checked in the design runs
# quick tier: the two theorems that recompute every product are checked on the 4-observation runs only
LIGHT = [i for i in NOCOEF if i not in ('CvMatchesLeaveOneOut', 'CvSymmetric')]


def _coef_chunk(args):
    base, lines, seed = args
    rng = np.random.default_rng([seed, base, 7])
    found = {}
    ncalls = ndesigns = 0
    for j, line in enumerate(lines):
        vec = json.loads(line)
        n = len(vec['in']['lab'])
        if len(vec['out']['lab']) < 2:
            continue
        ndesigns += 1
        fl = C.BASE if (base + j) % 2 == 0 else dict(C.flavour(rng), scale=1, dtype=['float64', 'int64'][int(rng.integers(2))])
        ncalls += n + n * (n - 1) // 2
        for key, what, detail in C.coef_case(vec, fl):
            e = found.get(key)
            if e is None:
                found[key] = [1, what, {'in': vec['in'], 'flavour': fl, 'detail': detail, 'pairs': vec['out']['pairs'],
                                        'folds': vec['out']['folds']}]
            else:
                e[0] += 1
    return ndesigns, ncalls, found


def coef_replay(ctx, r, every=1, procs=16):
    def jobs():
        base = 0
        for lines in r.iter_lines(40):
            sel = [l for k, l in enumerate(lines) if (base + k) % every == 0]
            if sel:
                yield (base, sel, ctx.seed)
            base += len(lines)
    nd = 0
    with mp.Pool(procs) as pool:
        for ndesigns, ncalls, found in pool.imap_unordered(_coef_chunk, jobs()):
            nd += ndesigns
            ctx.count(ncalls)
            ctx.nontrivial_extra += ndesigns
            for key, (n, what, case) in found.items():
                for _ in range(n):
                    ctx.violation(key, what, case)
    ctx.traces += nd
    if nd == 0:
        raise MachineryError('coefficient extraction saw no design with two conditions')
    return nd


def coef_selftest(ctx, r):
    """a coefficient matrix that lets a within-fold product contribute must be noticed"""
    for vec in r.iter_emitted():
        if len(vec['out']['lab']) >= 2 and not C.coef_case(vec, C.BASE):
            vec['coef'][0][0][0] = [1, 4]
            if not C.coef_case(vec, C.BASE):
                raise MachineryError('binding self-test: corrupted coefficient matrix not noticed')
            return
    raise MachineryError('binding self-test: no design for the coefficient self-test')


def run(ctx):
    ctx.rule = ('TLC enumerates every fold-balanced design of the stated sizes (all labelings x all fold assignments '
                'that are balanced, i.e. all row orders; explicit or default folds) with data over a grid or from a '
                'catalogue, method x remove_mean x precision kind x prior, and emits the exact expected RDM and the '
                'bag of contributing fold pairs; every (sampled) vector is run through the library in >= 1 flavours; '
                'non-trivial = design with >= 2 conditions; coefficient extraction on every enumerated design; float '
                'tier; recorded executions validated by Trace_CalcRdm')
    ctx.assumptions = ['projection harness/calcrdm.py:project is faithful',
                       'trusted float kernels cross-checked against the exact TLA+ values on every replayed vector',
                       'admissibility = FoldBalanced / DefaultAdmissible of CalcRdm.tla (each condition equally often '
                       'in each of >= 2 folds; default folds need equal counts per condition)',
                       'per-fold precisions are diagonal in the exact tier, general SPD in the float tier',
                       'per-fold precision list is ordered like the sorted fold labels (np.unique)']
    thorough = ctx.tier == 'thorough'
    W = 16 if thorough else 2      # quick: wall time is JVM start + the sequential Init, more workers only burn CPU
    q = not thorough
    runs = [
        # all 36 balanced designs (= all row orders) of 4 observations + default folds; thorough: every data matrix
        # over {0,1}, quick: 4 catalogue matrices
        ('cv_grid', dict(mode='cv', nobs=4, nch=2, nlab=2, nfold=2, methods=BOTH, rms=(False, True), priorids=(1, 2),
                         foldsrcs=('explicit', 'default'),
                         **(dict(vals='Vals01') if thorough else dict(datasrc='cat', dataids=(1, 2, 3, 4)))), 0),
        ('cv_cat6', dict(mode='cv', nobs=6, nch=2, nlab=3 if thorough else 2, nfold=3, datasrc='cat',
                         dataids=(2,),
                         # precision 2 has unequal row sums: (1,..,1) is not an eigenvector, so centring only one
                         # side of the bilinear form is visible
                         methods=BOTH, rms=(False, True), precids=(0, 2), fprecids=(0, 1), priorids=(1,),
                         foldsrcs=('explicit', 'default'), emitmod=2, invs=NOCOEF if thorough else LIGHT), 30),
        ('cv_perm', dict(mode='cv', nobs=4, nch=2, nlab=2, nfold=3 if thorough else 2, datasrc='cat', dataids=(3,),
                         methods=BOTH if thorough else ('crossnobis',), rms=(False, True) if thorough else (True,),
                         precids=(0, 2) if thorough else (0,), fprecids=(0, 2),
                         priorids=(1, 3), foldsrcs=('explicit', 'default') if thorough else ('explicit',),
                         permlevel=1, agree=True, emitmod=2), 0),
    ]
    if thorough:
        runs += [
            ('cv_grid012', dict(mode='cv', nobs=4, nch=2, nlab=2, nfold=2, vals='Vals012', methods=('crossnobis',),
                                rms=(False,), priorids=(1,), foldsrcs=('explicit',), emitmod=20,
                                invs=['NoSelfPairs', 'AllFoldsUsed', 'EqualWeights', 'CvMatchesLeaveOneOut']), 0),
            ('cv_cat8', dict(mode='cv', nobs=8, nch=2, nlab=2, nfold=2, datasrc='cat', dataids=(1, 4), methods=BOTH,
                             rms=(False, True), precids=(0, 3), fprecids=(0, 2), priorids=(2,),
                             foldsrcs=('explicit',), emitmod=3, invs=NOCOEF), 30),
            # default folds with 4 repetitions of 2 conditions (all 70 row orders)
            ('cv_def8', dict(mode='cv', nobs=8, nch=2, nlab=2, nfold=4, datasrc='cat', dataids=(1, 2, 3, 4), methods=BOTH,
                             rms=(False, True), precids=(0, 3), priorids=(2,), foldsrcs=('default',), invs=NOCOEF), 10),
            ('cv_cat6_3ch', dict(mode='cv', nobs=6, nch=3, nlab=2, nfold=3, datasrc='cat', dataids=(3, 4), methods=BOTH,
                                 rms=(False, True), precids=(0, 2), fprecids=(0, 2), priorids=(3,),
                                 foldsrcs=('explicit',), emitmod=8, invs=NOCOEF), 30),
        ]
    ctx.exhaustive = False
    total = 0
    first = True
    # vacuity guards: see harness/props/c01.py (no TLC -coverage; class guard in replay(), transition count for
    # the runs with the transformation actions)
    for name, kw, nfloat in runs:
        r = ctx.tlc('MC_CalcRdm', C.cfg(**kw), name=name, workers=W, timeout=1700)
        if not r.n_emitted:
            raise MachineryError(f'TLC emitted no vectors in {name}')
        if first:
            binding_selftest(ctx, r, PID)
            first = False
        v = next(r.iter_emitted())
        ctx.sample({'run': name, 'in': v['in'], 'expected': v['out']}, cap=8)
        if kw.get('permlevel'):
            require_transformations(r, name)
        total += replay(ctx, r, PID, nfloat=nfloat if thorough else nfloat * 3, want=kw)
    ctx.extra['vectors_replayed'] = total
    # clause d: coefficient extraction on every enumerated design (data irrelevant: one zero matrix)
    coef_runs = [('cv_coef6', dict(mode='cv', nobs=6, nch=1, nlab=3 if thorough else 2, nfold=3, datasrc='cat', dataids=(5,),
                                   methods=('crossnobis',), foldsrcs=('explicit', 'default'), emitcoef=True),
                  1 if thorough else 2),
                 ('cv_coef4', dict(mode='cv', nobs=4, nch=1, nlab=2, nfold=3, datasrc='cat', dataids=(5,),
                                   methods=('crossnobis',), foldsrcs=('explicit', 'default'), emitcoef=True), 1)]
    if thorough:
        coef_runs.append(('cv_coef8', dict(mode='cv', nobs=8, nch=1, nlab=2, nfold=2, datasrc='cat', dataids=(5,),
                                           methods=('crossnobis',), foldsrcs=('explicit',), emitcoef=True,
                                           emitmod=3), 1))
        coef_runs.append(('cv_coef8d', dict(mode='cv', nobs=8, nch=1, nlab=2, nfold=4, datasrc='cat', dataids=(5,),
                                            methods=('crossnobis',), foldsrcs=('default',), emitcoef=True), 1))
    nd = 0
    for k, (name, kw, every) in enumerate(coef_runs):
        r = ctx.tlc('MC_CalcRdm', C.cfg(**kw), name=name, workers=W, timeout=1700)
        if not r.n_emitted:
            raise MachineryError(f'TLC emitted no designs in {name}')
        if k == 0:
            coef_selftest(ctx, r)
            v = next(x for x in r.iter_emitted() if len(x['out']['lab']) >= 2)
            ctx.sample({'run': name, 'lab': v['in']['lab'], 'fold': v['in']['fold'], 'contrib': v['out']['pairs'],
                        'coef_pair1': v['coef'][0]}, cap=8)
        nd += coef_replay(ctx, r, every=every)
    ctx.extra['designs_coefficient_extracted'] = nd
    # 'cvmany': default folds with 11-12 repetitions (two-digit fold numbers), all label types
    n = record_and_validate(ctx, PID, ['cv'], 2000 if thorough else 280)
    # default folds with 11-12 repetitions (two-digit fold numbers; 22-36 observations), per label type
    # (mixed-width strings are left out: truncation would depend on the drawn labels)
    n += record_and_validate(ctx, PID, ['cvmany:str', 'cvmany:int', 'cvmany:str', 'cvmany:intneg'],
                             60 if thorough else 20, name='trace_many')
    ctx.extra['recorded_executions_validated'] = n
