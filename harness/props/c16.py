"""C16 - Saving and loading returns an equal object for every type and file format.

Specification: specs/Persist.tla - a file system over two paths, a catalogue of in-memory objects
of the eight kinds, actions Save(obj, path, fmt, overwrite, mode in str path / pathlib.Path /
fresh handle / kept handle) with outcome Ok | Refused, Load and Close.  Save is modelled in the stages of the code
(to_dict, remove_file, existence guard, append-mode HDF5 writer / truncating pickle writer) and the
clauses of the property are stated independently over the history: LoadReturnsLastSaved,
FileHoldsLastSaved, RefusalExactly, RefusedLeavesFsUnchanged, OverwriteIsReplaceNotMerge,
FrameOtherPath, SaveLeavesObjectUnchanged, NoMerge.  TLC checks them on all histories up to a
depth and emits the histories.

Binding
  S -> I  every emitted history is executed in a scratch directory on real objects (rotating over the
          catalogue of descriptor value types / data values / sizes): outcome, bytes of the other
          path, exact content of the written file (key tree read with h5py / pickle directly: no
          foreign key; the library's loader returns an oracle-equal object), the loaded object
          (field-wise oracle and `==` where defined) and the strict fingerprint of every in-memory
          object are compared with the specification after every step.
  I -> S  random admissible histories on real files are recorded (everything observed) and validated
          by Trace_Persist.tla; corrupted records must be rejected (self-test on every run).
  matrix  every catalogue object x {hdf5, pkl} x {path, file object, BytesIO}: clauses a, b, d, plus a
          second generation (a reloaded object saved and loaded again).
  clause c  RDMs after random RdmsStore histories (harness/rdmstore.py) and Datasets after random
          operation histories: reloaded copies are substituted in the middle of a history and the
          history must continue identically; run B of the RDMs histories is validated by
          Trace_RdmsStore.tla; final objects are round-tripped.
"""
from __future__ import annotations

import json
import multiprocessing as mp
import os

import numpy as np

from harness import persist as P
from harness.core import MachineryError

PID = 'C16'
INVS = ['TypeOK', 'LoadReturnsLastSaved', 'FileHoldsLastSaved', 'RefusalExactly', 'RefusedLeavesFsUnchanged',
        'OverwriteIsReplaceNotMerge', 'FrameOtherPath', 'SaveLeavesObjectUnchanged', 'NoMerge',
        'StreamReadsInOrder', 'StreamHoldsWrites', 'StreamFrame']
# deliberately broken designs of Persist.tla and the invariant (checked alone) that must catch each
BROKEN = {'load_rewinds': 'StreamReadsInOrder', 'no_remove': 'OverwriteIsReplaceNotMerge', 'no_guard': 'NoMerge', 'guard_str_only': 'RefusalExactly', 'refusal_cleans_up': 'RefusedLeavesFsUnchanged',
          'pkl_refuses': 'RefusalExactly', 'writer_marks': 'SaveLeavesObjectUnchanged'}


def cfg(depth, *, ka='KA_quick', modes='AllModes', emitmod=1, design='code', emit=True, spec=False,
        invs=INVS, ops='FsOps'):
    lines = ['CONSTANTS', '  NPath = 2', '  NObj = 3', f'  KindAssignments <- {ka}', f'  Depth = {depth}',
             f'  EmitMod = {emitmod}', f'  Modes <- {modes}', f'  Ops <- {ops}', f'  Design = "{design}"']
    lines += ['SPECIFICATION TSpec'] if spec else ['INIT Init', 'NEXT Next']
    lines += [f'INVARIANT {i}' for i in invs]
    if emit:
        lines.append('INVARIANT Emit')
    lines.append('CHECK_DEADLOCK FALSE')
    return '\n'.join(lines) + '\n'


# ------------------------------------------------------------------------------ worker functions
def _matrix_job(args):
    kind, feature, directory = args
    import zlib
    out, n = P.matrix_case(kind, 1 + zlib.crc32(f'{kind}/{feature}'.encode()) % 3, feature, directory)
    return kind, feature, out, n


def _replay_chunk(args):
    base, lines, directory, safe = args
    bad, nsteps, nontriv, n = [], 0, 0, 0
    classes = set()
    for j, line in enumerate(lines):
        rec = json.loads(line)
        if 'hist' not in rec:
            continue
        n += 1
        steps, v = P.replay(rec, base + j, directory, safe)
        nsteps += steps
        evs = [h['ev'] for h in rec['hist']]
        for h in rec['hist'][:steps]:
            e = h['ev']
            classes.add((e['op'], e['fmt'], e['mode'], e['ow'], e['src'], h['out']))
        if any(e['op'] in ('load', 'sload') for e in evs) or len({e['p'] for e in evs if e['op'] == 'save'}) < sum(e['op'] == 'save' for e in evs):
            nontriv += 1
        if v is not None:
            bad.append(v)
    return n, nsteps, nontriv, bad, classes


def _record_job(args):
    seed, length, directory, safe = args
    return seed, P.record_history(seed, length, directory, safe)


def _rdms_job(args):
    seed, length, directory, script = args
    return (script or seed), P.rdms_structural(seed, length, directory, script=script)


def _ds_job(args):
    seed, length, directory, safe = args
    return seed, P.dataset_structural(seed, length, directory, safe)


# ------------------------------------------------------------------------------------- phases
def check_key_table(ctx, r):
    """the specification's table of top-level keys per kind is the one the harness and the library use"""
    table = None
    for o in r.iter_emitted():
        if isinstance(o, dict) and 'kindtable' in o:
            table = {k: set(v) for k, v in o['kindtable'].items()}
            break
    if table is None:
        raise MachineryError('TLC did not print the kind/key table of Persist.tla')
    seen = {}
    for kind in P.KINDS:
        ob = P.build(kind, 1, 'base')
        mine = set(P.dict_form(ob))
        if mine != table[kind]:
            raise MachineryError(f'harness dict_form and Persist.tla KindKeys disagree for {kind}: {mine} vs {table[kind]}')
        path = str(ctx.scratch / f'keys_{kind}.h5')
        P.do_save(ob, path, 'hdf5', False)
        top = {k for k in P.raw_tree(path, 'hdf5') if '/' not in k} - {'rsatoolbox_version'}
        os.remove(path)
        seen[kind] = sorted(top ^ table[kind])
    ctx.extra['file_top_level_keys_differing_from_spec'] = {k: v for k, v in seen.items() if v}
    return table


def run_matrix(ctx, pool):
    jobs = [(kind, f, str(ctx.scratch / 'matrix')) for kind in P.KINDS for f in P.features_of(kind)]
    safe = {k: [] for k in P.KINDS}
    nrt = 0
    failing = {}
    for kind, feature, out, n in pool.imap_unordered(_matrix_job, jobs, chunksize=2):
        nrt += n
        ctx.count(n)
        ctx.nontriv(('matrix', kind, feature))
        ok = True
        for key, demanded, what, case in out:
            if key == 'build':
                raise MachineryError(f'catalogue object {kind}/{feature} cannot be built: {what}')
            ok = False
            failing.setdefault(f'{kind}/{feature}', set()).add(key)
            if demanded:
                ctx.violation(f'{PID}/{key}', what, case)
            else:
                ctx.unsupported_case(key, f'{what} ({kind}/{feature}; value type not listed by the property)')
        if ok:
            safe[kind].append(feature)
    for k in safe:
        safe[k].sort()
        if 'base' not in safe[k]:
            safe[k] = ['base'] + safe[k]       # histories still run; their failures are reported there
    ctx.extra['matrix_round_trips'] = nrt
    ctx.extra['matrix_objects'] = len(jobs)
    ctx.extra['matrix_failing_features'] = {k: sorted(v) for k, v in sorted(failing.items())}
    out, n = P.infer_type_cases(str(ctx.scratch))
    ctx.count(n)
    for key, demanded, what, case in out:
        ctx.violation(f'{PID}/{key}', what, case)
    return safe


def replay_all(ctx, pool, r, safe, label, limit=None):
    directory = str(ctx.scratch / f'replay_{label}')
    os.makedirs(directory, exist_ok=True)

    def jobs():
        base = 0
        for chunk in r.iter_lines(40):
            if limit is not None and base >= limit:
                break
            yield (base, chunk, directory, safe)
            base += len(chunk)
    total = 0
    seen = ctx.extra.setdefault('_classes', set())
    for n, nsteps, nontriv, bad, classes in pool.imap_unordered(_replay_chunk, jobs()):
        total += n
        seen.update(classes)
        ctx.count(nsteps)
        ctx.nontrivial_extra += nontriv
        for key, what, case in bad:
            ctx.violation(f'{PID}/{key}', what, case)
    if total == 0:
        raise MachineryError(f'TLC emitted no histories ({label})')
    return total


def _trace_key(st, clause, expected):
    e = st['ev']
    if e['op'] in ('ssave', 'sload', 'sseek'):
        if clause == 'mem':
            return 'd/pkl/object-changed'
        if clause == 'loaded':
            return 'a/pkl/stream/load/wrong-object'
        return f"e/pkl/stream/{e['op']}/stream-state"
    if e['op'] == 'save':
        if clause == 'mem':
            return f"d/{e['fmt']}/object-changed"
        pre = f"e/{e['fmt']}/{e['mode']}/{st['sit']}"
        if clause == 'outcome':
            return pre + ('/' + st.get('nr', 'not-refused') if expected.get('out') == 'Refused' else '/refused-unexpectedly')
        if st['out'] == 'Refused':
            return pre + '/refused-but-modified'
        return pre + '/' + P.why_class(st.get('why', ''))
    if clause == 'mem':
        return f"d/{e['fmt']}/object-changed-by-load"
    return f"a/{e['fmt']}/history-load/{st.get('why') or 'wrong-object'}"


def record_and_validate(ctx, pool, safe, ntraces, length):
    directory = str(ctx.scratch / 'traces')
    os.makedirs(directory, exist_ok=True)
    jobs = [(ctx.seed * 1000003 + i, length, directory, safe) for i in range(ntraces)]
    recs = pool.map(_record_job, jobs, chunksize=4)
    traces, meta = [], []
    for seed, rec in recs:
        steps = rec['steps']
        if steps and 'error' in steps[-1]:
            bad = steps[-1]
            e = bad['ev']
            key = (f"e/{e['fmt']}/{e['mode']}/{bad['sit']}/raises-{bad['errtype']}" if e['op'] == 'save'
                   else f"e/pkl/stream/{bad['sit']}/raises-{bad['errtype']}" if e['op'] == 'ssave'
                   else f"a/pkl/stream/load/raises-{bad['errtype']}" if e['op'] == 'sload'
                   else f"a/{e['fmt']}/history-load/raises-{bad['errtype']}")
            ctx.violation(f'{PID}/{key}', f"recorded history: {e['op']} raises inside the contract: {bad['error']}",
                          {'seed': seed, 'kinds': rec['kinds'], 'features': rec['features'],
                           'events': [s['ev'] for s in steps], 'error': bad['error']})
            steps = steps[:-1]
        if steps:
            traces.append({'kinds': rec['kinds'],
                           'steps': [{k: s[k] for k in ('ev', 'out', 'res', 'memok', 'post', 'spost')} for s in steps]})
            meta.append((seed, rec, steps))
            ctx.count(len(steps))
    tcfg = cfg(0, ka='KA_none', emit=False, spec=True, ops='AllOps')
    rejected = ctx.validate('MC_Trace_Persist', tcfg, traces, name='trace_persist')
    rej_idx = set()
    for idx, diag in rejected:
        if idx < 0:
            ctx.violation(f'{PID}/trace/invariant/{diag[0].get("invariant")}',
                          'an invariant of Persist fails along a recorded history', diag[0])
            continue
        rej_idx.add(idx)
        d = diag[0] if diag else {}
        if not d:
            raise MachineryError(f'trace {idx} neither accepted nor rejected')
        if not d.get('enabled', True):
            raise MachineryError(f'recorder issued an event the specification does not enable: {d.get("ev")}')
        seed, rec, steps = meta[idx]
        st = steps[d['l'] - 1]
        ctx.violation(f"{PID}/{_trace_key(st, d['clause'], d.get('expected', {}))}",
                      f"recorded history leaves the specification (clause {d['clause']}): {st.get('why', '')[:200]}",
                      {'seed': seed, 'kinds': rec['kinds'], 'features': rec['features'], 'step': d['l'] - 1,
                       'events': [s['ev'] for s in steps[:d['l']]],
                       'observed': {k: st[k] for k in ('out', 'res', 'memok', 'post', 'spost')},
                       'expected': d.get('expected'), 'why': st.get('why', '')})
    # binding self-test: a corrupted record must be rejected
    good = [t for i, t in enumerate(traces) if i not in rej_idx][:24]
    corrupted = []
    for i, t in enumerate(good):
        t = json.loads(json.dumps(t))
        k = (i * 5) % len(t['steps'])
        st = t['steps'][k]
        how = i % 5
        if how == 4:
            st['spost']['pos'] += 1
        elif how == 0:
            st['post'][st['ev']['p'] - 1]['own'] = (st['post'][st['ev']['p'] - 1]['own'] % 3) + 1
        elif how == 1:
            st['out'] = 'Refused' if st['out'] == 'Ok' else 'Ok'
        elif how == 2:
            st['res'] = (st['res'] % 3) + 1 if st['ev']['op'] in ('load', 'sload') else 2
        else:
            st['memok'] = 0
        corrupted.append(t)
    if corrupted:
        before = ctx.traces
        rej = ctx.validate('MC_Trace_Persist', tcfg, corrupted, name='trace_persist_corrupted', count=False)
        ctx.traces = before
        if len([x for x in rej if x[0] >= 0]) != len(corrupted):
            raise MachineryError(f'binding self-test failed: only {len(rej)} of {len(corrupted)} corrupted traces were rejected')
        ctx.extra['selftest_corrupted_traces_rejected'] = len(corrupted)
    return len(traces)


def spec_nonvacuity(ctx, designs):
    """the invariants of Persist.tla can fail: each deliberately broken design is caught by TLC"""
    res = {}
    for d in designs:
        c = cfg(5, ka='KA_small', design=d, emit=False, invs=[BROKEN[d]], ops='StreamOps') if d == 'load_rewinds' else \
            cfg(2, ka='KA_quick', design=d, emit=False, invs=[BROKEN[d]])
        r = ctx.tlc('MC_Persist', c, name=f'persist_broken_{d}',
                    must_pass=False, count=False, workers=4, timeout=600)
        if r.ok or r.invariant != BROKEN[d]:
            raise MachineryError(f'broken design {d} of Persist.tla is not caught by the invariants '
                                 f'(ok={r.ok}, invariant={r.invariant})')
        res[d] = r.invariant
    ctx.extra['broken_spec_designs_caught_by'] = res


def structural(ctx, pool, safe, n_rdms, n_ds, length):
    from harness.props import c10 as C10
    directory = str(ctx.scratch / 'struct')
    os.makedirs(directory, exist_ok=True)
    jobs = [(ctx.seed * 7919 + i, length, directory, None) for i in range(n_rdms)]
    jobs += [(fl, length, directory, name) for name in P.RDMS_SCRIPTS for fl in range(4)]
    traces, nre, nskip, nrun = [], 0, 0, 0
    for seed, res in pool.imap_unordered(_rdms_job, jobs, chunksize=2):
        if res['skipped'] and isinstance(seed, str):
            raise MachineryError(f'scripted structural history {seed} is not admissible any more: {res["skipped"]}')
        if res['skipped']:
            nskip += 1
            ctx.unsupported_case('c/rdms/history-not-admissible', res['skipped'])
            continue
        ctx.count(res['steps'])
        nrun += 1
        for key, what, case in res['viol']:
            if '/continue-after-reload/' in key and '/raises-' in key:
                # the property demands that the RELOADED OBJECT equals the saved one; that every later
                # operation also works on the reloaded copy (e.g. with a 0-d array where an int was) is
                # more than it states: counted, not reported
                ctx.unsupported_case(key, what)
                continue
            ctx.violation(f'{PID}/{key}', what, case)
        if res['trace'] and not res['viol']:
            traces.append(res['trace'])
            nre += res.get('nreload', 0)
            ctx.nontriv(('rdms-struct', seed))
    if n_rdms and nrun < n_rdms // 3:
        raise MachineryError(f'only {nrun} of {n_rdms} structural RDMs histories were admissible')
    c = C10.const(3, 4)
    rejected = ctx.validate('MC_Trace_RdmsStore',
                            C10.cfg(3, 4, 0, 2, maxobj=3, maxrows=4, maxpats=4, emit=False, spec=True),
                            traces, name='trace_store_reloaded')
    for idx, diag in rejected:
        # run B equals run A step by step, so a rejection is a matter of the C10 operations, not of C16
        ctx.unsupported_case('c/rdms/trace-rejected-by-RdmsStore',
                             json.dumps(diag[0].get('ev', {}) if diag else {})[:150])
    ctx.extra['rdms_histories_with_reloads'] = len(traces)
    ctx.extra['rdms_reload_substitutions'] = nre
    jobs = [(ctx.seed * 104729 + i, length, directory, safe) for i in range(n_ds)]
    nops, nrel, used = 0, 0, set()
    for seed, res in pool.imap_unordered(_ds_job, jobs, chunksize=2):
        ctx.count(res['steps'])
        nops += len(res['ops'])
        nrel += res['nreload']
        used.update(res['ops'])
        for key, what, case in res['viol']:
            if '/continue-after-reload/' in key and '/raises-' in key:
                # the property demands that the RELOADED OBJECT equals the saved one; that every later
                # operation also works on the reloaded copy (e.g. with a 0-d array where an int was) is
                # more than it states: counted, not reported
                ctx.unsupported_case(key, what)
                continue
            ctx.violation(f'{PID}/{key}', what, case)
        if res['ops']:
            ctx.nontriv(('ds-struct', seed))
    ctx.extra['dataset_histories'] = n_ds
    ctx.extra['dataset_operations_applied'] = nops
    ctx.extra['dataset_operations_seen'] = sorted(used)
    ctx.extra['dataset_reload_substitutions'] = nrel
    if n_ds and nops < n_ds:
        raise MachineryError('structural Dataset histories applied almost no operations')


def probes(ctx):
    """behaviour the property does not specify (recorded, never a verdict)"""
    d = ctx.scratch / 'probes'
    d.mkdir(exist_ok=True)
    a, b, ds = P.build('RDMs', 1, 'base'), P.build('RDMs', 2, 'base'), P.build('Dataset', 3, 'base')

    def note(cls, fn):
        try:
            msg = fn()
        except Exception as ex:
            msg = f'{type(ex).__name__}: {ex}'
        ctx.unsupported_case(cls, msg)

    def handle_noow(second):
        p = str(d / 'h.dat')
        if os.path.exists(p):
            os.remove(p)
        a.save(p)
        h0 = P.file_hash(p)
        with open(p, 'r+b') as f:
            out, ex = P.try_save(second, f, 'hdf5', False)
        return f'{out} ({type(ex).__name__ if ex else ""}); file modified: {P.file_hash(p) != h0}'
    note('unspecified/hdf5-handle-existing-no-overwrite/same-kind', lambda: handle_noow(b))
    note('unspecified/hdf5-handle-existing-no-overwrite/other-kind', lambda: handle_noow(ds))

    def pkl_append():
        p = str(d / 'p.dat')
        with open(p, 'wb') as f:
            a.save(f, 'pkl')
            b.save(f, 'pkl')
        first = P.do_load('RDMs', p, 'pkl')
        return 'two pickles in one stream; load(path) returns the ' + ('first' if not P.compare_objects(a, first) else 'second?')
    note('unspecified/pkl-handle-existing-no-overwrite', pkl_append)

    def bytesio_ow():
        import io
        buf = io.BytesIO()
        a.save(buf, 'hdf5')
        out, ex = P.try_save(b, buf, 'hdf5', True)
        return f'{out} ({type(ex).__name__ if ex else ""}): overwrite is not applied to in-memory buffers'
    note('unspecified/bytesio-overwrite', bytesio_ow)

    def partial():
        p = str(d / 'u.dat')
        bad = P.build('RDMs', 1, 'ax-unicode-list')
        out1, _ = P.try_save(bad, p, 'hdf5', False)
        return f'failed save {out1}; a partial file is left: {os.path.exists(p)}; retry: {P.try_save(a, p, "hdf5", False)[0]}'
    note('unspecified/failed-hdf5-save-leaves-partial-file', partial)


def run(ctx):
    ctx.rule = ('TLC enumerates every history of Save/Load/Close of Persist.tla up to the stated depth over 2 paths x '
                '{hdf5,pkl} x overwrite x {path, fresh handle, kept handle} x 3 contents (+ the last loaded object) x kind '
                'assignments; each emitted history is executed on real objects drawn from a catalogue of '
                f'{sum(len(P.features_of(k)) for k in P.KINDS)} objects (8 kinds x descriptor value types, data values, sizes); '
                'non-trivial history = contains a load or a second save to the same path; plus the catalogue matrix, '
                'recorded random histories validated by Trace_Persist, and structural histories with reloaded copies '
                'substituted mid-way')
    ctx.assumptions = ['oracle harness/persist.py:compare_objects states exactly the equality the property demands '
                       '(numbers and containers compared by value, str vs bytes distinguished, dtype of the main array kept)',
                       'models have no save(): they are written with the public dict writers composed like the save() methods',
                       'a handle save without overwrite onto existing content is outside the contract (not enabled in the specification)',
                       'a pathlib.Path target has the semantics of the str naming the same file; its refusal may be any exception as long as the file still holds exactly the old object',
                       'value types the property does not list (tuple, nested dict, object-dtype string array) are reported as unsupported, not as violations',
                       'fitter of a Result is not part of the saved state (the property does not list it)']
    thorough = ctx.tier == 'thorough'
    with mp.Pool(16) as pool:
        # ---- the model itself + emission of histories
        if thorough:
            runs = [(2, 'KA_all', 'AllModes', 2), (3, 'KA_quick', 'AllModes', 80), (4, 'KA_small', 'Names', 1200),
                    (4, 'KA_small', 'PathFresh', 1200)]
        else:
            runs = [(2, 'KA_all', 'AllModes', 10), (3, 'KA_small', 'AllModes', 250)]
        ctx.exhaustive = False
        results = []
        for depth, ka, modes, mod in runs:
            r = ctx.tlc('MC_Persist', cfg(depth, ka=ka, modes=modes, emitmod=mod), name=f'persist_d{depth}_{ka}_{modes}',
                        timeout=1700, coverage=False)
            results.append((r, f'd{depth}{modes}'))
        # pickle streams: several objects through ONE handle, read back in order (position is state)
        for sdepth, ska, smod in ([(7, 'KA_small', 150), (6, 'KA_all', 100)] if thorough else [(6, 'KA_small', 40)]):
            r = ctx.tlc('MC_Persist', cfg(sdepth, ka=ska, ops='StreamOps', emitmod=smod), name=f'persist_stream_d{sdepth}_{ska}',
                        timeout=1700)
            results.append((r, f'stream{sdepth}{ska}'))
        table = check_key_table(ctx, results[0][0])
        ctx.extra['kinds_in_spec'] = sorted(table)
        # ---- catalogue matrix (decides which features may be used inside histories)
        safe = run_matrix(ctx, pool)
        ctx.extra['features_used_in_histories'] = {k: len(v) for k, v in safe.items()}
        ok, out, n = P.pathlib_probe(str(ctx.scratch / 'pathlib'))
        ctx.count(n)
        for key, demanded, what, case in out:
            ctx.violation(f'{PID}/{key}', what, case)
        safe['__pathlib__'] = ok             # unusable combinations fall back to the str name inside histories
        ctx.extra['pathlib_targets_usable'] = ok
        # ---- S -> I
        total = 0
        for r, label in results:
            first = next(o for o in r.iter_emitted() if 'hist' in o)
            ctx.sample({'kinds': first['kinds'], 'events': [h['ev'] for h in first['hist']],
                        'outcomes': [h['out'] for h in first['hist']]})
            total += replay_all(ctx, pool, r, safe, label)
        nsim, dsim = (2000, 10) if thorough else (320, 8)
        r = ctx.tlc('MC_Persist', cfg(dsim, ka='KA_all', ops='AllOps'), name='persist_sim', simulate=f'num={nsim // 16}',
                    depth=dsim + 1, workers=16, timeout=45)
        if r.n_emitted < nsim // 2:
            raise MachineryError(f'simulation emitted only {r.n_emitted} histories')
        total += replay_all(ctx, pool, r, safe, 'sim', limit=nsim)
        ctx.extra['histories_replayed'] = total
        ctx.traces += total
        seen = ctx.extra.pop('_classes')
        ctx.extra['event_classes_executed'] = len(seen)       # (op, fmt, mode, overwrite, source, outcome)
        need = [('save', f, m, ow, 0, 'Ok') for f in P.FMTS for m in ('path', 'pathlib', 'fresh', 'kept') for ow in (0, 1)] + \
               [('save', 'hdf5', 'path', 0, 0, 'Refused'), ('save', 'hdf5', 'pathlib', 0, 0, 'Refused')] + \
               [('ssave', 'pkl', 'stream', 0, 0, 'Ok'), ('ssave', 'pkl', 'stream', 1, 0, 'Ok'), ('ssave', 'pkl', 'stream', 0, 1, 'Ok'),
                ('sload', 'pkl', 'stream', 0, 0, 'Ok'), ('sseek', 'pkl', 'stream', 0, 0, 'Ok')] + \
               [('load', f, m, 0, 0, 'Ok') for f in P.FMTS for m in ('path', 'pathlib', 'fresh')] + [('close', '', '', 0, 0, 'Ok')]
        missing = [c for c in need if c not in seen]
        for f in P.FMTS:                   # the reloaded object saved again, in both formats
            if not any(c[0] == 'save' and c[1] == f and c[4] == 1 and c[5] == 'Ok' for c in seen):
                missing.append(('save', f, '*', '*', 1, 'Ok'))
        if missing:
            raise MachineryError(f'vacuous run: event classes never executed on real objects: {missing}')
        # ---- I -> S
        n = record_and_validate(ctx, pool, safe, 1000 if thorough else 160, 14 if thorough else 10)
        ctx.extra['recorded_histories'] = n
        # ---- clause c
        structural(ctx, pool, safe, 2400 if thorough else 480, 1500 if thorough else 250, 8)
    spec_nonvacuity(ctx, list(BROKEN) if thorough else ['no_remove', 'guard_str_only', 'load_rewinds'])
    probes(ctx)
