"""C10 - RDM container operations never change which value belongs to which pair.

Specification: specs/RdmsStore.tla (heap of labelled value objects, one action per public
operation).  TLC checks Shape / Assoc / MaskIsSel / CondensedOk / Frame on the model and
enumerates ALL operation histories up to a depth; every history is replayed step by step into
real RDMs objects (all live objects compared after every step).  Long random histories come from
`tlc -simulate`; in the other direction random histories issued on real objects are validated by
Trace_RdmsStore.tla.
"""
from __future__ import annotations

import multiprocessing as mp

import numpy as np

from harness import rdmstore as S
from harness.core import MachineryError

ALLOPS = ['getitem', 'subset', 'subsample', 'subset_pattern', 'subsample_pattern', 'reorder',
          'sort_alpha', 'sort_list', 'append', 'concat', 'from_partials', 'permute',
          'inverse_permute', 'copy', 'dict', 'matrices', 'saveload', 'to_df', 'drop']
INVS = ['Shape', 'Assoc', 'CondensedOk', 'MaskIsSel']


def cfg(nr, nc, depth, arglevel, *, maxobj=3, maxrows=4, maxpats=4, emit=True, spec=False, props=True,
        ops='AllOps', emitmod=1):
    lines = ['CONSTANTS', f'  NR = {nr}', f'  NC = {nc}', f'  MaxObj = {maxobj}', f'  MaxRows = {maxrows}',
             f'  MaxPats = {maxpats}', f'  Depth = {depth}', '  NanPairs <- NanPairsA',
             f'  ArgLevel = {arglevel}', f'  Ops <- {ops}', f'  EmitMod = {emitmod}']
    if spec:
        lines += ['SPECIFICATION TSpec']
    else:
        lines += ['INIT Init', 'NEXT Next']
    lines += [f'INVARIANT {i}' for i in INVS if not (spec and i in ('CondensedOk', 'MaskIsSel'))]
    if emit:
        lines.append('INVARIANT Emit')
    if props and not spec:
        lines.append('PROPERTY Frame')
    lines.append('CHECK_DEADLOCK FALSE')
    return '\n'.join(lines) + '\n'


def const(nr, nc, maxobj=3, maxrows=4, maxpats=4):
    return {'NR': nr, 'NC': nc, 'MaxObj': maxobj, 'MaxRows': maxrows, 'MaxPats': maxpats,
            'NanPairs': {(2, 1, 3)}}


def _replay_chunk(args):
    import json
    base, lines, c, scratch = args
    out = []
    nsteps = 0
    nontriv = 0
    for j, line in enumerate(lines):
        i = base + j
        hist = json.loads(line)['hist']
        flavour = S.ext_flavour(i)
        res = S.replay(hist, c, flavour, variant=i // 4, scratch=scratch)
        nsteps += len(hist)
        if any(st['ev']['op'] not in ('copy', 'dict', 'matrices', 'saveload', 'to_df', 'drop') for st in hist):
            nontriv += 1
        if res is not None:
            out.append((i, flavour, res, hist))
    return len(lines), nsteps, nontriv, out


def replay_all(ctx, pid, r, c, label):
    """replay the behaviours TLC emitted (streamed from disk) in 16 processes"""
    def jobs():
        base = 0
        for chunk in r.iter_lines(100):
            yield (base, chunk, c, str(ctx.scratch))
            base += len(chunk)
    n = 0
    with mp.Pool(16) as pool:
        for cnt, nsteps, nontriv, bad in pool.imap_unordered(_replay_chunk, jobs()):
            n += cnt
            ctx.count(nsteps)
            ctx.nontrivial_extra += nontriv
            for i, flavour, res, hist in bad:
                k, key, detail = res
                ctx.violation(f'{pid}/{key}', f'step {k + 1} of a history leaves the specification: {key}',
                              {'const': {**c, 'NanPairs': sorted(c['NanPairs'])}, 'flavour': flavour,
                               'variant': i // 4, 'step': k, 'events': [st['ev'] for st in hist],
                               'detail': detail, 'hist': hist})
    return n


def _trace_one(args):
    seed, c, length, ops, scratch = args
    rng = np.random.default_rng(seed)
    flavour = S.ext_flavour(seed)
    return seed, flavour, S.random_trace(rng, c, flavour, length, ops, scratch=scratch)


def record_and_validate(ctx, pid, c, ntraces, length, ops=None, spec_ops='AllOps'):
    ops = ops or [o for o in ALLOPS]
    jobs = [(ctx.seed * 100003 + i, c, length, ops, str(ctx.scratch)) for i in range(ntraces)]
    with mp.Pool(16) as pool:
        out = pool.map(_trace_one, jobs, chunksize=8)
    traces, meta = [], []
    for seed, flavour, events in out:
        if events and events[-1].get('post') is None:
            bad = events[-1]
            key = bad['error'].split(':')[0]
            ctx.violation(f"{pid}/{bad['ev']['op']}/raises/{key}" if not key.startswith('projection') else
                          f"{pid}/{bad['ev']['op']}/{key.split('/')[1]}",
                          f"recorded history: {bad['ev']['op']} fails inside the documented contract: {bad['error']}",
                          {'seed': seed, 'flavour': flavour, 'events': [x['ev'] for x in events], 'error': bad['error']})
            events = events[:-1]
        if events:
            traces.append([{'ev': x['ev'], 'post': x['post'], 'ret': x.get('ret', [[], []])} for x in events])
            meta.append((seed, flavour))
            ctx.count(len(events))
    rejected = ctx.validate('MC_Trace_RdmsStore',
                            cfg(c['NR'], c['NC'], 0, 2, maxobj=c['MaxObj'], maxrows=c['MaxRows'],
                                maxpats=c['MaxPats'], emit=False, spec=True, ops=spec_ops),
                            traces, name='trace_store')
    for idx, diag in rejected:
        if idx < 0:
            ctx.violation(f'{pid}/trace/invariant/{diag[0].get("invariant")}',
                          'an invariant of RdmsStore fails along a recorded history', diag[0])
            continue
        d = diag[0] if diag else {}
        if d and not d.get('enabled', True):
            if str(d.get('ev', {}).get('op', '')).startswith('boot_'):
                # the draw was OBSERVED at numpy.random.randint: a draw the specification does not enable (wrong
                # number of draws, draws outside the groups) is the library's doing, not the recorder's
                ctx.violation(f"{pid}/{d['ev']['op']}/draw",
                              'observed bootstrap draw is not a draw of as many groups as there are distinct groups',
                              {'seed': meta[idx][0], 'flavour': meta[idx][1], 'diag': d,
                               'events': [x['ev'] for x in traces[idx]]})
                continue
            raise MachineryError(f'recorder issued an event the specification does not enable: {d.get("ev")}')
        ev = d.get('ev', {})
        op = ev.get('op', '?')
        slot = d.get('slot', 0)
        key = f'{op}/returned-indices'
        if slot:
            logged = traces[idx][d['l'] - 1]['post'][slot - 1]
            field = S.diff(S.norm_abs(logged), S.norm_abs(d['expected'][slot - 1])) or 'state'
            prev = traces[idx][d['l'] - 2]['post'] if d['l'] >= 2 else None
            was_live = (slot == 1) if prev is None else bool(prev[slot - 1]['pats'])
            is_result = (slot == ev.get('o') and op in ('reorder', 'sort_alpha', 'sort_list', 'append')) or not was_live
            key = f'{op}/{field}' if is_result else f'frame/{op}/{field}'
        ctx.violation(f'{pid}/{key}',
                      'recorded post-state differs from Apply(objs, e) of the specification',
                      {'seed': meta[idx][0], 'flavour': meta[idx][1], 'diag': d,
                       'events': [x['ev'] for x in traces[idx]],
                       'logged_post': traces[idx][d.get('l', 1) - 1]['post'] if d else None})
    # binding self-test: a corrupted recorded field must be rejected (a trace spec that accepts anything
    # would make every verdict above worthless)
    import copy
    probe = None
    for t in traces:
        for k, ev in enumerate(t):
            slots = [o for o in ev['post'] if o['pats'] and o['vec'] and o['vec'][0]]
            if slots:
                probe = copy.deepcopy(t[:k + 1])
                tgt = [o for o in probe[-1]['post'] if o['pats'] and o['vec'] and o['vec'][0]][0]
                tgt['vec'][0][0] = 999 if tgt['vec'][0][0] != 999 else 998
                break
        if probe:
            break
    if probe is not None:
        before = ctx.traces
        rej = ctx.validate('MC_Trace_RdmsStore',
                           cfg(c['NR'], c['NC'], 0, 2, maxobj=c['MaxObj'], maxrows=c['MaxRows'],
                               maxpats=c['MaxPats'], emit=False, spec=True, ops=spec_ops),
                           [probe], name='trace_store_selftest', count=False)
        ctx.traces = before
        if not rej:
            raise MachineryError('binding self-test failed: a corrupted recorded value was accepted by Trace_RdmsStore')
        ctx.extra['binding_selftest'] = 'corrupted vec entry rejected at event %d' % (rej[0][1][0].get('l', -1) if rej[0][1] else -1)
    return len(traces)


def run(ctx):
    ctx.rule = ('TLC enumerates every operation history of RdmsStore up to the stated depth (argument '
                'domains full or trimmed), each replayed into real RDMs objects in one of 4 descriptor '
                'flavours with all live objects compared after every step; non-trivial = history containing '
                'at least one operation other than copy/dict/matrices/saveload/to_df/drop; plus random '
                'histories recorded from real objects and validated by Trace_RdmsStore')
    ctx.assumptions = ['projection harness/rdmstore.py:project is faithful',
                       'token values make every entry self-describing',
                       'admissibility = Enabled() of RdmsStore.tla (documented contracts)']
    thorough = ctx.tier == 'thorough'
    # (NR, NC, depth, arglevel, emit one in ..)
    if thorough:
        runs = [(3, 3, 2, 2, 1), (2, 4, 2, 2, 1), (2, 3, 3, 1, 1)]
    else:
        runs = [(3, 3, 2, 2, 3), (2, 4, 2, 2, 6), (2, 3, 3, 1, 12)]
    total = 0
    ctx.exhaustive = all(x[4] == 1 for x in runs)
    for nr, nc, depth, al, mod in runs:
        r = ctx.tlc('MC_RdmsStore', cfg(nr, nc, depth, al, emitmod=mod), name=f'store_{nr}{nc}_d{depth}_a{al}',
                    timeout=3000)
        if not r.n_emitted:
            raise MachineryError('TLC emitted no behaviours')
        first = next(r.iter_emitted())
        ctx.sample({'const': [nr, nc, depth, al], 'events': [st['ev'] for st in first['hist']]})
        total += replay_all(ctx, 'C10', r, const(nr, nc), f'{nr}{nc}{depth}{al}')
    # long random behaviours of the specification (trimmed argument domains keep -simulate fast)
    nsim, dsim = (320, 8) if not thorough else (4000, 12)
    r = ctx.tlc('MC_RdmsStore', cfg(3, 3, dsim, 1, props=False), name='store_sim',
                simulate=f'num={nsim // 16}', depth=dsim + 1, workers=16, timeout=900)
    if r.n_emitted < nsim // 2:
        raise MachineryError(f'simulation emitted only {r.n_emitted} behaviours')
    total += replay_all(ctx, 'C10', r, const(3, 3), 'sim')
    ctx.extra['behaviours_replayed'] = total
    ctx.traces += total
    # implementation -> specification
    n = record_and_validate(ctx, 'C10', const(3, 4), 300 if not thorough else 3000, 10 if not thorough else 16)
    ctx.extra['recorded_histories_validated'] = n
