"""X01 (growth check beyond the 20 listed properties) - the DECISION layer of rsatoolbox.vis: what is drawn where.

Specification: specs/PlotDecisions.tla (exact oracle over integers / rationals).  For plot_model_comparison the
actions follow the stages of the code - Means, Sort, Test, Correct, Mark, Layout - and state
 (a) the bars come in the order `sort` demands and every bar's height / label / error bar / colour / markers belong
     to the same model (theorem ModelLevel: read per model, the picture does not depend on the order),
 (b) bar top = mean over the samples, error bar = SEM / confidence interval of the Result,
 (c) a pair / a model is marked iff its p-value is STRICTLY below the threshold after the chosen correction
     (uncorrected, Benjamini-Hochberg step-up, Bonferroni over the k(k-1)/2 pairs; Bonferroni over the k models for the
     tests against 0 and against the lower noise-ceiling bound), and what each style of the upper panel (nili, nili2,
     golan, arrows, cliques) draws for the marked pairs,
 (d) the noise-ceiling box spans [mean lower bound, mean upper bound] over all bars,
 (e) show_rdm: grid shape from n_row / n_column / colour-bar option, which RDM sits in which panel, image = RDM with
     the NaN mask, titles, tick labels, colour bars; plus color_scale, the displayed time points of plot_timecourse and
     the node positions of the model-family graph,
 (f) plotting never changes the Result / RDMs it is given.
TLC checks the theorems SigSymmetric, SigBelowAlpha, Nested, BHSelfConsistent, OrderSorted, ModelLevel, NiliPartition,
GolanDominance, CliquesExact, ArrowsSatisfiable, GridShows, GridShape, ScaleEnds, TimeEnds, FamilyDistinct on the grids.

spec -> impl : every emitted vector is replayed through the real functions (Agg backend) and the decisions are read back
               from the returned Figure / Axes.  Bootstrap-type Results over a power-of-two number of samples make
               every p-value a dyadic rational, so p-values ON a threshold are decided exactly; given p-values are
               realised through the t-test.  Every documented option value outside the rotation is probed.
impl -> spec : plots of Results of the real eval_fixed / eval_bootstrap_rdm / eval_bootstrap_pattern / eval_bootstrap
               (and numpy-generated fixed evaluations) are recorded and re-decided by Trace_PlotDecisions.tla.
Every run corrupts expected decisions and recorded fields and requires that they are reported / rejected.
"""
from __future__ import annotations

import collections
import concurrent.futures
import copy
import json
import multiprocessing as mp
import time
import zlib

from harness import plotdecisions as P
from harness.core import MachineryError

INVS = ['GridAdmissible', 'SigSymmetric', 'SigBelowAlpha', 'Nested', 'BHSelfConsistent', 'OrderSorted', 'ModelLevel',
        'NiliPartition', 'GolanDominance', 'CliquesExact', 'ArrowsSatisfiable', 'GridShows', 'GridShape', 'ScaleEnds',
        'TimeEnds', 'FamilyDistinct', 'FamGraphShape', 'MaskTriangles', 'Emit']


def cfg(part, level, gmod=1):
    lines = ['CONSTANTS', f'  Part = {part}', f'  Level = {level}', '  BarInputs <- BarGrid', '  PInputs <- PGrid',
             '  Alphas <- AlphaGrid', '  Sorts = {0, 1, 2}', '  Mpts = {0, 1, 2}', '  GridInputs <- GridGrid',
             '  ScaleInputs <- ScaleGrid', '  TimeInputs <- TimeGrid', '  FamilyNs <- FamilyGrid', '  FamGraphInputs <- FamGraphGrid', '  MaskInputs <- MaskGrid',
             f'  GivenEmitMod = {gmod}', 'INIT Init', 'NEXT Next']
    lines += [f'INVARIANT {i}' for i in INVS]
    lines.append('CHECK_DEADLOCK FALSE')
    return '\n'.join(lines) + '\n'


TRACE_CFG = '\n'.join(['CONSTANTS', '  BarInputs <- NoInputs', '  PInputs <- NoInputs', '  Alphas = {}', '  Sorts = {0}',
                       '  Mpts = {0}', '  GridInputs = {}', '  ScaleInputs <- NoInputs', '  TimeInputs = {}', '  FamilyNs = {}', '  FamGraphInputs = {}', '  MaskInputs = {}',
                       '  GivenEmitMod = 1', 'SPECIFICATION TSpec', 'CHECK_DEADLOCK FALSE']) + '\n'

STYLE_CLASSES = ['arrows', 'nili', 'nili2', 'golan', 'cliques']
REQUIRED = (
    ['src/boot', 'src/given', 'order/ties', 'fdr/intermediate-rank', 'eb/se', 'eb/ci', 'method/riem', 'method/other', 'ndim/2', 'ndim/3']
    + [f'sort/{s}' for s in P.SORTNAME.values()] + [f'mpt/{m}' for m in P.MPTNAME.values()]
    + [f'style/{s}' for s in STYLE_CLASSES + ['none']] + [f'stylesome/{s}' for s in STYLE_CLASSES]
    + [f'styleopt/{P.optkey(s)}' for s in P.STYLES] + [f'sortopt/{P.optkey(v)}' for vs in P.SORT_FLAV.values() for v in vs]
    + [f'mptopt/{P.optkey(v)}' for vs in P.MPT_FLAV.values() for v in vs]
    + [f'zero/{P.optkey(v)}' for v in P.ZERO_FLAV] + [f'nc/{P.optkey(v)}' for v in P.NC_FLAV]
    + [f'pairs/{m}/{o}' for m in P.MPTNAME.values() for o in ('none', 'some', 'all')]
    + [f'tie/{m}' for m in P.MPTNAME.values()]
    + ['zero/unmarked', 'zero/mixed', 'nc/unmarked', 'nc/mixed']
    + [f'colors/{c}' for c in ('none', 'single', 'single-rgba', 'per-model', 'per-model-array', 'gradient')]
    + [f'cv/{c}' for c in P.BOOT_CV + ['fixed']] + [f'k/{k}' for k in (2, 3, 4, 5)]
    + ['grid/both-none', 'grid/rows', 'grid/columns', 'grid/both', 'grid/both-none/figure-colorbar', 'cb/0', 'cb/1', 'cb/2',
       'pd/None', 'pd/cond', 'rd/0', 'rd/1', 'rd/2', 'nanmask/0', 'nanmask/1', 'nanmask/2', 'empty/0', 'empty/1',
       'tdisp/all', 'tdisp/subset', 'tdisp/adm2', 'tdisp/coloured0', 'tdisp/coloured1', 'cscale/anchors2', 'cscale/anchors5', 'family', 'famgraph/presence', 'famgraph/binary', 'famgraph/ties',
       'mask/sym0', 'mask/sym1', 'mask/sym2', 'mask/empty', 'mask/contour-checked'])


def report(ctx, by_key):
    for key, (n, what, case) in sorted(by_key.items()):
        for _ in range(n):
            ctx.violation(key, what, case)


def merge(total, by_key):
    for key, (n, what, case) in by_key.items():
        ent = total.setdefault(key, [0, what, case])
        ent[0] += n


def group_vectors(results):
    """-> list of (stable index, kind, [json lines]) - one group per input"""
    groups = collections.OrderedDict()
    n = 0
    for r in results:
        for chunk in r.iter_lines(2000):
            for line in chunk:
                i = line.index('"inp":')
                depth, j = 0, i + 6
                while True:                      # the inp object: balanced braces (no strings with braces in these records)
                    c = line[j]
                    if c == '{':
                        depth += 1
                    elif c == '}':
                        depth -= 1
                        if depth == 0:
                            break
                    j += 1
                key = line[i + 6:j + 1]
                groups.setdefault(key, []).append(line)
                n += 1
    out = []
    for key, lines in groups.items():
        inp = json.loads(key)
        out.append((zlib.crc32(json.dumps(inp, sort_keys=True).encode()), inp['kind'], lines))
    out.sort(key=lambda g: g[0])
    return out, n


def replay(ctx, groups):
    chunks = [groups[i:i + 40] for i in range(0, len(groups), 40)]
    tot = {'evals': 0, 'classes': set(), 'nontriv': set(), 'groups': 0}
    found = {}
    with mp.Pool(16) as pool:
        for stats, by_key in pool.imap_unordered(P.replay_chunk, [(c, ctx.seed) for c in chunks]):
            tot['evals'] += stats['evals']
            tot['groups'] += stats['groups']
            tot['classes'] |= stats['classes']
            tot['nontriv'] |= stats['nontriv']
            merge(found, by_key)
    return tot, found


def selftest_vectors(groups):
    """binding spec -> impl: corrupted expected decisions must be reported by the replay, the clean vector must not"""
    done = set()
    for gid, kind, lines in groups:
        if kind != 'bars':
            continue
        recs = [json.loads(l) for l in lines]
        r0 = recs[0]
        inp = r0['inp']
        if inp['src'] != 'boot' or inp['k'] < 3 or not r0['lay']['nili'] or not r0['lay']['nili2'] or inp['sort'] != 0:
            continue
        idx = next((i for i in range(gid, gid + 4000)
                    if P.choose_options(inp, i, 'bootstrap')['test_pair_comparisons'] == 'nili'), None)
        if idx is None:
            continue
        clean, _ = P.check_bars_group(recs, idx)
        clean_keys = {k for k, _, _ in clean}

        def c_height(rec):
            rec['h'][0] = [rec['h'][0][0] + rec['h'][0][1], rec['h'][0][1]]
            return rec

        def c_pairs(rec):
            a, b = rec['lay']['nili2'][0]
            rec['sig'][a - 1][b - 1] = rec['sig'][b - 1][a - 1] = True
            return rec

        def c_zero(rec):
            rec['zero'] = [x for x in range(1, rec['inp']['k'] + 1) if x not in rec['zero']]
            return rec

        def c_ceil(rec):
            rec['ceil'][1] = [rec['ceil'][1][0] + rec['ceil'][1][1], rec['ceil'][1][1]]
            return rec

        for name, fn, frag in (('height', c_height, '/height'), ('pairs', c_pairs, 'X01/c/pairs/'), ('zero', c_zero, 'X01/c/zero/'),
                               ('ceiling', c_ceil, 'X01/d/ceiling/bounds')):
            if any(frag in k for k in clean_keys):
                done.add(name)          # the implementation already deviates in this clause on this vector: it IS reported
                continue
            f, _ = P.check_bars_group(recs, idx, corrupt=fn)
            if not any(frag in k for k, _, _ in f):
                raise MachineryError(f'self-test: a corrupted expected {name} was not reported by the replay')
            done.add(name)
        if len(done) == 4:
            return 4
    raise MachineryError(f'self-test: no suitable vector for the binding self-test (done: {sorted(done)})')


# ------------------------------------------------------------------------------------------------ traces
def corrupt_event(ev, what):
    e = copy.deepcopy(ev)
    if e.get('op') != 'bars' or e['raised'] or e['unreadable']:
        return None
    if what == 'segs' and e['style'] == 'nili' and e['segs']:
        e['segs'] = e['segs'][1:]
        return e
    if what == 'segs+' and e['style'] == 'nili2' and e['segs'] and len(e['segs']) < e['k'] * (e['k'] - 1) // 2:
        have = {tuple(s) for s in e['segs']}
        e['segs'].append(next([i, j] for i in range(1, e['k'] + 1) for j in range(i + 1, e['k'] + 1) if (i, j) not in have))
        return e
    if what == 'ord' and e['sort'] != 0 and e['k'] >= 2:
        e['ord'][0], e['ord'][-1] = e['ord'][-1], e['ord'][0]
        return e
    if what == 'zero' and e['zon'] == 1:
        e['zero'] = [x for x in range(1, e['k'] + 1) if x not in e['zero']]
        return e
    if what == 'h':
        e['h'][0] += 7
        return e
    if what == 'wings' and e['style'] == 'golan' and len(e['wings']) >= 2:
        e['wings'] = e['wings'][::-1]
        return e
    if what == 'cliques' and e['style'] == 'cliques' and e['cliques'] and len(e['cliques'][0]) > 2:
        e['cliques'][0] = e['cliques'][0][:-1]
        return e
    if what == 'elems' and e['style'] == 'arrows' and e['elems']:
        e['elems'] = []
        return e
    if what == 'pp' and e['style'] in ('nili', 'nili2'):
        e['pp'] = [[0 if i != j else v for j, v in enumerate(row)] for i, row in enumerate(e['pp'])]       # inputs no longer those of the picture
        return e
    return None


def trace_key(ev, clause, diag):
    if ev['op'] == 'grid':
        return f'X01/trace/show_rdm/{clause}'
    d = diag.get('diag', {})
    if clause == 'raised':
        exc = ev['raised'].split(':')[0]
        if ev['style'] == 'cliques' and d.get('nsig') == d.get('npair'):
            return f'X01/total/plot_model_comparison/cliques/all-significant/{exc}'
        return f'X01/total/plot_model_comparison/trace/{ev["style"]}/{exc}'
    if clause == 'pairs' and ev['style'] == 'arrows' and d.get('missing') and not d.get('extra'):
        return 'X01/c/arrows/adjacent-pair-not-drawn' if all(b - a == 1 for a, b in d['missing']) else 'X01/c/arrows/distant-pair-not-drawn'
    if clause == 'pairs':
        return f'X01/trace/pairs/{P.MPTNAME[ev["mpt"]]}/{ev["style"]}'
    if clause == 'frame':
        return 'X01/f/frame/plot_model_comparison'
    return f'X01/trace/{clause}/{ev["tt"]}'


def record_and_validate(ctx, ntraces):
    seeds = [ctx.seed * 1_000_003 + i for i in range(ntraces)]
    chunks = [seeds[i:i + 12] for i in range(0, len(seeds), 12)]
    traces, meta = [], []
    skipped = collections.Counter()
    cover = collections.Counter()
    with mp.Pool(16) as pool:
        for out in pool.imap(P.trace_chunk, chunks):
            for seed, events, sk, err in out:
                if err:
                    raise MachineryError(f'trace recorder failed for seed {seed}: {err}')
                skipped.update(sk)
                for e in events:
                    traces.append([e])
                    meta.append(seed)
                    ctx.count(1)
                    if e['op'] == 'bars':
                        cover[f'source/{e["source"]}'] += 1
                        cover[f'tt/{e["tt"]}'] += 1
                        cover[f'style/{e["style"]}'] += 1
                        cover[f'mpt/{e["mpt"]}'] += 1
                        cover[f'sort/{e["sort"]}'] += 1
                        if e['segs'] or e['wings'] or e['elems']:
                            cover['marked'] += 1
                    else:
                        cover['op/grid'] += 1
    for k, v in skipped.items():
        for _ in range(v):
            ctx.unsupported_case(f'trace/{k}', 'event not logged: the scaled integers would not decide it (generator constraint)')
    need = [f'source/{s}' for s in P.REAL + ['synthetic-fixed']] + ['tt/t-test', 'tt/bootstrap', 'tt/ranksum', 'op/grid', 'marked'] \
        + [f'style/{s}' for s in STYLE_CLASSES + ['none']] + [f'mpt/{m}' for m in range(3)] + [f'sort/{m}' for m in range(3)]
    missing = [c for c in need if not cover[c]]
    if missing or len(traces) < 2 * ntraces:
        raise MachineryError(f'vacuous trace recording: {len(traces)} events, missing classes {missing}')
    before = ctx.traces
    rejected = ctx.validate('MC_Trace_PlotDecisions', TRACE_CFG, traces, name='trace_plotdecisions', timeout=1500)
    rej = {idx for idx, _ in rejected}
    # binding impl -> spec: corrupted copies of ACCEPTED events must be rejected (a second, small validation run)
    corrupted = []
    for what in ('segs', 'segs+', 'ord', 'zero', 'h', 'wings', 'cliques', 'elems', 'pp'):
        for i, t in enumerate(traces):
            c = corrupt_event(t[0], what) if i not in rej else None
            if c is not None:
                corrupted.append((what, [c]))
                break
    if len(corrupted) < 7:
        raise MachineryError(f'self-test: could only build corrupted traces for {[w for w, _ in corrupted]}')
    acc = ctx.traces
    rej2 = {idx for idx, _ in ctx.validate('MC_Trace_PlotDecisions', TRACE_CFG, [c for _, c in corrupted], name='trace_selftest',
                                           timeout=900, count=False)}
    ctx.traces = acc
    for j, (what, _) in enumerate(corrupted):
        if j not in rej2:
            raise MachineryError(f'self-test: trace validation accepted a recorded plot with a corrupted {what!r} field')
    ctx.extra['corrupted_traces_rejected'] = len(corrupted)
    found = {}
    for idx, diag in rejected:
        if idx < 0:
            raise MachineryError(f'trace validation failed: {diag}')
        ev = traces[idx][0]
        if not diag:
            raise MachineryError(f'trace {idx} neither accepted nor rejected')
        d = diag[0]
        if not d.get('enabled', True):
            raise MachineryError(f'recorder produced an event outside the specification: {ev}')
        for clause in d.get('clauses', []):
            merge(found, {trace_key(ev, clause, d): [1, f'recorded plot: clause {clause!r} does not hold for the decisions re-derived by '
                                                        f'Trace_PlotDecisions from the logged p-values / means' +
                                                        (f' ({ev["raised"]})' if clause == 'raised' else ''),
                                                     {'seed': meta[idx], 'event': ev, 'diag': d.get('diag')}]})
    report(ctx, found)
    ctx.extra['recorded_events'] = len(traces)
    ctx.extra['recorded_events_accepted'] = ctx.traces - before
    ctx.extra['recorded_classes'] = dict(cover)
    return len(traces)


# ------------------------------------------------------------------------------------------------ run
def run(ctx):
    if ctx.replay:
        stored = json.load(open(ctx.replay))
        case = stored['case']
        ctx.rule = f"replay of one stored case ({stored.get('key')})"
        if 'group' in case:
            recs = [json.loads(l) for l in case['group']]
            kind = recs[0]['inp']['kind']
            fn = {'bars': lambda: P.check_bars_group(recs, case['idx']), 'grid': lambda: P.check_grid(recs[0], case['idx']),
                  'cscale': lambda: P.check_cscale(recs[0], case['idx']), 'tdisp': lambda: P.check_tdisp(recs, case['idx']),
                  'family': lambda: P.check_family(recs[0], case['idx']), 'famgraph': lambda: P.check_famgraph(recs[0], case['idx']),
                  'mask': lambda: P.check_mask(recs[0], case['idx'])}[kind]
            F, _ = fn()
        elif 'event' in case:
            F = []
            rej = ctx.validate('MC_Trace_PlotDecisions', TRACE_CFG, [[case['event']]], name='trace_replay', timeout=600)
            for idx, diag in rej:
                for clause in (diag[0].get('clauses', []) if diag else []):
                    F.append((trace_key(case['event'], clause, diag[0]), f'clause {clause}', case))
        else:
            F, _, _ = P.probes(ctx.seed)
        for key, what, c in F:
            ctx.count(1)
            if key == stored.get('key'):
                ctx.violation(key, what, c)
        ctx.sample({'replayed': stored.get('key')})
        return
    thorough = ctx.tier == 'thorough'
    level = 2 if thorough else 1
    ctx.rule = ('TLC enumerates (1) bootstrap-type Results over 8 samples (columns from catalogues without within-sample ties: all '
                'p-values dyadic) x alpha x sort x correction, (2) given p-value matrices for 2-6 models (realised through the '
                't-test), (3) show_rdm grids, colour scales, time-course displays, model-family graphs; every emitted vector is '
                'replayed through the real plotting function and the decisions are read back from the Axes. Non-trivial = a picture '
                'in which at least one pair or model is marked; a grid of more than one RDM; a colour scale of more than two colours; '
                'a time course showing a subset. Plus recorded plots of real eval_* Results re-decided by Trace_PlotDecisions.')
    ctx.assumptions = [
        'k >= 2 models for the pairwise decisions (a single model is probed for totality only); 0 < alpha <= 1',
        'marked iff p < threshold, strictly (the code; the documentation says "threshold"); FDR = Benjamini-Hochberg step-up with '
        'the same strict comparison',
        'equal performances may be drawn in any order that sorts them',
        'bootstrap grid: no two models tie within a sample, no two models identical (p-values exact dyadic floats)',
        'given p-values are realised through t = ppf(1 - p/2): vectors with a p-value exactly on a threshold are not replayed '
        '(the bootstrap grid covers the ties)',
        'recorded plots: p-values logged as floor(p * 1e5); events with a p-value within 2e-5 of a threshold or two performances '
        'within 2e-6 are not logged (counted as unsupported)',
        'p-value definitions are those of inference_util.all_tests (property C06); only the decisions taken on them are specified here',
        'arrows: relational specification (elements drawn assert exactly the marked pairs; elements on one height do not overlap), '
        'the heuristic itself is not mirrored',
        'show_rdm: n_row * n_column >= number of panels when both are given; heights of elements in the upper panel are only required '
        'to be distinct per element and inside the panel',
        'SEM / confidence-interval error bars are compared with Result.get_sem / get_errorbars to 1e-11 (SEM of the grid: exact)']
    gmod = 8 if thorough else 10
    t0 = time.time()
    with concurrent.futures.ThreadPoolExecutor(2) as ex:
        f1 = ex.submit(ctx.tlc, 'MC_PlotDecisions', cfg(1, level), name='plot_bootstrap_grid', timeout=1700, workers=8)
        f2 = ex.submit(ctx.tlc, 'MC_PlotDecisions', cfg(2, level, gmod), name='plot_given_and_small', timeout=1700, workers=8)
        r1, r2 = f1.result(), f2.result()
    phases = {'tlc_s': round(time.time() - t0, 1)}
    for r in (r1, r2):
        if not r.n_emitted:
            raise MachineryError('TLC emitted no vectors')
    ctx.exhaustive = True
    groups, nlines = group_vectors([r1, r2])
    if nlines != r1.n_emitted + r2.n_emitted:
        raise MachineryError(f'grouped {nlines} of {r1.n_emitted + r2.n_emitted} vectors')
    ctx.extra['self_test_corrupted_expectations_reported'] = selftest_vectors(groups)
    for g in groups[::max(1, len(groups) // 5)][:5]:
        rec = json.loads(g[2][0])
        ctx.sample({k: rec[k] for k in rec if k != 'pv'})
    t0 = time.time()
    tot, found = replay(ctx, groups)
    phases['replay_s'] = round(time.time() - t0, 1)
    if tot['groups'] != len(groups):
        raise MachineryError(f"replayed {tot['groups']} of {len(groups)} inputs")
    report(ctx, found)
    missing = [c for c in REQUIRED if c not in tot['classes']]
    if missing:
        raise MachineryError(f'vacuous run: option values / decision outcomes never replayed: {missing}')
    ctx.count(tot['evals'])
    for key in tot['nontriv']:
        ctx.nontriv(key)
    ctx.traces += tot['groups']
    ctx.extra['inputs_replayed'] = tot['groups']
    ctx.extra['vectors_emitted'] = nlines
    ctx.extra['classes_replayed'] = sorted(tot['classes'])

    # ---- every documented option value outside the rotation; show_rdm_panel; the classic colour map
    t0 = time.time()
    found = {}
    for s in range(3 if thorough else 1):
        F, n, ran = P.probes(ctx.seed * 17 + s)
        ctx.count(n)
        if len(ran) < 25:
            raise MachineryError(f'only {len(ran)} probes ran')
        for key, what, case in F:
            merge(found, {key: [1, what, case]})
    F, n = P.check_rdm_panel(ctx.seed)
    ctx.count(n)
    for ncol in ([256, 5, 9, 64, 101] if thorough else [256, 9]):
        F += P.check_classic(ncol)
        ctx.count(1)
    for key, what, case in F:
        merge(found, {key: [1, what, case]})
    report(ctx, found)
    phases['probes_s'] = round(time.time() - t0, 1)

    # ---- implementation -> specification
    t0 = time.time()
    record_and_validate(ctx, 1500 if thorough else 220)
    phases['record_validate_s'] = round(time.time() - t0, 1)
    ctx.extra['phase_wall'] = phases
