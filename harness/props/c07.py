"""C07 - Upper noise ceiling is unbeatable; lower is leave-one-out and not above it.

Specification: specs/NoiseCeiling.tla (on RdmsStore / CvSets).  Pool(method, rows) = NanMean o Normalise
with exact statistics (rank BEFORE mean for rho-a); the leave-one-out protocol PoolAll ; (LeaveOut(g) ;
PoolTrain ; Score)* ; Finish carries taint sets of source tokens with the invariants NcNoLeak /
NcDepsExact / NcAligned / NcUpperAll / NcScoredOnce / NcLooPartition; the ADVERSARY picks a candidate RDM
from an integer grid (every weak ordering for rho-a - decided exactly by TLC: RhoAOptimal) or a positive
rescaling / affine map of the data RDMs (XfInvariant decided exactly).

S -> I  value configurations: every (stack, candidate) / (stack, transformation) pair TLC emits is run
        through boot_noise_ceiling / pool_rdm; candidate <= upper is scored by the implementation's
        compare; bounds also compared with the kernel applied to TLC's exact statistics; harness-side
        candidates (data RDMs, +-eps along every axis of the pooled RDM, 200 random) added.
        protocol configurations: every fold structure (boot + cv) with token-valued data; what the
        wrapped pool_rdm / compare received is decoded from the numbers and compared with the deps of
        the specification; perturbation replay (alter group g => its prediction bit-identical).
I -> S  recorded boot / cv calls from randomised drivers validated by Trace_NoiseCeiling.tla
        (leave-one-out structure, bounds = fold averages, lower <= upper, candidates <= upper, exact
        rho-a bounds); a corrupted recorded value must be rejected on every run.
"""
from __future__ import annotations

import json
import multiprocessing as mp

import numpy as np

from harness import noiseceiling as N
from harness import rdmstore as S
from harness.core import MachineryError

NPROC = 8
INV_V = ['NcNoLeak', 'NcDepsExact', 'NcAligned', 'NcUpperAll', 'NcScoredOnce', 'NcLooPartition', 'NcCommonMask',
         'RankSum', 'RhoAOptimal', 'XfInvariant', 'EmitNC']
INV_P = ['NcNoLeak', 'NcDepsExact', 'NcAligned', 'NcUpperAll', 'NcScoredOnce', 'NcLooPartition', 'EmitNC']


def base_cfg(nr, nc, *, gens='NoGens', perml=0, kmax=3, methods='MOne', mode='value', valmax=0, candmax=0,
             masks='MaskNone', bys='BySubj', thin_s=1, thin_g=1, xforms='XfNone', byfilter='AnyBy', variants='Var1',
             cvcat='NoCat', thin_r=1, maxcalls=1):
    return '\n'.join([
        'CONSTANTS', f'  NR = {nr}', f'  NC = {nc}', '  MaxObj = 1', '  MaxRows = 9', '  MaxPats = 9', '  Depth = 0',
        '  NanPairs <- NanPairsNone', '  ArgLevel = 2', '  EmitMod = 1', '  Ops <- NoOps', f'  Gens <- {gens}',
        f'  PermLevel = {perml}', f'  KMax = {kmax}', f'  Methods <- {methods}', f'  Mode = "{mode}"',
        f'  ValMax = {valmax}', f'  CandMax = {candmax}', f'  Masks <- {masks}', f'  GroupBys <- {bys}',
        f'  ThinS = {thin_s}', f'  ThinG = {thin_g}', f'  ThinR = {thin_r}', f'  Xforms <- {xforms}', f'  ByFilter <- {byfilter}',
        f'  SrcVariants <- {variants}', f'  CvCat <- {cvcat}', f'  MaxCalls = {maxcalls}']) + '\n'


def vcfg(nr, nc, **kw):
    init = 'VInitCv' if kw.get('cvcat', 'NoCat') != 'NoCat' else 'VInit'
    return base_cfg(nr, nc, mode='value', **kw) + f'INIT {init}\nNEXT NcNext\n' + \
        ''.join(f'INVARIANT {i}\n' for i in INV_V) + 'PROPERTY DataFrame\nCHECK_DEADLOCK FALSE\n'


def poolcfg(nr, nc, **kw):
    return base_cfg(nr, nc, mode='value', methods='MPool', **kw) + 'INIT PoolInit\nNEXT NcNext\n' + \
        'INVARIANT PoolKindsAgree\nINVARIANT V3Adjugate\nINVARIANT NcCommonMask\nINVARIANT EmitNC\nCHECK_DEADLOCK FALSE\n'


def pcfg(nr, nc, **kw):
    return base_cfg(nr, nc, mode='proto', **kw) + 'INIT PInit\nNEXT NcNext\n' + \
        ''.join(f'INVARIANT {i}\n' for i in INV_P) + 'CHECK_DEADLOCK FALSE\n'


def tcfg(nr, nc):
    return base_cfg(nr, nc, mode='trace', methods='MAll', maxcalls=9) + 'SPECIFICATION TSpec\n' + \
        ''.join(f'INVARIANT {i}\n' for i in INV_P[:-1]) + 'CHECK_DEADLOCK FALSE\n'


# ------------------------------------------------------------------ value configurations
def _stack_job(args):
    rec, cands, xfs, nc, seed, nrand = args
    rng = np.random.default_rng(seed)
    try:
        out, n_eval, stats = N.check_stack(rec, cands, xfs, nc, rng, n_random=nrand)
    except MachineryError as ex:
        return ('machinery', str(ex))
    return (out, n_eval, stats, rec['meth'], rec['by'], len(cands), len(xfs),
            len({tuple(r) for r in rec['val']}) > 1)


def run_value(ctx, name, nr, nc, nrand, **kw):
    r = ctx.tlc('MC_NoiseCeiling', vcfg(nr, nc, **kw), name=name, timeout=3000, workers=NPROC)
    if not r.n_emitted:
        raise MachineryError(f'{name}: TLC emitted nothing')
    groups = {}
    for o in r.iter_emitted():
        key = (json.dumps(o['case']) if o.get('api') == 'cv' else '', o['by'], o['meth'], json.dumps(o['val']),
               json.dumps(o.get('prev', [])))
        gr = groups.setdefault(key, {'rec': None, 'cands': [], 'xfs': []})
        if o['t'] == 'stack':
            gr['rec'] = o
        elif o['t'] == 'cand':
            gr['cands'].append(o['c'])
        elif o['t'] == 'xf':
            gr['xfs'].append(o['xf'])
    if any(g['rec'] is None for g in groups.values()):
        raise MachineryError(f'{name}: a candidate / transformation was emitted without its stack')
    keys = sorted(groups)
    ctx.sample({'run': name, 'stack': groups[keys[len(keys) // 2]]['rec'],
                'n_candidates_from_tlc': len(groups[keys[len(keys) // 2]]['cands'])})
    jobs = [(groups[k]['rec'], groups[k]['cands'], groups[k]['xfs'], nc,
             [ctx.seed, i], nrand) for i, k in enumerate(keys)]
    summary = {'stacks': 0, 'pairs': 0, 'xf': 0, 'max_cand_minus_upper': -np.inf, 'max_lower_minus_upper': -np.inf,
               'rho_a_stacks': 0, 'degenerate_zero_pool': 0}
    with mp.Pool(NPROC) as pool:
        for res in pool.imap_unordered(_stack_job, jobs, chunksize=8):
            if res[0] == 'machinery':
                raise MachineryError(res[1])
            out, n_eval, stats, meth, by, ncand, nxf, nontriv = res
            ctx.count(n_eval)
            summary['stacks'] += 1
            summary['pairs'] += ncand
            summary['xf'] += nxf
            summary['rho_a_stacks'] += meth == 'rho-a'
            summary['degenerate_zero_pool'] += bool(stats['degenerate'])
            summary['max_cand_minus_upper'] = max(summary['max_cand_minus_upper'], stats['margin'])
            summary['max_lower_minus_upper'] = max(summary['max_lower_minus_upper'], stats['lo_minus_up'])
            for key, what, case in out:
                ctx.violation(key, what, dict(case, run=name, NC=nc))
    for k in keys:
        if len({tuple(rw) for rw in groups[k]['rec']['val']}) > 1:
            ctx.nontriv(('v', name) + k)
    ctx.traces += summary['pairs'] + summary['xf']
    for k in ('max_cand_minus_upper', 'max_lower_minus_upper'):
        summary[k] = None if not np.isfinite(summary[k]) else float(summary[k])
    ctx.extra.setdefault('value_runs', {})[name] = summary
    if summary['pairs'] == 0 and 'subj' in kw.get('bys', 'BySubj').lower():
        raise MachineryError(f'{name}: no (stack, candidate) pair was emitted')
    return summary


def _pool_job(args):
    base, lines, nc, seed = args
    out, n_eval = [], 0
    for j, line in enumerate(lines):
        rec = json.loads(line)
        try:
            o, n = N.check_pool(rec, nc, np.random.default_rng([seed, base + j]), S.FLAVOURS[(base + j) % 4])
        except MachineryError as ex:
            return ('machinery', str(ex))
        out += o
        n_eval += n
    return (out, n_eval, len(lines))


def run_pool(ctx, name, nr, nc, **kw):
    """both pooling functions of the library against Pool(method, rows) of the specification"""
    r = ctx.tlc('MC_NoiseCeiling', poolcfg(nr, nc, **kw), name=name, timeout=3000, workers=NPROC)
    if not r.n_emitted:
        raise MachineryError(f'{name}: TLC emitted nothing')
    ctx.sample({'run': name, 'pool': next(r.iter_emitted())})
    n = 0
    with mp.Pool(NPROC) as pool:
        for res in pool.imap_unordered(_pool_job, ((k * 100, chunk, nc, ctx.seed) for k, chunk in enumerate(r.iter_lines(100)))):
            if res[0] == 'machinery':
                raise MachineryError(res[1])
            out, n_eval, cnt = res
            ctx.count(n_eval)
            n += cnt
            for key, what, case in out:
                if key.startswith('OBS/'):
                    obs = ctx.extra.setdefault('observations', {}).setdefault(key[4:], {'what': what, 'cases': 0, 'first': case})
                    obs['cases'] += 1
                    continue
                ctx.violation(key, what, dict(case, run=name))
    ctx.traces += n
    ctx.extra.setdefault('pool_runs', {})[name] = n


# ------------------------------------------------------------------ protocol configurations
def _proto_job(args):
    base, lines, const, seed = args
    out = []
    n_eval = sens = reached = 0
    methods = ['cosine', 'corr', 'rho-a', 'cosine_cov', 'corr_cov']
    for j, line in enumerate(lines):
        rec = json.loads(line)
        i = base + j
        try:
            res = N.check_proto(rec, const, S.FLAVOURS[i % 4], methods[i % 5], [seed, i])
        except MachineryError as ex:
            return ('machinery', str(ex))
        out += res[0]
        n_eval += res[1]
        sens += res[2]
        reached += res[3]
    return (out, n_eval, sens, len(lines), reached)


def run_proto(ctx, name, nr, nc, **kw):
    r = ctx.tlc('MC_NoiseCeiling', pcfg(nr, nc, **kw), name=name, timeout=3000, workers=NPROC)
    if not r.n_emitted:
        raise MachineryError(f'{name}: TLC emitted no protocol case')
    const = {'NR': nr, 'NC': nc}
    first = next(r.iter_emitted())
    ctx.sample({'run': name, 'api': first['api'], 'case': first['case'],
                'fold0': {'predDeps': first['folds'][0]['predDeps'], 'test_rows': first['folds'][0]['test']['rows'],
                          'test_pats': first['folds'][0]['test']['pats']}})

    def jobs():
        base = 0
        for chunk in r.iter_lines(20):
            yield (base, chunk, const, ctx.seed)
            base += len(chunk)
    n = sens = reached = nviol = 0
    with mp.Pool(NPROC) as pool:
        for res in pool.imap_unordered(_proto_job, jobs()):
            if res[0] == 'machinery':
                raise MachineryError(res[1])
            out, n_eval, s, cnt, rch = res
            ctx.count(n_eval)
            n += cnt
            sens += s
            reached += rch
            nviol += len(out)
            for key, what, case in out:
                ctx.violation(key, what, dict(case, run=name))
    for o in r.iter_emitted():
        if len(o['folds']) > 1:
            ctx.nontriv(('p', name, o['api'], json.dumps(o['case'])))
    ctx.traces += n
    ctx.extra.setdefault('protocol_runs', {})[name] = {'cases': n, 'reached_perturbation_replay': reached, 'perturbations_that_moved_the_prediction': sens}
    # vacuity guard of the replay itself - it must not depend on the library's numbers being right: cases that stop at a
    # structural violation never reach the replay, and those are reported, not vacuous
    if (reached > 0 and sens == 0) or (reached == 0 and nviol == 0):
        raise MachineryError(f'{name}: vacuous perturbation replay ({reached} cases reached it, no training entry ever moved a prediction)')
    return n


# ------------------------------------------------------------------ I -> S
def _trace_job(args):
    seed, const, kind = args
    try:
        return seed, kind, N.record_trace(seed, const, kind)
    except Exception as ex:   # the driver stays inside the documented contract
        return seed, kind, {'hdr': {}, 'ev': [], 'error': f'raises/{type(ex).__name__}', 'msg': f'{type(ex).__name__}: {ex}'}


def run_traces(ctx, ntr):
    # boot sessions on 4 x 4 objects (exact rho-a arithmetic stays inside 32 bits), cv sessions on 3 x 6 objects so that
    # the library's own generators split the conditions as well (k_pattern = 2)
    for const, kinds, n, name in (({'NR': 4, 'NC': 4}, ['boot-tok', 'boot-val'], (2 * ntr) // 3, 'nc_traces_boot'),
                                  ({'NR': 3, 'NC': 6}, ['cv-tok'], ntr // 3, 'nc_traces_cv')):
        _run_traces(ctx, const, kinds, n, name)


def _run_traces(ctx, const, kinds, ntr, name):
    jobs = [(ctx.seed * 100003 + i, const, kinds[i % len(kinds)]) for i in range(ntr)]
    with mp.Pool(NPROC) as pool:
        recs = pool.map(_trace_job, jobs, chunksize=8)
    traces, meta = [], []
    for seed, kind, t in recs:
        if t.get('error'):
            ctx.violation(f"C07/trace/{kind}/{t['error']}", f"recorded call cannot be assembled: {t.get('msg', t['error'])}",
                          {'seed': seed, 'kind': kind, 'hdr': t['hdr']})
            continue
        if t.get('skip'):
            ctx.unsupported_case(f"trace/{t['skip']}", 'two different pools returned bit-identical RDMs; deps cannot be read off')
            continue
        traces.append({'hdr': t['hdr'], 'ev': t['ev']})
        meta.append((seed, kind))
        ctx.count(len(t['ev']))
    if len(traces) < 0.7 * len(recs):
        raise MachineryError(f'only {len(traces)} of {len(recs)} recorded calls could be assembled')
    # binding self-test: corrupt recorded values of accepted-looking traces; they must be rejected
    corrupt = []
    for what in ('ret', 'deps', 'cand', 'fp'):
        for t in traces:
            evs = json.loads(json.dumps(t['ev']))
            if what == 'ret':
                k = next(i for i, e in enumerate(evs) if e['op'] == 'ret')
                evs[k]['lo8'] += 5000
            elif what == 'fp':
                k = max(i for i, e in enumerate(evs) if e['op'] == 'ret')
                evs[k]['fp'] += 1
            elif what == 'deps':
                if len(evs[0]['predDeps']) < 2:
                    continue
                evs[0]['predDeps'] = evs[0]['predDeps'][1:]
            else:
                k = next((i for i, e in enumerate(evs) if e['op'] == 'cand'), None)
                if k is None:
                    continue
                r_ = [e for e in evs[:k] if e['op'] == 'ret'][-1]      # the bounds this candidate is compared with
                evs[k]['s8'] = r_['up8'] + 7
            corrupt.append({'hdr': t['hdr'], 'ev': evs})
            break
    if len(corrupt) < (4 if 'boot-val' in kinds else 3):
        raise MachineryError('could not build the corrupted traces of the binding self-test')
    rejected = ctx.validate('MC_Trace_NoiseCeiling', tcfg(const['NR'], const['NC']), traces + corrupt,
                            name=name, timeout=1500)
    rej = {i: d for i, d in rejected}
    for j in range(len(corrupt)):
        if len(traces) + j not in rej:
            raise MachineryError('binding self-test failed: a corrupted recorded value was accepted by Trace_NoiseCeiling')
        ctx.traces -= 0
    ctx.extra['selftest_corrupted_traces_rejected'] = ctx.extra.get('selftest_corrupted_traces_rejected', 0) + len(corrupt)
    for idx, diag in rejected:
        if idx >= len(traces):
            continue
        if idx < 0:
            ctx.violation(f'C07/trace/invariant/{diag[0].get("invariant")}',
                          'an invariant of NoiseCeiling fails along a recorded call', diag[0])
            continue
        d = diag[0] if diag else {}
        why = d.get('why', 'not-accepted')
        if why in ('event-order', 'not-accepted'):
            raise MachineryError(f'recorder produced a trace the specification cannot step through: {meta[idx]} {d}')
        api = traces[idx]['hdr']['api']
        clause = {'lower-above-upper': 'c', 'candidate-beats-upper': 'a', 'upper-not-exact-rho-a': 'a',
                  'upper-not-average-of-folds': 'a', 'upper-deps': 'a', 'data-modified': 'frame'}.get(why, 'b')
        ctx.violation(f'C07/{clause}/trace/{api}/{why}', 'recorded call is not explained by the protocol of the specification',
                      {'seed': meta[idx][0], 'kind': meta[idx][1], 'hdr': traces[idx]['hdr'], 'diag': d,
                       'event': traces[idx]['ev'][d.get('l', 1) - 1] if d.get('l') else None})
    ctx.extra['recorded_sessions_validated'] = ctx.extra.get('recorded_sessions_validated', 0) + len(traces)
    return len(traces)


def run(ctx):
    ctx.rule = ('value runs: TLC enumerates (data stack, candidate) and (data stack, per-RDM transformation) pairs over integer '
                'grids (ties, common missing entries, groupings); every pair is executed on boot_noise_ceiling / pool_rdm / '
                'compare; non-trivial = stack whose RDMs are not all identical.  protocol runs: every fold structure '
                '(boot + cv generators with ceiling sets) replayed with token-valued data and perturbation replay; '
                'non-trivial = more than one fold.  plus recorded calls validated by Trace_NoiseCeiling')
    ctx.assumptions = ['scores of candidates and bounds are computed by the implementation\'s own compare (C03 checks compare)',
                       'kernel k_pool/k_sim (harness/noiseceiling.py) is trusted for cosine/corr last steps; checked against '
                       'TLC\'s exact rho-a rationals on every stack',
                       'optimality demanded only for cosine, corr, rho-a with singleton groups; ordering only for cosine, corr, '
                       'cosine_cov, corr_cov with singleton groups; missing entries common to all RDMs',
                       'dependence judged by bit-identity under perturbation']
    thorough = ctx.tier == 'thorough'
    nrand = 200
    if thorough:
        run_value(ctx, 'v_2x3', 2, 3, nrand, methods='MAll', valmax=3, candmax=5, xforms='XfAll')
        run_value(ctx, 'v_3x3', 3, 3, nrand, methods='MAll', valmax=2, candmax=3, bys='ByBoth', thin_s=1, thin_g=5)
        run_value(ctx, 'v_mask_a', 2, 4, nrand, methods='MAll', valmax=2, candmax=2, masks='Mask4a', thin_s=3, xforms='XfFew')
        run_value(ctx, 'v_mask_b', 2, 4, nrand, methods='MAll', valmax=2, candmax=2, masks='Mask4b', thin_s=53)
        run_value(ctx, 'v_3x4_mask', 3, 4, nrand, methods='MAll', valmax=1, candmax=2, masks='Mask4a', bys='ByBoth',
                  thin_s=3, thin_g=7)
        run_value(ctx, 'v_cv_3x4', 3, 4, nrand, methods='MAll', valmax=1, candmax=2, thin_r=2, thin_s=23, cvcat='CvCat34',
                  gens='GensAll', perml=2)
        run_value(ctx, 'v_xf_2x3', 2, 3, 20, methods='MAll', valmax=3, candmax=1, thin_s=3, xforms='XfExtreme')
        run_value(ctx, 'v_xf_cv', 3, 4, 20, methods='MAll', valmax=1, candmax=1, thin_r=5, thin_s=29, cvcat='CvCat34',
                  gens='GensAll', perml=2, xforms='XfExtreme3')
        run_value(ctx, 'v_sess_2x3', 2, 3, 20, methods='MAll', valmax=3, candmax=1, thin_s=7, maxcalls=3)
        run_value(ctx, 'v_sess_cv', 3, 4, 20, methods='MAll', valmax=1, candmax=1, thin_r=5, thin_s=7, cvcat='CvCat34',
                  gens='GensAll', perml=2, maxcalls=2)
    else:
        run_value(ctx, 'v_2x3', 2, 3, nrand, methods='MAll', valmax=3, candmax=4, thin_s=7, xforms='XfFew')
        run_value(ctx, 'v_3x3', 3, 3, nrand, methods='MAll', valmax=2, candmax=3, bys='ByBoth', thin_s=11, thin_g=47)
        run_value(ctx, 'v_mask_a', 2, 4, nrand, methods='MAll', valmax=2, candmax=2, masks='Mask4a', thin_s=17)
        run_value(ctx, 'v_cv_3x4', 3, 4, nrand, methods='MAll', valmax=1, candmax=1, thin_r=5, thin_s=7, cvcat='CvCat34',
                  gens='GensAll', perml=2)
        # clause e with extreme factors (1e-26, 1e-13, 1e+12; one RDM or all of them), boot and cv ceilings
        run_value(ctx, 'v_xf_2x3', 2, 3, 20, methods='MAll', valmax=3, candmax=1, thin_s=29, xforms='XfExtreme')
        run_value(ctx, 'v_xf_cv', 3, 4, 20, methods='MAll', valmax=1, candmax=1, thin_r=5, thin_s=131, cvcat='CvCat34',
                  gens='GensAll', perml=2, xforms='XfExtreme3')
        # sessions: every ordered pair of methods, one after the other, on ONE data object
        run_value(ctx, 'v_sess_2x3', 2, 3, 20, methods='MAll', valmax=2, candmax=1, thin_s=11, maxcalls=2)
        run_value(ctx, 'v_sess_cv', 3, 4, 20, methods='MAll', valmax=1, candmax=1, thin_r=5, thin_s=67, cvcat='CvCat34',
                  gens='GensAll', perml=2, maxcalls=2)
    # the two pooling functions (noise ceilings / fitters) against one Pool definition, every method they have
    if thorough:
        run_pool(ctx, 'pool_2x3', 2, 3, valmax=3)
        run_pool(ctx, 'pool_3x3', 3, 3, valmax=2, thin_s=3)
        run_pool(ctx, 'pool_2x4_mask', 2, 4, valmax=2, masks='Mask4ab', thin_s=7)
        run_pool(ctx, 'pool_2x4', 2, 4, valmax=1, thin_s=1)
    else:
        run_pool(ctx, 'pool_2x3', 2, 3, valmax=3, thin_s=7)
        run_pool(ctx, 'pool_2x4_mask', 2, 4, valmax=2, masks='Mask4a', thin_s=23)
        run_pool(ctx, 'pool_2x4', 2, 4, valmax=1, thin_s=7)
    ctx.exhaustive = thorough
    if thorough:
        run_proto(ctx, 'p_3x4', 3, 4, gens='GensAll', variants='Var13', kmax=3)
        run_proto(ctx, 'p_4x3', 4, 3, gens='GensRdm', variants='Var13')
        run_proto(ctx, 'p_3x6', 3, 6, gens='GensNested', variants='Var1', kmax=2, byfilter='ByFew')
    else:
        run_proto(ctx, 'p_3x3', 3, 3, gens='GensRdmNested', variants='Var13', kmax=3)
        run_proto(ctx, 'p_3x4_random', 3, 4, gens='GensRandom', variants='Var13', kmax=3, byfilter='ByTwo')
        # the library's own nested generator with the conditions split (k_pattern = 2 needs 6 conditions)
        run_proto(ctx, 'p_3x6_kfold', 3, 6, gens='GensNested', variants='Var1', kmax=2, byfilter='ByTwo')
    run_traces(ctx, 1500 if thorough else 240)
