"""C01 - RDM estimators equal their formula on condition means, correctly labelled.

Specification: specs/CalcRdm.tla (modes single / list / movie).  Init picks labels (any assignment of
observations to condition labels), small integer data, method and options; the actions Average,
Kernel(method), Build, SortAlpha, Single | ListBranch | Movie compute the exact result over integers
and rationals.  TLC checks the theorems Symmetric, ZeroIffEqualMeans, LabelOrderSorted,
OneRowPerLabel, EntryBelongsToLabels, RowsAreObservations, ListAligned, MovieIsStack, StagesAgree and
the action property PermInvariant on the definition itself and emits every terminal state as a test
vector with its exact expected result.

spec -> impl: every (sampled) vector is instantiated as real Dataset / TemporalDataset objects in
several flavours (descriptor containers, label types, dtypes incl. narrow ints, memory order, extra
descriptors, single / list, noise as matrix / list), calc_rdm / calc_rdm_movie is called and labels,
values (label-keyed) and descriptors are compared.  The trusted float kernels (sqrt / log last step,
array-form formula) are cross-checked against the exact TLA+ values on every vector and then judge the
library on random real-valued data for TLC-enumerated designs (float tier).

impl -> spec: random integer-grid inputs larger than the exhaustive domain are run through the library,
the returned labels and values (as exact rationals) are logged, and Trace_CalcRdm recomputes the
definition on the logged input in TLC; the logged output must be explained.
"""
from __future__ import annotations

import json
import multiprocessing as mp

import numpy as np

from harness import calcrdm as C
from harness.core import MachineryError

PID = 'C01'
ALL4 = ('euclidean', 'correlation', 'mahalanobis', 'poisson')


# ------------------------------------------------------------------------------------------
# spec -> impl replay (process pool)
# ------------------------------------------------------------------------------------------
def _replay_chunk(args):
    base, lines, seed, pid, nfloat = args
    rng = np.random.default_rng([seed, base])
    nvec = ncalls = nontriv = 0
    found = {}
    kernel_err = None
    classes = set()

    def add(p, vec, fl):
        key, what, detail = p
        e = found.get(key)
        if e is None:
            found[key] = [1, what, {'in': vec['in'], 'flavour': fl, 'detail': detail, 'expected_out': vec['out']}]
        else:
            e[0] += 1
    for j, line in enumerate(lines):
        vec = json.loads(line)
        inp = vec['in']
        nvec += 1
        err = C.kernel_crosscheck(vec)
        if err:
            kernel_err = (err, inp)
            break
        classes.add((inp['method'], bool(inp['rm']), bool(inp['useDesc']), inp.get('foldsrc', ''), bool(inp.get('unbal'))))
        labs = set(inp['lab']) | set(inp.get('lab2', []))
        if len(labs) >= 2:
            nontriv += 1
        i = base + j
        # base flavour on every second vector, half of those after a priming call on the same objects (multi-step)
        fls = [(dict(C.BASE, twice=True) if i % 4 == 0 else C.BASE) if i % 2 == 0 else C.flavour(rng)]
        if inp.get('fprec') and i % 2 == 1:
            fls[0] = dict(fls[0], twice=True)      # the same per-fold precision objects are used by two calls
        if inp['method'] not in ('poisson', 'poisson_cv') and i % 3 == 0:
            xs = inp.get('x') or inp.get('x3')
            fls.append(C.flavour(rng, narrow=True, nonneg=bool(np.min(xs) >= 0 and np.min(inp.get('x2', [[0]])) >= 0)))
        for fl in fls:
            ncalls += 1
            for p in C.check_vector(vec, fl, pid):
                add(p, vec, fl)
        if nfloat and i % nfloat == 0:
            for _ in range(3):
                ncalls += 1
                for p in C.float_case(vec, rng, pid):
                    add(p, vec, 'float tier')
    return nvec, ncalls, nontriv, found, kernel_err, classes


def replay(ctx, r, pid, *, nfloat=0, chunk=150, procs=16, want=None):
    def jobs():
        base = 0
        for lines in r.iter_lines(chunk):
            yield (base, lines, ctx.seed, pid, nfloat)
            base += len(lines)
    total = 0
    seen = set()
    with mp.Pool(procs) as pool:
        for nvec, ncalls, nontriv, found, kerr, classes in pool.imap_unordered(_replay_chunk, jobs()):
            seen |= classes
            if kerr:
                raise MachineryError(f'{kerr[0]} on input {kerr[1]}')
            total += nvec
            ctx.count(ncalls)
            ctx.nontrivial_extra += nontriv
            for key, (n, what, case) in found.items():
                for _ in range(n):
                    ctx.violation(key, what, case)
    ctx.traces += total
    # vacuity guard: every configured method / remove_mean / descriptor / fold-source value was replayed
    if want:
        have = {'methods': {c[0] for c in seen}, 'rms': {c[1] for c in seen}, 'usedescs': {c[2] for c in seen},
                'foldsrcs': {c[3] for c in seen}, 'unbals': {c[4] for c in seen}}
        for k, vals in want.items():
            if k in have and not set(vals) <= have[k]:
                raise MachineryError(f'vacuous run: configured {k} {sorted(map(str, vals))} but replayed only {sorted(map(str, have[k]))}')
    return total


def require_transformations(r, name):
    """every terminal state has >= 1 outgoing transformation step (PermuteRows / RelabelFolds / PermuteChannels);
    the staged pipeline alone generates exactly one transition per non-initial state"""
    if r.generated < r.distinct + max(1, r.n_emitted // 2):
        raise MachineryError(f'vacuous run {name}: {r.generated} transitions for {r.distinct} states - the '
                             'transformation actions were not taken')


def binding_selftest(ctx, r, pid):
    """a corrupted expected value must be noticed by the comparison (spec -> impl binding is live)"""
    for vec in r.iter_emitted():
        if vec['in']['method'] in ('euclidean', 'crossnobis') and len(vec['out']['lab']) >= 2 \
                and vec['out']['rdms'][0]['vec'] and vec['out']['rdms'][0]['vec'][0][1] != 0 \
                and not C.check_vector(vec, C.BASE, pid):
            e = vec['out']['rdms'][0]['vec'][0]
            vec['out']['rdms'][0]['vec'][0] = [e[0] + 1, e[1]]
            if not any('/value/' in p[0] or 'remove_mean' in p[0] or 'poisson_cv' in p[0]
                       for p in C.check_vector(vec, C.BASE, pid, diagnose=False)):
                raise MachineryError('binding self-test: a corrupted expected value was not noticed')
            return True
    raise MachineryError('binding self-test: no suitable vector emitted')


# ------------------------------------------------------------------------------------------
# impl -> spec
# ------------------------------------------------------------------------------------------
def _record(args):
    seed, mode = args
    return C.record_trace(seed, mode)


def record_and_validate(ctx, pid, modes, ntraces, *, procs=16, name='trace'):
    jobs = [(ctx.seed * 1000003 + 17 * i + 1, modes[i % len(modes)]) for i in range(ntraces)]
    with mp.Pool(procs) as pool:
        recs = pool.map(_record, jobs, chunksize=8)
    traces, meta = [], []
    skipped = 0
    for rec in recs:
        if rec[0] == 'skip':
            skipped += 1
        elif rec[0] == 'raises':
            _, inp, fl, msg = rec
            ctx.violation(f"{pid}/trace/raises/{msg.split(':')[0]}/{inp['mode']}/{inp['method']}",
                          f'recorded execution raised inside the documented contract: {msg}',
                          {'in': inp, 'flavour': fl})
        else:
            traces.append({'inp': rec[1], 'out': rec[3]})
            meta.append(rec)
            ctx.count(1)
    ctx.extra['trace_inputs_outside_generator_constraints'] = ctx.extra.get('trace_inputs_outside_generator_constraints', 0) + skipped
    if not traces:
        raise MachineryError('no execution recorded')
    accepted = validate(ctx, pid, traces, meta, name)
    # binding demonstrated: corrupting one recorded value must make the trace specification reject
    for idx in accepted:
        rd = traces[idx]['out']['rdms']
        if rd and rd[0] and len(rd[0][0]) >= 2 and rd[0][0][-1] != 0:
            bad = json.loads(json.dumps(traces[idx]))
            bad['out']['rdms'][0][0][-2] += 1
            acc2 = validate(ctx, pid, [bad], [meta[idx]], name + '_corrupt', report=False)
            if acc2:
                raise MachineryError('binding self-test: a corrupted recorded value was accepted by Trace_CalcRdm')
            ctx.extra['corrupted_trace_rejected'] = True
            break
    else:
        raise MachineryError('binding self-test: no accepted trace with an exact value to corrupt')
    return len(traces)


def validate(ctx, pid, traces, meta, name, report=True):
    """batch trace validation; returns the indices of the accepted traces"""
    wd = ctx.scratch / name
    wd.mkdir(parents=True, exist_ok=True)
    tf = wd / 'traces.json'
    tf.write_text(json.dumps(traces))
    r = ctx.tlc('MC_Trace_CalcRdm', C.trace_cfg(), name=name, env={'TRACE_FILE': str(tf)}, workers=1,
                must_pass=False, count=report, timeout=1500)
    if r.invariant:
        if report:
            ctx.violation(f'{pid}/spec/trace/{r.invariant}',
                          f'theorem {r.invariant} of CalcRdm fails on a recorded input', {'tlc_error': r.error_trace})
        return []
    if not r.ok:
        raise MachineryError(f'trace validation crashed:\n{r.out[-3000:]}')
    verdict = {}
    for o in r.iter_emitted():
        if 'accept' in o:
            verdict[o['accept'] - 1] = ('accept', o)
        elif 'reject' in o:
            verdict[o['reject'] - 1] = ('reject', o)
    accepted = []
    for i, t in enumerate(traces):
        v = verdict.get(i)
        if v is None:
            raise MachineryError(f'trace {i} got no verdict from Trace_CalcRdm')
        _, inp, fl, logged, fvec = meta[i]
        if v[0] == 'accept':
            detail = None
            if inp['method'] in ('poisson', 'poisson_cv'):
                detail = C.finish_poisson(inp, logged, fvec, v[1])
            if detail is None:
                accepted.append(i)
                if report:
                    ctx.traces += 1
            elif report:
                key = f'{pid}/c/value/poisson_cv/trace' if inp['method'] == 'poisson_cv' \
                    else f"{pid}/a/value/poisson/{inp['mode']}/trace"
                ctx.violation(key, 'recorded poisson value differs from the trusted log step applied to the exact '
                              'rates TLC computed for the logged input', {'in': inp, 'flavour': fl, 'detail': detail})
        elif report:
            d = v[1]
            key = f"{pid}/trace/{'labels' if not d.get('labels_ok', True) else 'value'}/{inp['mode']}/{inp['method']}"
            if d.get('labels_ok', True) and inp.get('rm') and inp['mode'] == 'list':
                key = f"{pid}/e/remove_mean-ignored/{inp['mode']}/{inp['method']}"
            if fl.get('class') == 'cvmany':
                key = f"{pid}/f/default-folds/many-repetitions/labels={fl['lab']}"
            ctx.violation(key, 'recorded output is not explained by the definition recomputed in TLC on the logged input',
                          {'in': inp, 'flavour': fl, 'logged': logged, 'first_bad': d.get('first_bad'),
                           'expected': d.get('expected')})
    return accepted


# ------------------------------------------------------------------------------------------
def run(ctx):
    ctx.rule = ('TLC enumerates every input of the stated grids (all labelings of the observations; data over a '
                'value grid or from a catalogue; method x options) and emits each terminal state as a vector with '
                'the exact expected RDM; every (sampled) vector is run through calc_rdm / calc_rdm_movie in >= 1 '
                'flavours and compared label-keyed; non-trivial = vector with >= 2 distinct condition labels; plus '
                'float-tier cases on TLC designs and recorded executions validated by Trace_CalcRdm')
    ctx.assumptions = ['projection harness/calcrdm.py:project is faithful',
                       'trusted float kernels (sqrt/log last step, array-form formula) - cross-checked against the '
                       'exact TLA+ values on every replayed vector',
                       'correlation inputs with a constant mean pattern (undefined r) are excluded / not judged',
                       'time points of a movie are distinct; bins are passed as ndarrays',
                       'list input without a condition descriptor: same obs descriptors, or unique labels permuted',
                       'remove_mean semantics as documented: channel mean of each mean pattern removed; no effect '
                       'on correlation / poisson']
    thorough = ctx.tier == 'thorough'
    W = 16 if thorough else 2          # quick: TLC's wall time is start-up + the sequential Init; more workers only burn CPU
    q = not thorough
    ALL6 = ALL4 + ('crossnobis', 'poisson_cv')
    runs = []
    # (name, cfg kwargs, float-tier rate)
    runs.append(('single_grid', dict(mode='single', nobs=3, nch=2, nlab=3, vals='Vals01' if q else 'Vals012',
                                     methods=('euclidean', 'correlation'), rms=(False, True), usedescs=(True, False),
                                     extids=(2,), emitmod=4 if q else 1,
                                     invs=['Symmetric', 'ZeroIffEqualMeans', 'LabelOrderSorted', 'OneRowPerLabel', 'EntryBelongsToLabels',
                                           'RowsAreObservations'] if q else None), 0))
    runs.append(('single_cat4', dict(mode='single', nobs=4, nch=2, nlab=3, datasrc='cat',
                                     dataids=(3,) if q else (1, 2, 3, 4),
                                     methods=ALL4, rms=(False, True), usedescs=(True, False), precids=(0, 1, 2),
                                     priorids=(1, 2), extids=(3,) if q else (1, 2, 3), emitmod=1), 40))
    runs.append(('single_perm', dict(mode='single', nobs=3, nch=2, nlab=3, datasrc='cat', dataids=(1,) if q else (1, 2),
                                     methods=ALL4, rms=(False, True), usedescs=(True, False), precids=(0, 2),
                                     priorids=(3,) if q else (1, 3), extids=(2,), permlevel=1, agree=True, emitmod=2 if q else 1), 0))
    runs.append(('list_33', dict(mode='list', nobs=3, nobs2=3, nch=2, nlab=3, datasrc='cat', dataids=(2,) if q else (1, 2),
                                 methods=ALL4, rms=(False, True), usedescs=(True, False), precids=(0, 1),
                                 priorids=(1, 2) if thorough else (2,), emitmod=1 if thorough else 6), 60))
    runs.append(('list_32', dict(mode='list', nobs=3, nobs2=2, nch=2, nlab=3, datasrc='cat', dataids=(2, 3) if thorough else (3,),
                                 methods=('euclidean', 'mahalanobis', 'poisson'), rms=(False, True), usedescs=(True,),
                                 precids=(0, 1, 2), unbals=(False, True), permlevel=0, agree=True, emitmod=2 if q else 1), 0))   # precisions 1 and 2: one per dataset
    runs.append(('movie_3', dict(mode='movie', nobs=3, nch=2, nlab=3, datasrc='cat', dataids=(1, 2), methods=ALL4,
                                 usedescs=(True, False), precids=(0, 1), priorids=(1, 2) if thorough else (2,), extids=(2,), nt=3,
                                 binids=(0, 1, 3, 4, 5) if thorough else (0, 3, 4),      # 3: interleaved bins {1,3},{2}; 4: bins out of temporal order
                                 emitmod=1 if thorough else 2), 50))
    if thorough:
        runs.append(('movie_1ch', dict(mode='movie', nobs=3, nch=1, nlab=2, datasrc='cat', dataids=(1,),
                                       methods=('euclidean',), usedescs=(True,), nt=2, binids=(0, 1)), 0))
    # ---- calc_rdm_movie(unbalanced=True), cross-validated movies, cross-validated / unbalanced lists --------------
    runs.append(('movie_unb', dict(mode='movie', nobs=3, nch=2, nlab=2, datasrc='cat', dataids=(1, 2), methods=ALL6,
                                   usedescs=(True, False), precids=(0, 2), priorids=(1, 2), extids=(2,), nt=2,
                                   binids=(0, 1, 2), nfold=2, foldsrcs=('default',), unbals=(True,),      # (3 observations: no balanced explicit design)
                                   emitmod=1 if thorough else 2), 30))
    runs.append(('movie_cv', dict(mode='movie', nobs=4, nch=2, nlab=2, datasrc='cat', dataids=(1, 3) if thorough else (3,),
                                  methods=('crossnobis', 'poisson_cv'), usedescs=(True,), precids=(0, 2), fprecids=(0, 1),
                                  priorids=(1, 2), extids=(2,), nt=2, binids=(0, 1, 2), nfold=2,
                                  foldsrcs=('explicit', 'default'), unbals=(False, True), agree=True), 30))
    runs.append(('list_cv_def', dict(mode='list', nobs=4, nobs2=4, nch=2, nlab=3, datasrc='cat', dataids=(1,),
                                     methods=('crossnobis', 'poisson_cv'), usedescs=(True,),
                                     precids=(0, 1), priorids=(1,), nfold=2, foldsrcs=('default',), unbals=(False, True),
                                     agree=True), 30))
    runs.append(('list_cv_exp', dict(mode='list', nobs=4, nobs2=4, nch=2, nlab=2 if q else 3, datasrc='cat', dataids=(4,),
                                     methods=('crossnobis', 'poisson_cv'), usedescs=(True,), precids=(0,), priorids=(2,),
                                     nfold=2, foldsrcs=('explicit',), unbals=(False, True), emitmod=2 if q else 6), 60))
    runs.append(('new_perm', dict(mode='movie', nobs=4, nch=2, nlab=2, datasrc='cat', dataids=(1,),
                                  methods=('crossnobis',) if q else ('crossnobis', 'poisson_cv', 'correlation'),
                                  usedescs=(True,), precids=(0,), priorids=(1,), extids=(2,), nt=2, binids=(0, 1), nfold=2,
                                  foldsrcs=('explicit',) if q else ('explicit', 'default'),
                                  unbals=(True, False), permlevel=1, agree=True, emitmod=4), 0))
    if thorough:
        runs.append(('list_perm', dict(mode='list', nobs=4, nobs2=2, nch=2, nlab=2, datasrc='cat', dataids=(1,),
                                       methods=('crossnobis', 'poisson_cv', 'euclidean'), usedescs=(True,), precids=(0,),
                                       priorids=(1,), nfold=2, foldsrcs=('explicit', 'default'), unbals=(True, False),
                                       permlevel=1, agree=True, emitmod=5), 0))
        runs.append(('movie_cv3', dict(mode='movie', nobs=4, nch=2, nlab=2, datasrc='cat', dataids=(2, 4),
                                       methods=ALL6, usedescs=(True,), precids=(0, 3), fprecids=(0, 2), priorids=(3,),
                                       extids=(3,), nt=3, binids=(0, 2, 3, 5), nfold=3, foldsrcs=('explicit', 'default'),
                                       unbals=(False, True), emitmod=8), 40))
        runs.append(('single_grid4', dict(mode='single', nobs=4, nch=2, nlab=3, vals='Vals012', methods=('euclidean',),
                                          rms=(False,), usedescs=(True,), extids=(2,), emitmod=10,
                                          invs=['Symmetric', 'ZeroIffEqualMeans', 'LabelOrderSorted', 'OneRowPerLabel',
                                                'EntryBelongsToLabels']), 0))
        runs.append(('single_neg', dict(mode='single', nobs=3, nch=2, nlab=3, vals='ValsNeg',
                                        methods=('euclidean', 'correlation', 'mahalanobis'), rms=(False, True),
                                        usedescs=(True, False), precids=(0, 2), extids=(3,), emitmod=3), 0))
        runs.append(('single_cat6', dict(mode='single', nobs=6, nch=3, nlab=3, datasrc='cat', dataids=(1, 3),
                                         methods=ALL4, rms=(False, True), usedescs=(True,), precids=(0, 1, 2),
                                         priorids=(1, 3), extids=(3,), emitmod=2), 25))
        runs.append(('single_perm4', dict(mode='single', nobs=4, nch=3, nlab=2, datasrc='cat', dataids=(4,),
                                          methods=ALL4, rms=(False, True), usedescs=(True,), precids=(0, 2),
                                          priorids=(2,), extids=(3,), permlevel=2, agree=True, emitmod=5), 0))
        runs.append(('list_43', dict(mode='list', nobs=4, nobs2=3, nch=3, nlab=3, datasrc='cat', dataids=(1, 4),
                                     methods=ALL4, rms=(False, True), usedescs=(True,), precids=(0, 2),
                                     priorids=(3,), emitmod=5), 40))
        runs.append(('movie_4', dict(mode='movie', nobs=4, nch=2, nlab=3, datasrc='cat', dataids=(3, 4), methods=ALL4,
                                     usedescs=(True, False), precids=(0, 3), priorids=(3,), extids=(1, 3), nt=3,
                                     binids=(0, 2, 3, 5), permlevel=0, emitmod=6), 50))
        runs.append(('movie_perm', dict(mode='movie', nobs=3, nch=2, nlab=2, datasrc='cat', dataids=(1, 4),
                                        methods=ALL4, usedescs=(True, False), precids=(0, 1), priorids=(1,),
                                        extids=(2,), nt=2, binids=(0, 1, 2), permlevel=1, agree=True, emitmod=4), 0))
    ctx.exhaustive = False       # the enumeration is exhaustive, the replay of the large runs is a seeded sample
    total = 0
    first = True
    # vacuity guards (no TLC -coverage: with the INSTANCEd Unbalanced module the cost model makes even tiny runs
    # crawl): (1) replay() requires every configured method / option / fold source / estimator among the vectors -
    # a terminal state exists only if every stage action on its path was taken; (2) runs with the transformation
    # actions must have generated clearly more transitions than states (require_transformations)
    for name, kw, nfloat in runs:
        r = ctx.tlc('MC_CalcRdm', C.cfg(**kw), name=name, workers=W, timeout=1700)
        if not r.n_emitted:
            raise MachineryError(f'TLC emitted no vectors in {name}')
        if first:
            binding_selftest(ctx, r, PID)
            first = False
        v = next(r.iter_emitted())
        ctx.sample({'run': name, 'in': v['in'], 'expected': v['out']}, cap=8)
        if kw.get('permlevel'):
            require_transformations(r, name)
        total += replay(ctx, r, PID, nfloat=nfloat if thorough else nfloat * 3, want=kw)
    ctx.extra['vectors_replayed'] = total
    n = record_and_validate(ctx, PID, ['single', 'list', 'movie', 'moviex', 'listx'], 3000 if thorough else 300)
    ctx.extra['recorded_executions_validated'] = n
