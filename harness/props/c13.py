"""C13 - Missing dissimilarities are ignored consistently or rejected, never misaligned.

Specification: specs/MissingData.tla (+ the comparison measures of specs/Compare.tla, instantiated).
TLC enumerates families of masked RDM vectors - every assignment of masks to the 1-3 RDMs of two
stacks over 3-6 entries, masks produced by a with-replacement draw of the conditions (pattern
bootstrap) and by condition subsets (from_partials) - classifies each family (none / common /
between stacks with equal or unequal counts / within a stack), and checks on the definitions that the
measure on the entry-deleted vectors is the measure restricted to the kept entries (MaskedIsDeleted,
VSubRule), that the error outcome is reserved for the differing classes (ErrorIffDiffering), the
pooling statistics, Mean(vecs, w) as exact rationals and the facts the rescale post-conditions rest on.

spec -> impl: every emitted record is replayed (harness/missing.py) through rsatoolbox.rdm.compare,
pool_rdm (both modules), boot_noise_ceiling, fit_regress / fit_regress_nn, RDMs.mean and
rdm.combine.rescale (incl. stacks with negative entries and RDMs negatively related to the others: the
constant must be POSITIVE), and two-call RDMs.mean sessions that share one weights object (array or
rdm_descriptor; the object is fingerprinted around every call); NaN patterns are written into arrays or made by the real
bootstrap_sample_pattern (draw forced) / from_partials.  Values are judged against an independent
kernel fed with the exact statistics AND against the same public function on the entry-deleted plain
arrays.  The Bures / Riemann measures are not part of the check: they are functions of the whole
matrix (double-centred kernel), "the same entry deleted" has no meaning for them.
impl -> spec: compare calls recorded inside real eval_bootstrap_pattern runs and direct calls on
masked integer stacks (n_cond 5, 6) are validated by Trace_MissingData.
"""
from __future__ import annotations

import multiprocessing as mp

from harness import missing as M
from harness.core import MachineryError

PID = 'C13'
NPROC = 8
NONCOV = ('cosine', 'corr', 'spearman', 'kendall', 'tau-a', 'rho-a')


def replay(ctx, r, nc, label, floor=1):
    def jobs():
        base = 0
        for chunk in r.iter_lines(60):
            yield (base, chunk, nc)
            base += len(chunk)
    tot = {'n_rec': 0, 'n_eval': 0, 'nontriv': 0, 'unsupported': 0}
    classes = {}
    with mp.Pool(NPROC) as pool:
        for res in pool.imap_unordered(M.replay_chunk, jobs()):
            if 'kernel' in res:
                raise MachineryError(f'kernel / catalogue disagrees with the specification ({label}): {res["kernel"]}')
            for k in tot:
                tot[k] += res[k]
            for c, n in res['classes'].items():
                classes[c] = classes.get(c, 0) + n
            for key, what, case in res['vio']:
                ctx.violation(f'{PID}/{key}', what, {'run': label, **case})
    if tot['n_rec'] < floor:
        raise MachineryError(f'{label}: only {tot["n_rec"]} records replayed')
    ctx.count(tot['n_eval'])
    ctx.nontrivial_extra += tot['nontriv']
    ctx.traces += tot['n_rec']
    if tot['unsupported']:
        for _ in range(tot['unsupported']):
            ctx.unsupported_case('rescale/no-convergence-within-20s', label)
    ctx.extra.setdefault('records_by_class', {})[label] = classes
    return tot, classes


def selftest_replay(ctx, r, nc):
    """binding: a corrupted expectation must be noticed by the replay"""
    import json
    for rec in r.iter_emitted():
        if rec['t'] == 'cmp' and not rec['err'] and rec['m'] == 'cosine' and rec['cls'] == 'common':
            bad = json.loads(json.dumps(rec))
            bad['res'][0][0]['ab'] += 1
            _, out, _, _ = M.check_cmp(bad, 0, nc)
            if not any(k.endswith('/value') for k, _, _ in out):
                raise MachineryError('self-test: a corrupted expected statistic was not noticed by the replay')
            bad = json.loads(json.dumps(rec))
            bad['err'] = True
            bad['cls'] = 'between_eq'
            _, out, _, _ = M.check_cmp(bad, 0, nc)
            if not any('equal-count' in k for k, _, _ in out):
                raise MachineryError('self-test: an expected error that does not occur was not noticed')
            ctx.extra['selftest_replay'] = 'corrupted statistic and corrupted outcome both rejected'
            return
    raise MachineryError('self-test: no suitable record')


def traces(ctx, nc, n):
    jobs = [(ctx.seed * 100003 + 17 * nc + i, nc) for i in range(n)]
    with mp.Pool(NPROC) as pool:
        res = pool.map(M.trace_job, jobs, chunksize=4)
    sessions, meta, skipped = [], [], 0
    for seed, nc_, (events, sk), err in res:
        skipped += sk
        if err:
            raise MachineryError(f'recorder failed (seed {seed}): {err}')
        if events:
            sessions.append(events)
            meta.append(seed)
            ctx.count(len(events))
    if len(sessions) < n // 2:
        raise MachineryError('too few recorded sessions')
    nan_events = sum(1 for s in sessions for e in s if any(e['ma']) or any(e['mb']))
    if nan_events < len(sessions):
        raise MachineryError('recorded sessions contain too few NaN-bearing comparisons')
    ctx.extra[f'trace_nc{nc}'] = {'sessions': len(sessions), 'events': sum(len(s) for s in sessions),
                                  'nan_bearing_events': nan_events, 'degenerate_skipped': skipped}
    # binding self-test: one corrupted session must be rejected
    bad = None
    for s in sessions:
        bad = M.corrupt_trace(s)
        if bad is not None:
            break
    batch = sessions + ([bad] if bad is not None else [])
    strip = [[{k: v for k, v in e.items() if k != 'raw'} for e in s] for s in batch]
    r_before = len(ctx.tlc_runs)
    rejected = ctx.validate('MC_Trace_MissingData', M.trace_cfg(nc), strip, name=f'trace_nc{nc}', timeout=1500)
    rej = dict(rejected)
    if bad is not None:
        if (len(batch) - 1) not in rej:
            raise MachineryError('self-test: a corrupted recorded value was accepted by Trace_MissingData')
        ctx.traces -= 0
        rej.pop(len(batch) - 1)
        ctx.extra['selftest_trace'] = 'corrupted recorded value rejected'
    # whitened events: finished by the kernel from the exact block TLC printed
    import json
    run = ctx.tlc_runs[r_before]
    cov = {}
    wd = ctx.scratch / f'trace_nc{nc}'
    with open(wd / 'emitted.ndjson') as f:
        for line in f:
            o = json.loads(line)
            if isinstance(o, dict) and 'cov' in o:
                cov[(o['cov'], o['l'])] = o
    for (tid, l), acc in cov.items():
        if tid - 1 >= len(sessions):
            continue
        ev = sessions[tid - 1][l - 1]
        badv = M.finish_cov_event(ev, acc)
        ctx.count(1)
        if badv:
            ctx.violation(f'{PID}/a/compare/{ev["m"]}/sigma={"matrix" if ev["sg"]["kind"] == "mat" else "none"}/trace/value',
                          'recorded whitened comparison differs from u V_sub^-1 v', {'seed': meta[tid - 1], 'event': ev,
                                                                                     'first': badv[0]})
    for idx, diag in rej.items():
        if idx < 0:
            ctx.violation(f'{PID}/trace/invariant/{diag[0].get("invariant")}',
                          'an invariant of MissingData fails on a recorded call', diag[0])
            continue
        d = diag[0] if diag else {}
        if d and not d.get('enabled', True):
            raise MachineryError(f'recorder issued an event outside the domain of the specification: {d}')
        ev = sessions[idx][d.get('l', 1) - 1] if d else {}
        if d and not d.get('outcome', True):
            cls = d.get('cls')
            key = M.ERR_KEYS.get(cls, 'c/compare/error-on-aligned-masks') if not ev.get('err') \
                else 'a/compare/raises-on-common-mask'
            ctx.violation(f'{PID}/{key}', f'recorded call: outcome not allowed for mask class {cls}',
                          {'seed': meta[idx], 'event': ev, 'diag': d})
        else:
            ctx.violation(f'{PID}/a/compare/{ev.get("m")}/trace/' + ('shape' if d and not d.get('shape', True) else 'value'),
                          'recorded value is not explained by the measure on the kept entries',
                          {'seed': meta[idx], 'event': ev, 'diag': d})
    _ = run
    return len(sessions)


def run(ctx):
    thorough = ctx.tier == 'thorough'
    ctx.rule = ('TLC enumerates mask families (every assignment of masks to the RDMs of two stacks; bootstrap '
                'draws; condition subsets) x methods x sigma_k x weights; each emitted record is one replay '
                'through the public API judged against kernel and entry-deleted call; non-trivial = record '
                'with at least one missing entry (compare / pool), missing entry or explicit weights (mean), '
                'connected proportional family with missing entries (rescale); plus recorded NaN-bearing '
                'comparisons validated by Trace_MissingData')
    ctx.assumptions = ['harness/missing.py builds the NaN patterns the specification describes (checked for the '
                       'bootstrap / from_partials sources against the real functions)',
                       'numpy.linalg.solve / sqrt in the kernels; kernels checked against the exact TLA+ values',
                       'Bures / Riemann measures excluded: no meaning on a deleted entry',
                       'degenerate vectors (constant / zero after deletion) excluded by AdmVec and counted by TLC']
    allm = M.CMP_METHODS
    W = NPROC
    runs = []
    # (name, mode, nc, len, kwargs, replay floor)
    if not thorough:
        runs += [
            ('cmp3', 'compare', 3, 3, dict(shapes='Sh23', methods=allm, sigmas='SigmaCat', rots=(0, 2),
                                           srcs=('free', 'boot'), freemasks='MasksUpTo1', emitmod=12), 2000),
            ('cmp4', 'compare', 4, 6, dict(shapes='Sh12', methods=allm, sigmas='SigmaCat', srcs=('free', 'boot', 'part'),
                                           freemasks='MasksUpTo1', emitmod=10), 1500),
            ('cmp4wide', 'compare', 4, 6, dict(shapes='Sh11', methods=allm, sigmas='SigmaCat', srcs=('free',),
                                               freemasks='MasksUpTo3', rots=(1,), emitmod=16), 800),
            ('cmp5', 'compare', 4, 5, dict(shapes='Sh11', methods=NONCOV, srcs=('free',), freemasks='MasksUpTo3',
                                           emitmod=6), 300),
            ('cmp4len', 'compare', 3, 4, dict(shapes='Sh12', methods=NONCOV, srcs=('free',), freemasks='MasksUpTo2',
                                              emitmod=8), 300),
            ('pool', 'pool', 4, 6, dict(shapes='One23', methods=M.POOL_METHODS, srcs=('free', 'boot', 'part'),
                                        freemasks='MasksUpTo1', emitmod=5), 1000),
            ('mean', 'mean', 4, 6, dict(shapes='One123', srcs=('free', 'part'), freemasks='MasksUpTo1',
                                        wkinds=('none', 'rdm', 'entry'), wcat='WCatDef', wecat='WECatDef', emitmod=3), 1000),
            ('mean3', 'mean', 3, 3, dict(shapes='One3', srcs=('free',), freemasks='MasksUpTo1', minkeep=0,
                                         wkinds=('none', 'rdm', 'entry'), wcat='WCatDef', wecat='WECatDef'), 100),
            ('resc', 'rescale', 4, 6, dict(shapes='One23', veccat='PosCat6', srcs=('free', 'part'), freemasks='MasksUpTo1',
                                           factors=(1, 2, 3), emitmod=12), 400),
            ('resc2', 'rescale', 4, 6, dict(shapes='One2', veccat='PosCat6', srcs=('free',), freemasks='MasksUpTo3',
                                            factors=(1, 3), emitmod=8), 300),
            # crossnobis-type stacks with negative entries, incl. RDMs negatively related to the others
            ('resc_signed', 'rescale', 4, 6, dict(shapes='One23', veccat='SignedCat6', srcs=('free', 'part'),
                                                  freemasks='MasksUpTo1', families=('signed',), rots=(0, 1, 3),
                                                  emitmod=4), 300),
            # proportional families in extreme units (1e-13, one RDM at 1e-10 of the others, 1e+8, mixed)
            ('resc_units', 'rescale', 4, 6, dict(shapes='One23', veccat='PosCat6', srcs=('free', 'part'),
                                                 freemasks='MasksUpTo1', factors=(1, 3), expcat='ExpCatDef',
                                                 expids=(2, 3, 4, 5, 6), emitmod=25), 400),
            # from_partials: partial RDMs listing their patterns in their own order, explicit / implicit combined list
            ('partials', 'partials', 4, 6, dict(shapes='One12', allpcat='AllPCat4', allpids=(0, 1, 2, 3, 4, 5),
                                                emitmod=6), 1500),
            # sessions of two mean calls sharing one weights object
            ('mean2', 'mean2', 4, 6, dict(shapes='One2', freemasks='MasksUpTo1', wkinds=('rdm', 'entry'),
                                          wcat='WCatDef', wecat='WECatDef', emitmod=8), 500),
        ]
    else:
        runs += [
            ('cmp3', 'compare', 3, 3, dict(shapes='ShAll', methods=allm, sigmas='SigmaCat', rots=(0, 2),
                                           srcs=('free', 'boot'), freemasks='MasksUpTo1', emitmod=12), 20000),
            ('cmp4', 'compare', 4, 6, dict(shapes='Sh22', methods=allm, sigmas='SigmaCat', srcs=('free', 'boot', 'part'),
                                           freemasks='MasksUpTo1', emitmod=12, rots=(0, 3)), 15000),
            ('cmp4wide', 'compare', 4, 6, dict(shapes='Sh12', methods=allm, sigmas='SigmaCat', srcs=('free',),
                                               freemasks='MasksUpTo2', rots=(1,), emitmod=40), 8000),
            ('cmp4all', 'compare', 4, 6, dict(shapes='Sh11', methods=allm, sigmas='SigmaCat', srcs=('free',),
                                              freemasks='AllMasks', rots=(2,), emitmod=8), 3000),
            ('cmp5', 'compare', 4, 5, dict(shapes='Sh12', methods=NONCOV, srcs=('free',), freemasks='MasksUpTo3',
                                           emitmod=30), 3000),
            ('cmp4len', 'compare', 3, 4, dict(shapes='Sh22', methods=NONCOV, srcs=('free',), freemasks='AllMasks',
                                              emitmod=30), 3000),
            ('pool', 'pool', 4, 6, dict(shapes='One23', methods=M.POOL_METHODS, srcs=('free', 'boot', 'part'),
                                        freemasks='MasksUpTo2', emitmod=8, rots=(0, 2)), 10000),
            ('mean', 'mean', 4, 6, dict(shapes='One123', srcs=('free', 'part'), freemasks='MasksUpTo2',
                                        wkinds=('none', 'rdm', 'entry'), wcat='WCatDef', wecat='WECatDef', emitmod=6), 8000),
            ('mean3', 'mean', 3, 3, dict(shapes='One123', srcs=('free',), freemasks='AllMasks', minkeep=0,
                                         wkinds=('none', 'rdm', 'entry'), wcat='WCatDef', wecat='WECatDef', rots=(0, 1)), 1000),
            ('resc', 'rescale', 4, 6, dict(shapes='One23', veccat='PosCat6', srcs=('free', 'part'), freemasks='MasksUpTo2',
                                           factors=(1, 2, 3), emitmod=150, rots=(0, 1)), 3000),
            ('resc_signed', 'rescale', 4, 6, dict(shapes='One23', veccat='SignedCat6', srcs=('free', 'part'),
                                                  freemasks='MasksUpTo2', families=('signed',), rots=(0, 1, 2, 3, 4, 5),
                                                  emitmod=12), 3000),
            ('resc_signed3', 'rescale', 3, 3, dict(shapes='One23', veccat='SignedCat3', srcs=('free',), minkeep=1,
                                                   freemasks='MasksUpTo1', families=('signed',), rots=(0, 1, 2, 3)), 100),
            ('resc_units', 'rescale', 4, 6, dict(shapes='One23', veccat='PosCat6', srcs=('free', 'part'),
                                                 freemasks='MasksUpTo1', factors=(1, 2, 3), expcat='ExpCatDef',
                                                 expids=(2, 3, 4, 5, 6), emitmod=12), 3000),
            ('partials', 'partials', 4, 6, dict(shapes='One12', allpcat='AllPCat4', allpids=(0, 1, 2, 3, 4, 5)), 15000),
            ('partials3', 'partials', 3, 3, dict(shapes='One123', allpcat='AllPCat3', allpids=(0, 1, 2, 3, 4)), 5000),
            ('mean2', 'mean2', 4, 6, dict(shapes='One23', freemasks='MasksUpTo1', wkinds=('rdm', 'entry'),
                                          wcat='WCatDef', wecat='WECatDef', emitmod=40, rots=(0, 2)), 3000),
            ('mean2b', 'mean2', 3, 3, dict(shapes='One23', freemasks='AllMasks', minkeep=0, wkinds=('rdm', 'entry'),
                                           wcat='WCatDef', wecat='WECatDef', emitmod=60), 1000),
        ]
    ctx.exhaustive = False
    first_cmp = None
    seen_cmp = set()
    for name, mode, nc, length, kw, floor in runs:
        # (TLC's -coverage overflows the Java stack on the instantiated Compare module; which actions were
        # taken is read off the emitted terminal states instead: an error record went through Misaligned,
        # a value record through Parse and Measure, the other modes have one action each)
        r = ctx.tlc('MC_MissingData', M.cfg(mode, nc, length, **kw), name=name, workers=W, timeout=2400)
        if not r.n_emitted:
            raise MachineryError(f'{name}: TLC emitted nothing')
        tot, classes = replay(ctx, r, nc, name, floor=floor)
        if name == 'resc_units' and sum(k for c, k in classes.items() if '/units' in c and 'not-converged' not in c) < 100:
            raise MachineryError(f'{name}: vacuous - too few converged stacks in extreme units: {classes}')
        if name.startswith('resc_signed') and sum(k for c, k in classes.items()
                                                  if '/anti' in c and 'not-converged' not in c) < 20:
            raise MachineryError(f'{name}: vacuous - no stack with an RDM negatively related to the others: {classes}')
        if mode == 'compare':
            nerr = sum(n for c, n in classes.items() if c not in ('none', 'common'))
            taken = {'Misaligned': nerr, 'Parse': tot['n_rec'] - nerr, 'Measure': tot['n_rec'] - nerr}
        else:
            taken = {a: tot['n_rec'] for a in M.ACTIONS[mode]}
        for a, k in taken.items():
            if k == 0:
                raise MachineryError(f'{name}: vacuous - action {a} never taken')
            o = ctx.coverage_actions.get(a, [0, 0])
            ctx.coverage_actions[a] = [o[0] + k, o[1] + k]
        if mode == 'compare':
            # ('none' is rare where many masks are enumerated and emission is sampled: required over all runs)
            need = {'common', 'between_eq'} | (set() if kw['shapes'] == 'Sh11' else {'within'})
            if not need <= set(classes):
                raise MachineryError(f'{name}: vacuous - classes replayed: {sorted(classes)}')
            seen_cmp |= set(classes)
            if first_cmp is None:
                first_cmp = (r, nc)
        for rec in r.iter_emitted():
            ctx.sample({'run': name, **{k: rec[k] for k in rec if k in ('t', 'cls', 'm', 's', 'src', 'arg', 'a', 'b', 'ma',
                                                                        'mb', 'err', 'wk', 'w', 'mean', 'conn', 'f')}},
                       cap=8)
            break
    if not {'none', 'common', 'between_eq', 'between_ne', 'within'} <= seen_cmp:
        raise MachineryError(f'vacuous - mask classes replayed: {sorted(seen_cmp)}')
    selftest_replay(ctx, *first_cmp)
    # implementation -> specification
    nsess = (60, 40) if not thorough else (600, 400)
    total = traces(ctx, 5, nsess[0]) + traces(ctx, 6, nsess[1])
    ctx.extra['recorded_sessions_validated'] = total
