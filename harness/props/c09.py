"""C09 - Bootstrap samples are faithful with-replacement resamples of whole groups.

Specification: the actions boot_rdm / boot_pattern / boot_both of specs/RdmsStore.tla.  The draw
(the outcome of numpy.random.randint) is an argument of the action, so TLC enumerates EVERY
outcome; Assoc (value <-> source RDM and source condition pair, NaN exactly for two copies of one
condition) and BootFaithful (whole groups, drawn multiplicity, as many draws as groups) are checked
on the model.  S -> I: every behaviour is replayed with the draw forced into the library.
I -> S: bootstraps run under real seeds, the draw is observed at numpy.random.randint and the
recorded call must be explained by the same actions.  Clause f (uniformity) is probabilistic:
TLC establishes the support, a 6-sigma frequency test on observed draws covers "equally often".
"""
from __future__ import annotations

import numpy as np

from harness import rdmstore as S
from harness.core import MachineryError
from harness.props import c10

BOOT_OPS = ['boot_rdm', 'boot_pattern', 'boot_both']
CTX_OPS = ['boot_rdm', 'boot_pattern', 'boot_both', 'subsample', 'subsample_pattern', 'subset_pattern',
           'sort_alpha', 'reorder', 'concat', 'copy', 'drop']


def cfg(nr, nc, depth, al, ops, emitmod=1, spec=False):
    t = c10.cfg(nr, nc, depth, al, ops=ops, emitmod=emitmod, spec=spec, emit=not spec)
    if not spec:
        t = t.replace('PROPERTY Frame', 'PROPERTY Frame\nPROPERTY BootFaithful')
    return t


def frequency_test(ctx, n):
    """clause f: over many draws each group is selected equally often (6-sigma band)"""
    from rsatoolbox.inference import bootstrap as B
    src = S.make_source(3, 4, {(2, 1, 3)}, ('list', 'int'))
    np.random.seed(ctx.seed + 12345)
    for kind, by, groups in (('rdm', 'index', [0, 1, 2]), ('rdm', 'grp', [1, 2]),
                             ('pattern', 'cond', [1, 2, 3, 4]), ('pattern', 'cat', [1, 2])):
        counts = {g: 0 for g in groups}
        for _ in range(n):
            if kind == 'rdm':
                _, idx = B.bootstrap_sample_rdm(src, by)
            else:
                _, idx = B.bootstrap_sample_pattern(src, by)
            for v in idx:
                if int(v) not in counts:
                    ctx.violation(f'C09/a/returned-index-not-a-group/{kind}/{by}',
                                  f'bootstrap returned index {v!r}, which is not a value of descriptor {by} {groups}',
                                  {'returned': [int(x) for x in idx], 'groups': groups, 'by': by})
                    counts[int(v)] = 0
                counts[int(v)] += 1
        g = len(groups)
        tot = n * g
        mean, sd = tot / g, (tot * (1 / g) * (1 - 1 / g)) ** 0.5
        ctx.count(n)
        for v, c in counts.items():
            if v in groups and abs(c - mean) > 6 * sd:
                ctx.violation(f'C09/f/uniform/{kind}/{by}',
                              f'group {v} drawn {c} times in {tot} draws, expected {mean:.0f} +- {6 * sd:.0f}',
                              {'counts': counts, 'n': n, 'by': by})
    ctx.extra['frequency_draws'] = 4 * n


def run(ctx):
    ctx.rule = ('TLC enumerates every outcome of the bootstrap draws (argument of the action) for every grouping '
                'descriptor, alone (depth 1, all draws) and after/before structural operations (depth 2, trimmed draws); '
                'each behaviour replayed with the draw forced into numpy.random.randint; non-trivial = behaviour with a '
                'bootstrap whose draw repeats a group or a grouping descriptor with duplicates; observed-draw traces '
                'validated by Trace_RdmsStore; 6-sigma frequency test for uniformity')
    ctx.assumptions = ['projection harness/rdmstore.py:project is faithful',
                       'numpy.random.randint is the only source of randomness of the bootstrap functions (a different '
                       'source is reported as a draw mismatch)',
                       'uniformity is judged statistically (6 sigma), everything else exactly']
    thorough = ctx.tier == 'thorough'
    total = 0
    runs = [(3, 3, 1, 2, 'BootOps', 1), (3, 3, 2, 1, 'BootAll', 1 if thorough else 6)]
    if thorough:
        runs += [(3, 4, 1, 2, 'BootOps', 1), (2, 3, 2, 2, 'BootOps', 1)]
    ctx.exhaustive = all(x[5] == 1 for x in runs)
    for nr, nc, depth, al, ops, mod in runs:
        r = ctx.tlc('MC_RdmsStore', cfg(nr, nc, depth, al, ops, emitmod=mod), name=f'boot_{nr}{nc}_d{depth}_a{al}',
                    timeout=3000)
        if not r.n_emitted:
            raise MachineryError('TLC emitted no behaviours')
        first = next(r.iter_emitted())
        ctx.sample({'const': [nr, nc, depth, al], 'events': [st['ev'] for st in first['hist']],
                    'returned': [st['ret'] for st in first['hist']]})
        total += c10.replay_all(ctx, 'C09', r, c10.const(nr, nc), f'b{nr}{nc}{depth}{al}')
    ctx.extra['behaviours_replayed'] = total
    ctx.traces += total
    n = c10.record_and_validate(ctx, 'C09', c10.const(3, 4), 400 if not thorough else 4000, 6,
                                ops=BOOT_OPS * 3 + CTX_OPS, spec_ops='EveryOp')
    ctx.extra['recorded_histories_validated'] = n
    frequency_test(ctx, 5000 if not thorough else 50000)
