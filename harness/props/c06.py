"""C06 - reported uncertainties and p-values are coherent with the evaluations.

Specification: specs/Variances.tla (exact rational oracle for extract_variances / _correct_1d /
_dual_bootstrap / Result.get_means / the covariance stored by eval_fixed).  TLC enumerates integer
covariances of every shape (scalar, vector, matrix, 3-stack; with and without noise-ceiling rows), all
combinations of n_rdm / n_pattern, evaluation arrays of 2-4 dimensions with NaN marks and per-subject
evaluations of fixed evaluations with chains of shifts, checks on the whole grid the theorems DualBound
(clause c), PsdNonNeg, FixedNonNeg, IterEqFlat, MeansAdmissible, PermEquivariant (clause f) and
ShiftKeepsVar, and emits every terminal state as a test vector with exact expected values.

spec -> impl : every vector is replayed through extract_variances and Result accessors (exact
               comparison of rationals); the p-values of the three test types are checked relationally
               (range, symmetry, unit diagonal, permutation equivariance; t-test monotone along the
               chains) and, for fixed evaluations, against the t distribution applied to the exact
               statistic and against scipy.stats; the real eval_fixed runs on small data RDM stacks.
impl -> spec : numpy-generated larger integer covariances and 2-5 dimensional evaluation arrays, the
               library's outputs recorded as scaled integers / fractions and re-computed from the logged
               inputs by Trace_Variances.tla.
Every run also corrupts one expected value and three recorded fields and requires rejection.
"""
from __future__ import annotations

import copy
import json
import multiprocessing as mp
import time

from harness import variances as V
from harness.core import MachineryError

INVS = ['DualBound', 'PsdNonNeg', 'FixedNonNeg', 'MeansAdmissible', 'IterEqFlat', 'Emit']
PROPS = ['PermEquivariant', 'ShiftKeepsVar']
CLASSES = ['scalar/plain', 'vector/plain', 'vector/nc', 'matrix/plain', 'matrix/nc', '3-stack/plain', '3-stack/nc']


def cfg(level, ns, chainlen, steps, emitmod=1, perm=True):
    lines = ['CONSTANTS', f'  Level = {level}', '  VarInputs <- VarGrid',
             '  Ns = {' + ', '.join(str(n) for n in ns) + '}',
             '  MeanInputs <- MeanGrid', '  FixedInputs <- FixedGrid', f'  ChainLen = {chainlen}',
             '  ShiftSteps = {' + ', '.join(str(s) for s in steps) + '}', f'  DoPerm = {"TRUE" if perm else "FALSE"}',
             f'  EmitMod = {emitmod}', 'INIT Init', 'NEXT Next']
    lines += [f'INVARIANT {i}' for i in INVS]
    lines += [f'PROPERTY {p}' for p in PROPS]
    lines.append('CHECK_DEADLOCK FALSE')
    return '\n'.join(lines) + '\n'


TRACE_CFG = '\n'.join(['CONSTANTS', '  VarInputs <- NoInputs', '  Ns = {0}', '  MeanInputs <- NoInputs',
                       '  FixedInputs <- NoInputs', '  ChainLen = 0', '  ShiftSteps = {1}', '  DoPerm = FALSE', '  EmitMod = 1',
                       'SPECIFICATION TSpec', 'CHECK_DEADLOCK FALSE']) + '\n'


def report(ctx, by_key):
    for key, (n, what, case) in sorted(by_key.items()):
        ctx.violation(key, what, case)
        for _ in range(n - 1):
            ctx.violation(key, what, case)


def merge(total, by_key):
    for key, (n, what, case) in by_key.items():
        ent = total.setdefault(key, [0, what, case])
        ent[0] += n


def replay(ctx, results, heavy_mod, means_mod):
    def jobs():
        base = 0
        for r in results:
            for chunk in r.iter_lines(250):
                yield (base, chunk, heavy_mod, means_mod, ctx.seed)
                base += len(chunk)
    tot = {'n': 0, 'evals': 0, 'nontriv': 0, 'var': 0, 'means': 0, 'fixed': 0, 'psd': 0, 'nonpsd': 0, 'heavy': 0,
           'perm_witness': 0, 'shapes': {}}
    found = {}
    with mp.Pool(16) as pool:
        for stats, by_key in pool.imap_unordered(V.replay_chunk, jobs()):
            for k, v in stats.items():
                if k == 'shapes':
                    for s, c in v.items():
                        tot['shapes'][s] = tot['shapes'].get(s, 0) + c
                else:
                    tot[k] += v
            merge(found, by_key)
    return tot, found


def selftest_vector(r):
    """binding spec -> impl: a corrupted expected value must be noticed by the replay"""
    for rec in r.iter_emitted():
        if 'inp' not in rec:
            continue
        i = rec['inp']
        if i['kind'] == 'var' and i['k'] >= 2 and i['shape'] == 2:
            good, _ = V.check_var(rec, 0, heavy=False)
            bad = copy.deepcopy(rec)
            bad['exp']['dv'][0][0] += 1
            f, _ = V.check_var(bad, 0, heavy=False)
            if any('/b/' in k for k, _, _ in good) or not any('diff_var' in k for k, _, _ in f):
                raise MachineryError('self-test: a corrupted expected diff_var was not noticed by the replay')
            return
    raise MachineryError('self-test: no matrix vector emitted')


def corrupt(trace, what):
    t = copy.deepcopy(trace)
    for ev in t:
        if what == 'mv' and ev['op'] == 'extract' and ev['mv']:
            ev['mv'][0] += 1
            return t
        if what == 'ncv' and ev['op'] == 'extract' and ev['ncv'] and ev['ncv'][0][0] != ev['ncv'][0][1]:
            ev['ncv'][0] = ev['ncv'][0][::-1]
            return t
        if what == 'means' and ev['op'] == 'means' and ev['out'] and ev['out'][0][1] != 0:
            ev['out'][0] = [ev['out'][0][0] + ev['out'][0][1], ev['out'][0][1]]
            return t
        if what == 'cov' and ev['op'] == 'extract' and ev['shape'] == 2 and ev['k'] >= 2 and ev['dv']:
            ev['cov'][0][1] += 1          # input no longer the one the output was computed from
            ev['cov'][1][0] += 1
            return t
    return None


def record_and_validate(ctx, ntraces):
    seeds = [ctx.seed * 1_000_003 + i for i in range(ntraces)]
    chunks = [seeds[i:i + 50] for i in range(0, len(seeds), 50)]
    traces, meta, found = [], [], {}
    with mp.Pool(16) as pool:
        for out in pool.imap(V.trace_chunk, chunks):
            for seed, events, findings in out:
                for key, what, case in findings:
                    merge(found, {key: [1, what, {**case, 'seed': seed}]})
                if events:
                    traces.append(events)
                    meta.append(seed)
                    ctx.count(len(events))
    report(ctx, found)
    if len(traces) < ntraces // 2:
        raise MachineryError('recorder produced too few traces')
    # binding impl -> spec: corrupted copies of recorded traces must be rejected
    corrupted = []
    for what in ('mv', 'ncv', 'means', 'cov'):
        for t in traces:
            c = corrupt(t, what)
            if c is not None:
                corrupted.append((what, c))
                break
    if len(corrupted) < 3:
        raise MachineryError('self-test: could not build corrupted traces')
    batch = traces + [c for _, c in corrupted]
    before = ctx.traces
    rejected = ctx.validate('MC_Trace_Variances', TRACE_CFG, batch, name='trace_variances', timeout=1500)
    rej = {idx: diag for idx, diag in rejected}
    for j, (what, _) in enumerate(corrupted):
        if len(traces) + j not in rej:
            raise MachineryError(f'self-test: trace validation accepted a trace with a corrupted {what!r} field')
    ctx.extra['corrupted_traces_rejected'] = len(corrupted)
    n_ok = 0
    for idx, diag in rejected:
        if idx >= len(traces):
            continue
        if idx < 0:
            raise MachineryError(f'trace validation failed: {diag}')
        d = diag[0] if diag else {}
        if d and not d.get('enabled', True):
            raise MachineryError(f'recorder produced an event outside the specification: {traces[idx][d.get("l", 1) - 1]}')
        ev = traces[idx][d.get('l', 1) - 1] if d else {}
        cls = V.SHAPE.get(ev.get('shape'), '?') if ev.get('op') == 'extract' else f"cv{ev.get('cv')}/{ev.get('d')}d"
        ctx.violation(f"C06/trace/{ev.get('op', '?')}/{ev.get('via', 'get_means')}/{cls}",
                      'recorded output differs from the definition re-computed by Trace_Variances from the logged input',
                      {'seed': meta[idx], 'event': ev, 'expected': d.get('expected')})
    n_ok = ctx.traces - before
    return len(traces), n_ok


def run(ctx):
    if ctx.replay:
        stored = json.load(open(ctx.replay))
        ctx.rule = f"replay of one stored case ({stored.get('key')})"
        for key, what, case in V.replay_case(stored['case']):
            ctx.count(1)
            if key == stored.get('key') or not stored.get('key'):
                ctx.violation(key, what, case)
        ctx.sample({'replayed': stored.get('key')})
        return
    thorough = ctx.tier == 'thorough'
    ctx.rule = ('TLC enumerates integer covariances (scalar / vector / matrix / 3-stack, with and without '
                'noise-ceiling rows) x all (n_rdm, n_pattern) pairs, NaN-marked evaluation arrays of 2-4 dimensions '
                'and per-subject evaluations with shift chains; each emitted vector is replayed through '
                'extract_variances and Result accessors. Non-trivial = covariance vector with >= 2 models or a '
                '3-stack and a non-zero entry; evaluation array holding both a NaN mark and a value; fixed evaluation '
                'with non-constant evaluations. Plus recorded executions on larger numpy-generated integer inputs '
                'validated by Trace_Variances.')
    ctx.assumptions = [
        'n_rdm, n_pattern >= 2 wherever given (n/(n-1) is undefined otherwise)',
        'a single covariance with both n given is corrected with the smaller n (the rule of _correct_1d); a 3-stack '
        'with fewer than two n uses the uncorrected combination (docstring of _dual_bootstrap)',
        'bootstrap-type results: NaN marks invalidate a sample for all models at once (what every evaluator writes); NaN '
        'folds / entries never leave a single model without a value in a valid sample. fixed / crossvalidation results: '
        'any NaN pattern, the mean is per model',
        'means are the iterated NaN-aware means over the trailing axes, then the mean over valid samples',
        'cv_method fixed / crossvalidation: one sample, 3-d array',
        't-statistic equality only where the exact variance is > 0; bootstrap pair tests of models with identical '
        'evaluations (0/0) excluded; bootstrap tests need >= 2 samples, rank-sum tests a 3-d array without all-NaN folds',
        'p-values compared through scipy.stats.t (trusted kernel) to 1e-10']
    if thorough:
        runs = [('variances_grid', cfg(2, [0, 3, 7], 2, [1, 3])),
                # every symmetric 3 x 3 integer covariance with entries -2..3 (46 656 matrices)
                ('variances_all3x3', cfg(3, [0, 3], 0, [1], perm=False))]
        heavy_mod, means_mod = 80, 8
    else:
        runs = [('variances_grid', cfg(1, [0, 2, 5], 2, [1, 3]))]
        heavy_mod, means_mod = 24, 1
    results = []
    for name, c in runs:
        r = ctx.tlc('MC_Variances', c, name=name, timeout=1750, workers=16)
        if not r.n_emitted:
            raise MachineryError('TLC emitted no vectors')
        results.append(r)
    r = results[0]
    ctx.exhaustive = True
    selftest_vector(r)
    i = 0
    for chunk in r.iter_lines(1000):
        for line in chunk:
            if i % max(1, r.n_emitted // 5) == 0 and '"inp"' in line:
                ctx.sample(json.loads(line))
                i += 1
            elif i % max(1, r.n_emitted // 5) != 0:
                i += 1
    t0 = time.time()
    tot, found = replay(ctx, results, heavy_mod, means_mod)
    phases = {'tlc_grid_s': round(sum(x.wall for x in results), 1), 'replay_s': round(time.time() - t0, 1)}
    if tot['n'] + tot['perm_witness'] != sum(x.n_emitted for x in results):
        raise MachineryError(f"replayed {tot['n']} of {sum(x.n_emitted for x in results)} vectors")
    missing = [s for s in CLASSES if not tot['shapes'].get(s)]
    if missing or not tot['means'] or not tot['fixed'] or not tot['psd'] or not tot['nonpsd'] or not tot['heavy'] \
            or not tot['perm_witness']:
        raise MachineryError(f'vacuous run: {tot}, missing covariance classes {missing}')
    ctx.count(tot['evals'])
    ctx.nontrivial_extra += tot['nontriv']
    ctx.traces += tot['n']
    ctx.extra['vectors_replayed'] = {k: tot[k] for k in ('n', 'var', 'means', 'fixed', 'heavy', 'psd', 'nonpsd', 'perm_witness')}
    ctx.extra['covariance_classes'] = tot['shapes']
    report(ctx, found)

    # ---- the real eval_fixed against scipy.stats (clause a end to end)
    t0 = time.time()
    nfix = 1600 if thorough else 240
    seeds = [ctx.seed * 7919 + i for i in range(nfix)]
    found, skipped, nev = {}, {}, 0
    with mp.Pool(16) as pool:
        for n, by_key, sk in pool.imap_unordered(V.eval_fixed_chunk, [seeds[i:i + 10] for i in range(0, nfix, 10)]):
            nev += n
            merge(found, by_key)
            for k, v in sk.items():
                skipped[k] = skipped.get(k, 0) + v
    ctx.count(nev)
    ctx.traces += nfix - sum(skipped.values())
    for k, v in skipped.items():
        for _ in range(v):
            ctx.unsupported_case(f'eval_fixed/{k}', 'degenerate evaluations excluded by the generator constraint')
    if sum(skipped.values()) > nfix // 4:
        raise MachineryError(f'too many degenerate eval_fixed cases: {skipped}')
    ctx.extra['eval_fixed_cases'] = nfix
    report(ctx, found)

    phases['eval_fixed_s'] = round(time.time() - t0, 1)
    # ---- clause c on real-valued triples
    found = {}
    for s in range(8 if thorough else 2):
        f, n = V.check_dual_float(ctx.seed * 31 + s, 400)
        ctx.count(n)
        for key, what, case in f:
            merge(found, {key: [1, what, case]})
    report(ctx, found)

    # ---- one model NaN everywhere, every cv_method, every position (bootstrap-type: contract question, counted)
    same, differs, viol = V.probe_model_nan(ctx.seed)
    ctx.count(same + sum(differs.values()) + len(viol))
    for key, what, case in viol:
        ctx.violation(key, what, case)
    for cls, n in sorted(differs.items()):
        for _ in range(n):
            ctx.unsupported_case(f'get_means/model-specific-nan/{cls}',
                                 'bootstrap-type result with one all-NaN model: samples are filtered by model 0 (not demanded)')
    ctx.extra['model_nan_probe'] = {'as_per_model_mean': same, 'differs_not_demanded': differs}

    # ---- implementation -> specification
    t0 = time.time()
    n, ok = record_and_validate(ctx, 6000 if thorough else 600)
    phases['record_validate_s'] = round(time.time() - t0, 1)
    ctx.extra['phase_wall'] = phases
    ctx.extra['recorded_executions'] = n
    ctx.extra['recorded_executions_accepted'] = ok
