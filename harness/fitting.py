"""Binding of specs/Fitting.tla to rsatoolbox.model (fitters, Model classes) - property C08.

* ``check_problem``  one problem (basis set, training stack, pattern_idx) TLC emitted together with every
                     competitor TLC chose for it: fit_regress / fit_regress_nn / fit_select / fit_interpolate
                     (fit_optimize(_positive) on request) are called through the public API; fitted and
                     competing parameters are scored by the implementation's compare on the training data at
                     the selected conditions (with their multiplicity); constraints checked directly; the exact
                     optimal direction of the specification (one training RDM) compared; token inspection of
                     what the fitter's pool_rdm / compare received; perturbation replay of unselected entries.
* ``check_lin``      predict / predict_rdm / model_from_dict on the integer grid: exact equality with Predict.
* ``record_trace``   randomised driver recording one fit call for Trace_Fitting.tla (I -> S).
"""
from __future__ import annotations

import zlib

import numpy as np

from harness import rdmstore as S

K9 = 10 ** 9
K4 = 10 ** 4
TOL = {'cosine': 1e-7, 'corr': 1e-7, 'cosine_cov': 1e-5, 'corr_cov': 1e-5}   # *_cov: conjugate gradient, rtol 1e-5
TOL_INTERP = 1e-4
TOL_OPT = 1e-3
CONFIGS = [('cosine', False), ('corr', False), ('cosine_cov', False), ('cosine_cov', True),
           ('corr_cov', False), ('corr_cov', True)]


def sigma_for(n):
    """a fixed well-conditioned SPD pattern covariance of size n"""
    d = 1.0 + 0.3 * np.arange(n)
    return np.array([[0.5 ** abs(i - j) * np.sqrt(d[i] * d[j]) for j in range(n)] for i in range(n)])


def basis_rdms(basis, nc, measure='grid', dtype=float, index=None):
    import rsatoolbox
    if index is not None:
        return rsatoolbox.rdm.RDMs(np.array(basis, dtype=dtype), dissimilarity_measure=measure, descriptors={'session': 'x'},
                                   rdm_descriptors={'name': [f'b{k}' for k in range(len(basis))]},
                                   pattern_descriptors={'index': np.array(index), 'cond': [f'c{p + 1}' for p in range(nc)],
                                                        'cat': [(p + 2) // 2 for p in range(nc)]})
    return rsatoolbox.rdm.RDMs(np.array(basis, dtype=dtype), dissimilarity_measure=measure,
                               descriptors={'session': 'x'},
                               rdm_descriptors={'name': [f'b{k}' for k in range(len(basis))]},
                               pattern_descriptors={'index': np.arange(nc), 'cond': [f'c{p + 1}' for p in range(nc)],
                                                    'cat': [(p + 2) // 2 for p in range(nc)]})


def data_rdms(train, nc, index=None):
    import rsatoolbox
    return rsatoolbox.rdm.RDMs(np.array(train, dtype=float), dissimilarity_measure='grid',
                               rdm_descriptors={'subj': list(range(1, len(train) + 1))},
                               pattern_descriptors={'index': np.arange(nc) if index is None else np.array(index),
                                                    'cond': [f'c{p + 1}' for p in range(nc)]})


def token_data(r_count, nc):
    vec = [[S.tok(r, i, j, set()) for i in range(1, nc + 1) for j in range(i + 1, nc + 1)] for r in range(1, r_count + 1)]
    return data_rdms(vec, nc)


FITTERS_OF = {'fit_regress': 'ModelWeighted', 'fit_regress_nn': 'ModelWeighted', 'fit_select': 'ModelSelect',
              'fit_interpolate': 'ModelInterpolate'}


def _fp(*arrays):
    h = 0
    for a_ in arrays:
        h = zlib.crc32(np.ascontiguousarray(np.asarray(a_, dtype=float)).tobytes(), h)
    return int(h % (2 ** 31 - 1))


def run_session(basis, train, nc, fits, sigma=None):
    """several fits, one after the other, on ONE model object per model class (all built on ONE basis RDMs object) and ONE
    data object, full condition set.  Returns per fit: model / data fingerprints, predict(theta) for integer thetas, and whether
    theta equals the one a fresh model gives (bit-identical)."""
    import rsatoolbox.model as M
    from rsatoolbox.model import fitter as F
    B = basis_rdms(basis, nc)
    D = data_rdms(train, nc)
    models = {c: getattr(M, c)('m', B) for c in set(FITTERS_OF.values())}
    K = len(basis)

    def mfp():
        return _fp(B.dissimilarities, *[m.rdm for m in models.values()], *[m.rdm_obj.dissimilarities for m in models.values()])
    first = {'mfp': mfp(), 'dfp': _fp(D.dissimilarities)}
    th1, th2 = np.ones(K), np.arange(1, K + 1, dtype=float)
    steps = []
    for fname, method in fits:
        m = models[FITTERS_OF[fname]]
        sk = sigma if method.endswith('_cov') else None
        theta = getattr(F, fname)(m, D, method=method, sigma_k=sk)
        fresh = getattr(M, FITTERS_OF[fname])('m', basis_rdms(basis, nc))
        theta_f = getattr(F, fname)(fresh, data_rdms(train, nc), method=method, sigma_k=sk)
        mw = models['ModelWeighted']
        steps.append({'fit': [fname, method], 'mfp': mfp(), 'dfp': _fp(D.dissimilarities),
                      'pred': np.asarray(mw.predict(th1), float), 'pred2': np.asarray(mw.predict_rdm(th2).get_vectors()[0], float),
                      'same': bool(np.array_equal(np.asarray(theta, float), np.asarray(theta_f, float))),
                      'theta': np.asarray(theta, float).tolist(), 'fresh': np.asarray(theta_f, float).tolist()})
    return first, steps


def check_session(rec, nc):
    """S -> I for the "sess" behaviours of Fitting.tla.  Returns list of violations."""
    out = []
    basis, train, fits = rec['basis'], rec['train'], [tuple(f) for f in rec['fits']]
    case = {'basis': basis, 'train': train, 'fits': [list(f) for f in fits], 'NC': nc}
    try:
        first, steps = run_session(basis, train, nc, fits, sigma_for(nc))
    except Exception as ex:
        return [(f'C08/raises/session/{type(ex).__name__}', f'{type(ex).__name__}: {ex}', case)]
    p1, p2 = np.array(rec['pred'], float), np.array(rec['pred2'], float)
    for k, st in enumerate(steps):
        fname, method = st['fit']
        if st['mfp'] != first['mfp']:
            out.append((f'C08/frame/{fname}/{method}/model-modified', 'a fit altered the basis RDMs of the model it was given', dict(case, step=k)))
            break
        if st['dfp'] != first['dfp']:
            out.append((f'C08/frame/{fname}/{method}/data-modified', 'a fit altered the training data it was given', dict(case, step=k)))
            break
        if not np.array_equal(st['pred'], p1) or not np.array_equal(st['pred2'], p2):
            out.append((f'C08/frame/{fname}/{method}/prediction-after-fit', 'after the fit predict(theta) is no longer SUM theta_k basis_k of the original basis',
                        dict(case, step=k, predict=st['pred'].tolist(), spec=p1.tolist())))
            break
        if not st['same']:
            prev = '-'.join(steps[k - 1]['fit']) if k else 'first'
            out.append((f'C08/frame/{fname}/{method}/fit-depends-on-history', 'the same fit on a fresh model object gives other parameters',
                        dict(case, step=k, after=prev, theta=st['theta'], fresh=st['fresh'])))
            break
    return out


def record_session_trace(seed, const):
    """one recorded session of fits on ONE model object for Trace_Fitting.tla (hdr.fitter = "session")"""
    rng = np.random.default_rng(seed)
    nc = 4
    L = nc * (nc - 1) // 2
    K = int(rng.integers(2, 4))
    while True:
        basis = rng.integers(0, 4, size=(K, L))
        c = basis - basis.mean(1, keepdims=True)
        if np.linalg.matrix_rank(c) == K:
            break
    train = np.array([rng.permutation(L) for _ in range(int(rng.integers(1, 3)))])
    kinds = [('fit_regress_nn', 'corr'), ('fit_regress_nn', 'corr_cov'), ('fit_regress', 'corr'), ('fit_regress', 'cosine'),
             ('fit_regress_nn', 'cosine'), ('fit_regress', 'cosine_cov'), ('fit_select', 'cosine'), ('fit_interpolate', 'cosine')]
    fits = [kinds[int(i)] for i in rng.integers(0, len(kinds), size=int(rng.integers(2, 4)))]
    first, steps = run_session(basis.tolist(), train.tolist(), nc, fits, sigma_for(nc))
    th = [int(x) for x in rng.integers(-2, 3, size=K)]
    evs = []
    import rsatoolbox.model as M
    for st in steps:
        evs.append({'fit': st['fit'], 'mfp': st['mfp'], 'dfp': st['dfp'], 'th': [1] * K,
                    'pred': [int(round(x)) for x in st['pred']], 'same': st['same']})
    return {'hdr': {'K': K, 'fitter': 'session', 'method': '', 'R': len(train), 'tol9': 0, 'basis': basis.tolist(),
                    'mfp': first['mfp'], 'dfp': first['dfp']}, 'ev': evs}


class FitTimeout(Exception):
    pass


_TIMEOUTS = {'n': 0}
NN_SCALES = (1e-3, 1e2, 1e3, 1e5)
NN_SOLVE_BUDGET = 500      # linear solves per parameter and fit (a terminating run needs a handful)


class _CountingLinalg:
    def __init__(self, real, budget):
        self._real, self.budget, self.n = real, budget, 0

    def solve(self, *a, **kw):
        self.n += 1
        if self.n > self.budget:
            raise FitTimeout()
        return self._real.solve(*a, **kw)

    def __getattr__(self, name):
        return getattr(self._real, name)


class _NumpyShim:
    """numpy as seen from rsatoolbox.model.fitter, with linalg.solve counted"""

    def __init__(self, real, budget):
        self._real = real
        self.linalg = _CountingLinalg(real.linalg, budget)

    def __getattr__(self, name):
        return getattr(self._real, name)


def call_with_budget(fn, n_param, *a, **kw):
    """run a fit with a bound on the WORK, not on the time: the active-set algorithm of _nn_least_squares solves one small
    linear system per change of the active set, and a terminating run changes it a few times n_param at most.  More than
    NN_SOLVE_BUDGET x n_param solves in ONE fit is reported as non-termination (FitTimeout) - independent of the load of the
    machine.  numpy.linalg.solve is counted only as seen from rsatoolbox.model.fitter."""
    from rsatoolbox.model import fitter as Fm
    real = Fm.np
    shim = _NumpyShim(real, NN_SOLVE_BUDGET * max(1, n_param))
    Fm.np = shim
    try:
        return fn(*a, **kw)
    finally:
        Fm.np = real


def check_nn_scaled(basis, nc, data, pidx, method, sig, sigma, th_ref, case0, scorer, scales=NN_SCALES):
    """fit_regress_nn on the same problem with the basis RDMs rescaled by 1e-3 .. 1e5: the fit terminates, the weights are
    non-negative and describe the same prediction (the measures do not see the scale of the prediction)"""
    from rsatoolbox.model import ModelWeighted
    from rsatoolbox.model import fitter as F
    out = []
    for sc_ in scales:
        if _TIMEOUTS['n'] >= 2:
            break                      # this process has seen the fit hang repeatedly: reported, do not wait again
        case = dict(case0, method=method, sigma_k='given' if sig else None, basis_scale=sc_, fitter='fit_regress_nn')
        m = ModelWeighted('w', basis_rdms((np.array(basis, float) * sc_).tolist(), nc))
        try:
            th = np.asarray(call_with_budget(F.fit_regress_nn, len(basis), m, data, method=method, pattern_idx=pidx,
                                            pattern_descriptor='index', sigma_k=sigma), dtype=float)
        except FitTimeout:
            _TIMEOUTS['n'] += 1
            out.append((f'C08/nn/{method}/does-not-terminate', f'fit_regress_nn made more than {NN_SOLVE_BUDGET} x n_param linear solves (active set cycles) for basis RDMs scaled by {sc_:g}',
                        case))
            break
        except Exception as ex:
            out.append((f'C08/raises/fit_regress_nn/{method}/scaled-basis/{type(ex).__name__}', f'{type(ex).__name__}: {ex}', case))
            continue
        if th.shape != th_ref.shape or np.any(th < 0) or not np.all(np.isfinite(th)):
            out.append((f'C08/nn/{method}/negative-weight', f'theta = {th.tolist()}', case))
        else:
            # the measures do not see the scale of the prediction: the weights found for the rescaled basis must score as well
            # on the training data as those of the unscaled fit (the direction itself may differ where the optimum is flat)
            if np.allclose(th, th_ref, rtol=0, atol=1e-9):
                continue               # the same weights: nothing to score
            s_ref = scorer.one(th_ref) if np.any(th_ref) else 0.0
            s_new = scorer.one(th) if np.any(th) else 0.0      # all-zero weights: no prediction, similarity 0 by convention
            if np.isfinite(s_ref) and not (np.isfinite(s_new) and s_new >= s_ref - TOL[method]):
                out.append((f'C08/nn/{method}/scale-dependent', 'after rescaling all basis RDMs the non-negative fit scores lower on the training data',
                            dict(case, theta=th.tolist(), unscaled=th_ref.tolist(), score=float(s_new), unscaled_score=float(s_ref))))
    return out


NN_PROBES = [   # (basis, nc, training RDMs, pattern_idx): fixed problems, every method and scale, independent of the thinning
    ([[1, 2, 3, 1, 2, 1], [3, 1, 0, 2, 0, 1]], 4, [[1, 2, 0, 1, 0, 2]], [0, 1, 2]),
    ([[1, 2, 3, 1, 2, 1], [3, 1, 0, 2, 0, 1], [0, 1, 1, 3, 2, 2]], 4, [[0, 2, 1, 1, 0, 2], [2, 0, 1, 2, 1, 0]], [0, 1, 2, 3]),
    ([[1, 2, 3], [3, 1, 1]], 3, [[1, 3, 0]], [0, 0, 1, 2]),
    ([[1, 0, 0, 1, 2, 3], [0, 2, 1, 1, 0, 1], [2, 2, 0, 0, 1, 1]], 4, [[2, 1, 0, 1, 2, 2]], [0, 1, 1, 2, 3, 3]),
]


def check_nn_probes():
    """fit_regress_nn terminates on rescaled bases: fixed probe problems x 4 methods x sigma none / given x 4 scales"""
    from rsatoolbox.model import ModelWeighted
    from rsatoolbox.model import fitter as F
    out, n = [], 0
    _TIMEOUTS['n'] = 0
    for basis, nc, train, pidx in NN_PROBES:
        pidx = np.array(pidx)
        data = data_rdms(train, nc).subsample_pattern('index', pidx)
        mw = ModelWeighted('w', basis_rdms(basis, nc))
        case0 = {'basis': basis, 'train': train, 'pidx': pidx.tolist(), 'NC': nc, 'probe': True}
        for method, sig in CONFIGS:
            sigma = sigma_for(len(pidx)) if sig else None
            try:
                th = np.asarray(call_with_budget(F.fit_regress_nn, len(basis), mw, data, method=method, pattern_idx=pidx,
                                                pattern_descriptor='index', sigma_k=sigma), float)
            except FitTimeout:
                out.append((f'C08/nn/{method}/does-not-terminate', f'fit_regress_nn made more than {NN_SOLVE_BUDGET} x n_param linear solves (unscaled basis)',
                            dict(case0, method=method)))
                continue
            except Exception as ex:
                out.append((f'C08/raises/fit_regress_nn/{method}/{type(ex).__name__}', f'{type(ex).__name__}: {ex}', dict(case0, method=method)))
                continue
            _TIMEOUTS['n'] = 0          # the probes try every scale (a cycling fit costs only its solve budget)
            out += check_nn_scaled(basis, nc, data, pidx, method, sig, sigma, th, case0, Scorer(mw, data, pidx, method, sigma))
            n += 1 + len(NN_SCALES)
    _TIMEOUTS['n'] = 0
    return out, n


class Scorer:
    """average similarity of predictions to the training data, by the implementation's compare"""

    def __init__(self, model, data, pidx, method, sigma):
        from rsatoolbox.rdm import compare
        self.compare, self.model, self.data, self.pidx, self.method, self.sigma = compare, model, data, pidx, method, sigma
        ob = model.rdm_obj if pidx is None else model.rdm_obj.subsample_pattern('index', pidx)
        self.P = ob.get_vectors()
        self.template = ob

    def one(self, theta):
        """through the model's own predict_rdm"""
        p = self.model.predict_rdm(theta)
        if self.pidx is not None:
            p = p.subsample_pattern('index', self.pidx)
        return float(np.mean(self.compare(p, self.data, method=self.method, sigma_k=self.sigma)))

    def many(self, thetas):
        """batch: predictions as weighted sums of the restricted basis vectors (NaN between copies stays NaN)"""
        from rsatoolbox.rdm import RDMs
        th = np.atleast_2d(np.asarray(thetas, dtype=float))
        with np.errstate(invalid='ignore'):
            V = np.array([np.sum(t[:, None] * self.P, axis=0) for t in th])
        V[:, np.isnan(self.P[0])] = np.nan
        return np.mean(self.compare(RDMs(V), self.data, method=self.method, sigma_k=self.sigma), axis=1)


def _key(clause, fitter, method, sig, R, rep):
    return f"C08/{clause}/{fitter}/{method}/sigma_k-{'given' if sig else 'none'}/{'multi' if R > 1 else 'single'}-rdm"


def check_problem(rec, comps, nc, rng, n_random=200, with_optimize=False, configs=CONFIGS):
    """Returns (violations, n_eval, stats)"""
    from rsatoolbox.model import ModelWeighted, ModelSelect, ModelInterpolate
    from rsatoolbox.model import fitter as F
    from harness.core import MachineryError
    out = []
    stats = {'margin': {}, 'exact_checked': 0}
    n_eval = 0
    basis, train = rec['basis'], rec['train']
    K, R = len(basis), len(train)
    pidx = np.array(rec['pidx'], dtype=int)
    rep = len(set(rec['pidx'])) < len(rec['pidx'])
    interp_only = bool(rec.get('interp'))      # a path of 4-5 RDMs: selection / interpolation models only
    B = basis_rdms(basis, nc)
    D = data_rdms(train, nc)
    data = D.subsample_pattern('index', pidx)
    # what the specification says the fit sees
    tm = np.array(rec['tmpl'])
    if not np.array_equal(np.isnan(data.get_vectors()[0]), tm == S.NAN):
        raise MachineryError(f'restricted data disagrees with RestrictV of the specification: {rec}')
    mw, ms, mi = ModelWeighted('w', B), ModelSelect('s', B), ModelInterpolate('i', B)
    wcomps = np.array([c['v'] for c in comps if c['k'] == 'w'], dtype=float).reshape(-1, K)
    icomps = [c['v'] for c in comps if c['k'] == 'i']
    scomps = [c['v'][0] for c in comps if c['k'] == 's']
    case0 = {'basis': basis, 'train': train, 'pidx': rec['pidx'], 'NC': nc}

    def margin(key, val):
        stats['margin'][key] = max(stats['margin'].get(key, -np.inf), float(val))

    for method, sig in configs:
        sigma = sigma_for(len(pidx)) if sig else None
        try:
            sc = Scorer(mw, data, pidx, method, sigma)
        except Exception as ex:
            out.append((f'C08/raises/compare/{method}/{type(ex).__name__}', f'{type(ex).__name__}: {ex}', dict(case0, method=method)))
            continue
        # the fitters' pooling (rsatoolbox.util.pooling.pool_rdm) on the restricted data - NaN between copies of a
        # condition is a common missing-entry mask: NanMean o Normalise with the V(sigma_k)-norm for whitened measures
        if not interp_only:
            out += check_fit_pool(data, method, sigma, case0)
        # competitors shared by both regression fitters: TLC's grid, random directions and their absolute values
        if not interp_only:
            nr_ = n_random if not sig else max(20, n_random // 5)       # whitened + sigma_k: one cg solve per competitor
            Rnd = rng.normal(size=(nr_, K))
            C_all = np.vstack([wcomps.reshape(-1, K), Rnd, np.abs(Rnd)])
            C_all = C_all[np.any(C_all != 0, axis=1)]
            s_all = sc.many(C_all)
            n_eval += len(C_all)
        for fname, nonneg in (() if interp_only else (('fit_regress', False), ('fit_regress_nn', True))):
            fit = getattr(F, fname)
            case = dict(case0, method=method, sigma_k=None if sigma is None else sigma.tolist(), fitter=fname)
            try:
                th = np.asarray(fit(mw, data, method=method, pattern_idx=pidx, pattern_descriptor='index', sigma_k=sigma), dtype=float)
                th_raw = np.asarray(fit(mw, data, method=method, pattern_idx=pidx, pattern_descriptor='index', sigma_k=sigma,
                                        normalize=False), dtype=float)
            except Exception as ex:
                out.append((f'C08/raises/{fname}/{method}/{type(ex).__name__}', f'{type(ex).__name__}: {ex}', case))
                continue
            n_eval += 2
            if th.shape != (K,) or not np.all(np.isfinite(th)):
                out.append((_key('a', fname, method, sig, R, rep) + '/shape', f'theta = {th!r}', case))
                continue
            # e: unit norm when normalised; same direction with and without
            nrm = float(np.sqrt(th @ th))
            if nrm > 0 and abs(nrm - 1.0) > 1e-12:
                out.append((f'C08/e/{fname}/not-unit-norm', f'|theta| = {nrm!r} with normalize=True', dict(case, theta=th.tolist())))
            nr2 = float(np.sqrt(th_raw @ th_raw))
            if nr2 > 0 and nrm > 0 and not np.allclose(th_raw / nr2, th, rtol=0, atol=1e-12):
                out.append((f'C08/e/{fname}/normalize-changes-direction', 'normalize=True / False give different directions',
                            dict(case, theta=th.tolist(), raw=th_raw.tolist())))
            # b: constraint
            if nonneg and np.any(th < 0):
                out.append((_key('b', fname, method, sig, R, rep) + '/negative-weight', f'theta = {th.tolist()}', dict(case, theta=th.tolist())))
            # a / b: no competitor scores higher
            s_fit = sc.one(th)
            loc = np.vstack([th + d for d in 1e-3 * np.vstack([np.eye(K), -np.eye(K)])])
            if nonneg:
                loc = np.abs(loc)
            s_loc = sc.many(np.vstack([th[None, :], loc]))
            n_eval += len(loc)
            if abs(s_fit - s_loc[0]) > (1e-12 if method in ('cosine', 'corr') else 1e-8):
                raise MachineryError(f'batch scoring disagrees with predict_rdm scoring: {s_fit} vs {s_loc[0]} on {case}')
            ok = np.all(C_all >= 0, axis=1) if nonneg else np.ones(len(C_all), bool)
            C = np.vstack([C_all[ok], loc])
            s_c = np.concatenate([s_all[ok], s_loc[1:]])
            j = int(np.nanargmax(s_c))
            margin((fname, method, sig, R > 1, rep), s_c[j] - s_fit)
            if s_c[j] > s_fit + TOL[method]:
                out.append((_key('b' if nonneg else 'a', fname, method, sig, R, rep),
                            'a competing weight vector scores higher on the training data than the fitted one',
                            dict(case, theta=th.tolist(), score=s_fit, competitor=C[j].tolist(), competitor_score=float(s_c[j]))))
            if nonneg:
                # (the fixed probes of check_nn_probes run all four scales; here the two extremes that differ in kind)
                out += check_nn_scaled(basis, nc, data, pidx, method, sig, sigma, th, case0, sc, scales=(1e-3, 1e3))
                n_eval += 2
            # ridge_weight > 0 (the property fixes ridge 0): structural post-conditions only - the penalty shrinks the
            # unnormalised weights monotonically, and the non-negative fitter stays non-negative
            if method in ('cosine', 'corr') or sig:
                norms, neg = [float(np.sqrt(th_raw @ th_raw))], False
                try:
                    for rw in (0.5, 5.0, 50.0):
                        t_ = np.asarray(fit(mw, data, method=method, pattern_idx=pidx, pattern_descriptor='index', sigma_k=sigma,
                                            ridge_weight=rw, normalize=False), dtype=float)
                        norms.append(float(np.sqrt(t_ @ t_)))
                        neg = neg or (nonneg and bool(np.any(t_ < 0)))
                    n_eval += 3
                    if any(norms[i + 1] > norms[i] * (1 + 1e-9) + 1e-12 for i in range(3)):
                        out.append((f'C08/ridge/{fname}/norm-not-monotone', 'a larger ridge weight gives larger unnormalised weights',
                                    dict(case, ridge=[0, 0.5, 5, 50], norms=norms)))
                    if neg:
                        out.append((f'C08/ridge/{fname}/negative-weight', 'negative weight with ridge_weight > 0', case))
                except Exception as ex:
                    out.append((f'C08/raises/{fname}/{method}/ridge/{type(ex).__name__}', f'{type(ex).__name__}: {ex}', case))
            # exact optimal direction (one training RDM, plain measures, unconstrained)
            ex = rec['exact'].get('cos' if method == 'cosine' else 'corr') if method in ('cosine', 'corr') else None
            if ex and not nonneg and not sig:
                e = np.array(ex, dtype=float)
                stats['exact_checked'] += 1
                if np.sqrt(e @ e) > 0 and not np.allclose(e / np.sqrt(e @ e), th, rtol=0, atol=1e-9):
                    out.append((f'C08/a/{fname}/{method}/exact-direction', 'theta is not parallel to adj(G) b of the specification',
                                dict(case, theta=th.tolist(), exact=ex)))
        # c: selection
        if method in ('cosine', 'corr') or sig:
            case = dict(case0, method=method, sigma_k=None if sigma is None else sigma.tolist(), fitter='fit_select')
            try:
                k = F.fit_select(ms, data, method=method, pattern_idx=pidx, pattern_descriptor='index', sigma_k=sigma)
                k = int(k)
                sc_s = Scorer(ms, data, pidx, method, sigma)
                each = [sc_s.one(j) for j in range(K)]
                n_eval += K
                if not (0 <= k < K) or each[k] < max(each) - 1e-12:
                    out.append((f'C08/c/fit_select/{method}/not-best', 'another candidate scores higher than the selected one',
                                dict(case, theta=k, scores=each)))
                if method == 'cosine' and rec['exact'].get('sel') and (k + 1) not in rec['exact']['sel']:
                    out.append((f'C08/c/fit_select/{method}/exact-best', 'selected candidate is not a maximiser by exact arithmetic',
                                dict(case, theta=k, exact=rec['exact']['sel'])))
                if any(j < 1 or j > K for j in scomps):
                    raise MachineryError('selection competitor outside 1..K')
            except MachineryError:
                raise
            except Exception as ex_:
                out.append((f'C08/raises/fit_select/{method}/{type(ex_).__name__}', f'{type(ex_).__name__}: {ex_}', case))
        # d: interpolation
        if (method in ('cosine', 'corr')) or (method == 'cosine_cov' and sig) or (interp_only and sig):
            case = dict(case0, method=method, sigma_k=None if sigma is None else sigma.tolist(), fitter='fit_interpolate')
            try:
                th = np.asarray(F.fit_interpolate(mi, data, method=method, pattern_idx=pidx, pattern_descriptor='index', sigma_k=sigma),
                                dtype=float)
                nzi = np.nonzero(th)[0]
                ok = th.shape == (K,) and np.all(th >= 0) and abs(th.sum() - 1) < 1e-12 and \
                    (len(nzi) <= 1 or (len(nzi) == 2 and nzi[1] == nzi[0] + 1))
                if not ok:
                    out.append((f'C08/d/fit_interpolate/{method}/not-adjacent-convex', 'theta is not a convex mixture of two adjacent RDMs',
                                dict(case, theta=th.tolist())))
                else:
                    sc_i = Scorer(mi, data, pidx, method, sigma)
                    T = []
                    for sg in range(K - 1):
                        for w in np.linspace(0, 1, 41):
                            t = np.zeros(K)
                            t[sg], t[sg + 1] = w, 1 - w
                            T.append(t)
                    for sg, w4 in icomps:
                        t = np.zeros(K)
                        t[sg - 1], t[sg] = w4 / 4.0, 1 - w4 / 4.0
                        T.append(t)
                    s_c = sc_i.many(T)
                    s_fit = sc_i.one(th)
                    n_eval += len(T)
                    j = int(np.nanargmax(s_c))
                    margin(('fit_interpolate', method, sig, R > 1, rep), s_c[j] - s_fit)
                    if s_c[j] > s_fit + TOL_INTERP:
                        # classes of failure: (1) the bounded scalar search is a LOCAL search - where the similarity
                        # changes sign (is non-positive) along a segment the criterion is not unimodal there (open known
                        # finding, own key): on the returned segment or on the segment of the winning competitor;
                        # (2) all similarities positive on both, the winner lies on ANOTHER segment: the search over the
                        # segments is at fault; (3) same segment, positive: the scalar search itself
                        T_ = np.array(T)

                        def seg_of(t):
                            nz = np.nonzero(t)[0]
                            return {int(nz[0]) - 1, int(nz[0])} & set(range(K - 1)) if len(nz) == 1 else {int(nz[0])}

                        def on_seg(t, sg):
                            return all(t[k] == 0 for k in range(K) if k not in (sg, sg + 1))
                        segs = seg_of(th) | seg_of(T_[j])
                        sign_change = s_fit <= 0 or any(s_c[i] <= 0 for i in range(len(T_)) if any(on_seg(T_[i], sg) for sg in segs))
                        if sign_change:
                            kind = 'beaten/non-positive-similarity-on-segment'
                        elif not (seg_of(th) & seg_of(T_[j])):
                            kind = 'beaten/other-segment'
                        else:
                            kind = 'beaten'
                        # the sign-change class is a property of the measure family (centred or not), not of the whitening
                        mkey = method.replace('_cov', '') if kind.endswith('on-segment') else method
                        out.append((f'C08/d/fit_interpolate/{mkey}/{kind}', 'another mixture of two adjacent RDMs scores higher',
                                    dict(case, theta=th.tolist(), score=s_fit, competitor=T[j].tolist(), competitor_score=float(s_c[j]))))
            except Exception as ex_:
                out.append((f'C08/raises/fit_interpolate/{method}/{type(ex_).__name__}', f'{type(ex_).__name__}: {ex_}', case))
        # multi-start BFGS (a sample only)
        if with_optimize and (method in ('cosine', 'corr') or (sig and with_optimize >= 2)) and not interp_only:
            # whitened measure with a given sigma_k: the positive optimiser only (optimal over theta >= 0, not all-zero)
            for fname, nonneg in ((('fit_optimize', False), ('fit_optimize_positive', True)) if not sig else (('fit_optimize_positive', True),)):
                case = dict(case0, method=method, fitter=fname, sigma_k='given' if sig else None)
                try:
                    np.random.seed(zlib.crc32(repr((basis, train, rec['pidx'], fname, method)).encode()) % (2 ** 31 - 1))
                    th = np.asarray(getattr(F, fname)(mw, data, method=method, pattern_idx=pidx, pattern_descriptor='index',
                                                      sigma_k=sigma), dtype=float)
                    s_fit = sc.one(th) if np.all(np.isfinite(th)) else -np.inf
                    if not np.isfinite(s_fit):
                        s_fit = -np.inf          # an all-zero (or non-finite) parameter vector has no defined whitened similarity
                    # deterministic competitors only (the verdict on the optimisers must not depend on VERIF_SEED): TLC's grid and
                    # the closed-form optimum of the regression fitter for the same constraint
                    ref_fit = F.fit_regress_nn if nonneg else F.fit_regress
                    C = np.vstack([wcomps, np.asarray(ref_fit(mw, data, method=method, pattern_idx=pidx, pattern_descriptor='index',
                                                              sigma_k=sigma), float)[None, :]])
                    if nonneg:
                        C = np.abs(C)
                        if np.any(th < 0):
                            out.append((f'C08/b/{fname}/{method}/negative-weight', f'theta = {th.tolist()}', dict(case, theta=th.tolist())))
                    C = C[np.any(C != 0, axis=1)]
                    s_c = sc.many(C)
                    n_eval += len(C)
                    j = int(np.nanargmax(s_c))
                    margin((fname, method, False, R > 1, rep), s_c[j] - s_fit)
                    if s_c[j] > s_fit + TOL_OPT:
                        zero = '/all-zero' if not np.any(th) else ''          # own class: the optimiser returned no weights at all
                        out.append((f"C08/{'b' if nonneg else 'a'}/{fname}/{method}" + ('/sigma_k-given' if sig else '') + zero,
                                    'a competing weight vector scores higher than the optimiser\'s',
                                    dict(case, theta=th.tolist(), score=s_fit, competitor=C[j].tolist(), competitor_score=float(s_c[j]))))
                    nrm = float(np.sqrt(th @ th)) if np.all(np.isfinite(th)) else 0.0
                    if nrm > 0 and abs(nrm - 1) > 1e-12:
                        out.append((f'C08/e/{fname}/not-unit-norm', f'|theta| = {nrm!r}', dict(case, theta=th.tolist())))
                    if nonneg:
                        # structural post-condition with a ridge penalty and without normalisation
                        t_ = np.asarray(getattr(F, fname)(mw, data, method=method, pattern_idx=pidx, pattern_descriptor='index',
                                                          sigma_k=sigma, ridge_weight=0.1, normalize=False), dtype=float)
                        if t_.shape != (K,) or np.any(t_ < 0) or not np.all(np.isfinite(t_)):
                            out.append((f'C08/ridge/{fname}/negative-weight', f'theta = {t_.tolist()} with ridge_weight = 0.1', case))
                except Exception as ex_:
                    out.append((f'C08/raises/{fname}/{method}/{type(ex_).__name__}', f'{type(ex_).__name__}: {ex_}', case))
    # ---------------- f: what enters the fit
    out += check_deps(rec, nc, rng, mw, ms, mi, interp_only)
    return out, n_eval, stats


def check_fit_pool(data, method, sigma, case0):
    """rsatoolbox.util.pooling.pool_rdm(data, method, sigma_k) against NanMean o Normalise on the present entries"""
    from rsatoolbox.util.pooling import pool_rdm
    from harness.noiseceiling import whitening_v
    out = []
    X = np.asarray(data.get_vectors(), float)
    ok = ~np.isnan(X[0])
    try:
        p = np.asarray(pool_rdm(data, method=method, sigma_k=sigma).get_vectors(), float)
    except Exception as ex:
        return [(f'C08/pool/{method}/raises/{type(ex).__name__}', f'{type(ex).__name__}: {ex}', dict(case0, method=method))]
    if p.shape != (1, X.shape[1]) or not np.array_equal(np.isnan(p[0]), ~ok):
        return [(f'C08/pool/{method}/nan-positions', 'pooled training RDM is not missing exactly the entries missing from all RDMs',
                 dict(case0, method=method))]
    Z = X[:, ok]
    if method in ('corr', 'corr_cov'):
        Z = Z - Z.mean(axis=1, keepdims=True)
    if method in ('cosine', 'corr'):
        nrm = np.sqrt(np.mean(Z ** 2, axis=1, keepdims=True))
        tol = 1e-11
    else:
        V = whitening_v(data.n_cond, sigma)[np.ix_(ok, ok)]
        nrm = np.sqrt(np.einsum('ij,ij->i', Z, np.linalg.solve(V, Z.T).T))[:, None]
        tol = 1e-4
    want = (Z / nrm).mean(axis=0)
    got = p[0][ok]
    if method in ('corr', 'corr_cov'):
        want, got = want - want.min(), got - got.min()
    if not np.allclose(got, want, rtol=0, atol=tol * max(1.0, np.abs(want).max())):
        out.append((f"C08/pool/{method}/sigma_k-{'given' if sigma is not None else 'none'}/value",
                    'the pooled training RDM differs from the mean of the normalised training RDMs',
                    dict(case0, method=method, pooled=got.tolist(), spec=want.tolist())))
    return out


def check_family(rec, nc=4):
    """rsatoolbox.model.ModelFamily: member index <-> subset of the component models"""
    from rsatoolbox.model import ModelFixed, ModelWeighted
    from rsatoolbox.model.model_family import ModelFamily
    import rsatoolbox
    out = []
    n, i, sub = rec['n'], rec['i'], list(rec['subset'])
    case = {'n': n, 'index': i - 1, 'subset': sub}
    comps = []
    for k in range(1, n + 1):
        v = np.array([[float(S.tok(k, a, b, set())) for a in range(1, nc + 1) for b in range(a + 1, nc + 1)]])
        comps.append(ModelFixed(f'm{k}', rsatoolbox.rdm.RDMs(v, pattern_descriptors={'index': np.arange(nc)})))
    fam = ModelFamily(comps)
    if fam.num_family_members != 2 ** n - 1 or len(fam.family_list) != 2 ** n - 1:
        out.append(('C08/family/number-of-members', f'{fam.num_family_members} members for {n} components', case))
        return out
    got = [int(x) + 1 for x in fam.family_list[i - 1]]
    if got != sub:
        out.append(('C08/family/index-to-subset', 'family_list does not enumerate the subsets by size, then lexicographically',
                    dict(case, got=got)))
    if [int(x) for x in fam.model_indices[i - 1]] != list(rec['ind']):
        out.append(('C08/family/model_indices', 'indicator row does not describe the member', dict(case, got=fam.model_indices[i - 1].tolist())))
    mem = fam.get_family_member(i - 1)
    if [m.name for m in mem] != [f'm{k}' for k in sub] or any(m is not comps[k - 1] for m, k in zip(mem, sub)):
        out.append(('C08/family/get_family_member', 'the member does not consist of the component models of its subset',
                    dict(case, got=[m.name for m in mem])))
    allm = fam.get_all_family_members()
    w = allm[i - 1]
    rows = [int(round(r[0])) // 100 for r in np.atleast_2d(w.rdm)]
    th = np.arange(1, len(sub) + 1, dtype=float)
    want = sum(t * comps[k - 1].predict() for t, k in zip(th, sub))
    if len(allm) != 2 ** n - 1 or not isinstance(w, ModelWeighted) or rows != sub or w.n_param != len(sub) or w.n_rdm != len(sub) \
            or not np.array_equal(w.predict(th), want) or not np.array_equal(w.predict_rdm(th).get_vectors()[0], want) \
            or w.name != ''.join(f'_m{k}' for k in sub):
        out.append(('C08/family/get_all_family_members', 'the weighted member model is not built from the component RDMs of its subset',
                    dict(case, rows=rows, n_param=int(w.n_param), name=w.name)))
    return out


def check_model(rec, nc):
    """bookkeeping of the model classes (n_param, n_rdm, default fitter), predictions for theta = None,
    to_dict / model_from_dict for every class incl. the base class, construction from arrays"""
    import rsatoolbox.model as M
    from rsatoolbox.model import fitter as F
    from rsatoolbox.model import model_from_dict
    from scipy.spatial.distance import squareform
    out = []
    basis, facts = rec['basis'], rec['facts']
    K = len(basis)
    B = basis_rdms(basis, nc)
    case = {'basis': basis}
    classes = {'w': ('ModelWeighted', B), 's': ('ModelSelect', B), 'i': ('ModelInterpolate', B), 'f': ('ModelFixed', B[0])}
    for c, (cls, arg) in classes.items():
        m = getattr(M, cls)('name_' + c, arg)
        if m.n_param != facts['nparam'][c] or (c != 'f' and m.n_rdm != facts['nrdm']):
            out.append((f'C08/model/{cls}/n_param', f'n_param = {m.n_param}, n_rdm = {getattr(m, "n_rdm", None)}', case))
        if m.default_fitter is not getattr(F, facts['fitter'][c]):
            out.append((f'C08/model/{cls}/default_fitter', f'default fitter is {getattr(m.default_fitter, "__name__", m.default_fitter)}', case))
        d = m.to_dict()
        m2 = model_from_dict(d)
        same = type(m2) is type(m) and m2.name == m.name and m2.n_param == m.n_param and m2.default_fitter is m.default_fitter \
            and getattr(m2, 'n_rdm', None) == getattr(m, 'n_rdm', None) \
            and np.array_equal(m2.rdm_obj.get_vectors(), m.rdm_obj.get_vectors()) \
            and all(list(m2.rdm_obj.pattern_descriptors[k]) == list(v) for k, v in m.rdm_obj.pattern_descriptors.items())
        if not same:
            out.append((f'C08/h/{cls}/from_dict-bookkeeping', 'model rebuilt from its dictionary differs (type, name, n_param, n_rdm, fitter, RDMs, descriptors)', case))
        # theta = None
        want = {'w': np.array(facts['defW'], float), 's': np.array(facts['defS'], float),
                'i': np.array(facts['defI2'], float) / 2, 'f': np.array(basis[0], float)}[c]
        if not np.array_equal(np.asarray(m.predict(), float), want):
            out.append((f'C08/g/{cls}/default-predict', 'predict() without parameters is not the documented default', dict(case, got=np.asarray(m.predict()).tolist())))
        if c != 'i' and not np.array_equal(m.predict_rdm().get_vectors()[0], want):       # 'i': open finding C08/g/ModelInterpolate/default-theta
            out.append((f'C08/g/{cls}/default-predict_rdm', 'predict_rdm() without parameters is not the documented default', case))
        # the same model from plain arrays (vectors, square matrices)
        vec = np.array(basis, float) if c != 'f' else np.array(basis[0], float)
        mats = np.array([squareform(v) for v in np.atleast_2d(vec)]) if c != 'f' else squareform(vec)
        th = {'w': np.arange(1, K + 1, dtype=float), 's': K - 1, 'i': np.arange(1, K + 1, dtype=float), 'f': None}[c]
        for how, arr in (('vectors', vec), ('matrices', mats)):
            try:
                ma = getattr(M, cls)('a', arr)
                ok = np.array_equal(np.asarray(ma.predict(th), float), np.asarray(m.predict(th), float)) and \
                    np.array_equal(ma.predict_rdm(th).get_vectors(), m.predict_rdm(th).get_vectors()) and \
                    ma.n_param == m.n_param and int(ma.n_cond) == nc and ma.predict_rdm(th).n_cond == nc
                if not ok:
                    out.append((f'C08/model/{cls}/from-{how}', 'the model built from plain arrays predicts differently from the one built from RDMs', case))
            except Exception as ex:
                out.append((f'C08/model/{cls}/from-{how}/raises/{type(ex).__name__}', f'{type(ex).__name__}: {ex}', case))
    # a fixed model defined by SEVERAL RDMs: the vector prediction is their mean; the RDM-object prediction must be that RDM too
    mf = M.ModelFixed('fk', B)
    pr = mf.predict_rdm().get_vectors()
    if pr.shape[0] != 1 or not np.array_equal(pr[0], np.asarray(mf.predict(), float)):
        out.append(('C08/g/ModelFixed/multi-rdm/predict-vs-predict_rdm',
                    'ModelFixed built from several RDMs: predict() is their mean, predict_rdm() returns all of them',
                    dict(case, predict=np.asarray(mf.predict()).tolist(), predict_rdm=pr.tolist())))
    mb = M.Model('base')
    m2 = model_from_dict(mb.to_dict())
    if type(m2) is not M.Model or m2.name != 'base' or m2.n_param != 0 or m2.default_fitter is not F.fit_mock or mb.n_param != 0 \
            or mb.default_fitter is not F.fit_mock:
        out.append(('C08/h/Model/from_dict-bookkeeping', 'base Model does not survive to_dict / model_from_dict', case))
    return out


def record_family_trace(seed):
    """one recorded ModelFamily session for Trace_Fitting.tla"""
    from rsatoolbox.model import ModelFixed
    from rsatoolbox.model.model_family import ModelFamily
    import rsatoolbox
    rng = np.random.default_rng(seed)
    n, nc = int(rng.integers(1, 5)), 4
    comps = [ModelFixed(f'm{k}', rsatoolbox.rdm.RDMs(np.array([[float(S.tok(k, a, b, set())) for a in range(1, nc + 1)
                                                                 for b in range(a + 1, nc + 1)]]))) for k in range(1, n + 1)]
    fam = ModelFamily(comps)
    allm = fam.get_all_family_members()
    evs = []
    for i in sorted(set(int(x) for x in rng.integers(0, fam.num_family_members, size=4))):
        w = allm[i]
        evs.append({'n': n, 'i': i + 1, 'subset': [int(x) + 1 for x in fam.family_list[i]],
                    'rows': [int(round(r[0])) // 100 for r in np.atleast_2d(w.rdm)], 'nparam': int(w.n_param)})
    return {'hdr': {'K': n, 'fitter': 'family', 'method': '', 'R': 0, 'tol9': 0}, 'ev': evs}


class FitTap:
    """records what pool_rdm / compare inside rsatoolbox.model.fitter receive"""

    def __init__(self):
        from rsatoolbox.model import fitter as Fm
        self.mod = Fm
        self.pools, self.cmps = [], []

    def __enter__(self):
        self._pool, self._cmp = self.mod.pool_rdm, self.mod.compare

        def pool(rdms, *a, **kw):
            self.pools.append(np.array(rdms.get_vectors(), dtype=float))
            return self._pool(rdms, *a, **kw)

        def cmp(r1, r2, *a, **kw):
            self.cmps.append(([int(v) for v in r1.pattern_descriptors['index']], np.array(r2.get_vectors(), dtype=float)))
            return self._cmp(r1, r2, *a, **kw)
        self.mod.pool_rdm, self.mod.compare = pool, cmp
        return self

    def __exit__(self, *a):
        self.mod.pool_rdm, self.mod.compare = self._pool, self._cmp


def _tokset(v):
    return sorted({int(round(x)) for x in v[~np.isnan(v)]})


def check_deps(rec, nc, rng, mw, ms, mi, interp_only=False):
    """clause f: token inspection of what the fitters work on, and perturbation replay"""
    from rsatoolbox.model import ModelWeighted
    from rsatoolbox.model import fitter as F
    out = []
    pidx = np.array(rec['pidx'], dtype=int)
    R = len(rec['train'])
    case0 = {'basis': rec['basis'], 'pidx': rec['pidx'], 'NC': nc}
    tdata = token_data(R, nc).subsample_pattern('index', pidx)
    want_idx = sorted(rec['pidx'])
    tm = [S.NAN if t == S.NAN else t for t in rec['tmpl']]
    want_rows = [[S.NAN if t == S.NAN else t + 100 * r for t in tm] for r in range(R)]
    for fname, model in (('fit_regress', mw), ('fit_regress_nn', mw), ('fit_select', ms), ('fit_interpolate', mi))[(2 if interp_only else 0):]:
        with FitTap() as tap:
            try:
                getattr(F, fname)(model, tdata, method='cosine', pattern_idx=pidx, pattern_descriptor='index')
            except Exception as ex:
                out.append((f'C08/raises/{fname}/cosine/{type(ex).__name__}', f'{type(ex).__name__}: {ex}', dict(case0, fitter=fname, data='tokens')))
                continue
        seen = tap.pools + [c[1] for c in tap.cmps]
        if not seen:
            out.append((f'C08/f/{fname}/nothing-observed', 'the fitter called neither pool_rdm nor compare', dict(case0, fitter=fname)))
            continue
        for v in seen:
            rows = [[S.NAN if np.isnan(x) else int(round(x)) for x in row] for row in v]
            if rows != want_rows:
                out.append((f'C08/f/{fname}/data-entries', 'the data the fitter works on are not the training RDMs at the selected conditions (with multiplicity)',
                            dict(case0, fitter=fname, got=rows, spec=want_rows)))
                break
        for idx, _ in tap.cmps:
            if idx != want_idx:
                out.append((f'C08/f/{fname}/prediction-conditions', 'the prediction scored during the fit does not cover the selected conditions with their multiplicity',
                            dict(case0, fitter=fname, got=idx, spec=want_idx)))
                break
    # pattern_idx holds VALUES of the pattern descriptor, not positions: model, data and pattern_idx relabelled 3..n+2 alike
    # (as after a subset_pattern) must give the very same parameters
    import rsatoolbox.model as M_
    off = 3
    for fname, cls in list(FITTERS_OF.items())[(2 if interp_only else 0):]:
        for method in ('cosine', 'corr'):
            try:
                m0 = getattr(M_, cls)('m', basis_rdms(rec['basis'], nc))
                t0 = getattr(F, fname)(m0, data_rdms(rec['train'], nc).subsample_pattern('index', pidx), method=method,
                                       pattern_idx=pidx, pattern_descriptor='index')
            except Exception:
                continue
            try:
                m1 = getattr(M_, cls)('m', basis_rdms(rec['basis'], nc, index=np.arange(nc) + off))
                d1 = data_rdms(rec['train'], nc, index=np.arange(nc) + off).subsample_pattern('index', pidx + off)
                t1 = getattr(F, fname)(m1, d1, method=method, pattern_idx=pidx + off, pattern_descriptor='index')
                bad = not np.array_equal(np.asarray(t0), np.asarray(t1))
                detail = [np.asarray(t0).tolist(), np.asarray(t1).tolist()]
            except Exception as ex:
                bad, detail = True, f'{type(ex).__name__}: {ex}'
            if bad:
                out.append((f'C08/f/{fname}/index-values-not-positions',
                            'with the index descriptor relabelled (3..n+2) on model, data and pattern_idx alike the fit differs / fails',
                            dict(case0, fitter=fname, method=method, detail=detail)))
    # perturbation replay: entries of the basis RDMs outside the selected conditions must not move theta
    sel = set(int(p) for p in pidx)
    iu = np.triu_indices(nc, 1)
    outside = np.array([not (i in sel and j in sel) for i, j in zip(*iu)])
    if outside.any():
        basis2 = np.array(rec['basis'], dtype=float)
        basis2[:, outside] = basis2[:, outside] * 1.7 + 0.3
        B2 = basis_rdms(basis2, nc)
        D = data_rdms(rec['train'], nc).subsample_pattern('index', pidx)
        for fname, cls in (('fit_regress', 'ModelWeighted'), ('fit_regress_nn', 'ModelWeighted'), ('fit_select', 'ModelSelect'),
                           ('fit_interpolate', 'ModelInterpolate'))[(2 if interp_only else 0):]:
            import rsatoolbox.model as M
            m1 = getattr(M, cls)('m', basis_rdms(rec['basis'], nc))
            m2 = getattr(M, cls)('m', B2)
            for method in ('cosine', 'corr'):
                try:
                    t1 = getattr(F, fname)(m1, D, method=method, pattern_idx=pidx, pattern_descriptor='index')
                    t2 = getattr(F, fname)(m2, D, method=method, pattern_idx=pidx, pattern_descriptor='index')
                except Exception:
                    continue
                if not np.array_equal(np.asarray(t1), np.asarray(t2)):
                    out.append((f'C08/f/{fname}/theta-depends-on-unselected-conditions',
                                'altering model entries that involve unselected conditions changes the fitted parameters',
                                dict(case0, fitter=fname, method=method, theta=[np.asarray(t1).tolist(), np.asarray(t2).tolist()])))
    return out


# --------------------------------------------------------------------------- clauses g, h
DTYPES = ('float64', 'float32', 'int64', 'int32')


def check_lin(rec, nc, dtype='float64', scale=1.0, index_kind=0):
    """exact on the integer grid.  ``dtype``: how the basis RDMs are stored (integer-valued in every flavour);
    ``scale``: the weights are the grid weights times scale (1 or 1/4: quarters are exact in binary, so the
    expected predictions stay exact while the weights are no longer integers).  Returns list of violations."""
    import rsatoolbox.model as M
    from rsatoolbox.model import model_from_dict
    out = []
    basis = rec['basis']
    K = len(basis)
    th1, th2, c = np.array(rec['th1'], dtype=float) * scale, np.array(rec['th2'], dtype=float) * scale, float(rec['c'])
    p1, p2, p12 = (np.array(rec[k], dtype=float) * scale for k in ('p1', 'p2', 'p12'))
    # the model's own condition descriptors: 'index' is a descriptor like any other - 0..n-1, 3..n+2 (after a subset_pattern)
    # or a permutation; the model must carry them as they are (and leave the caller's RDMs object alone)
    index = [None, list(range(3, nc + 3)), list(range(nc - 1, -1, -1))][index_kind % 3]
    B = basis_rdms(basis, nc, dtype=np.dtype(dtype), index=index)
    bd0 = {k: list(v) for k, v in B.pattern_descriptors.items()}
    case = {'basis': basis, 'th1': th1.tolist(), 'th2': th2.tolist(), 'c': rec['c'], 'basis_dtype': dtype,
            'index_descriptor': bd0['index']}

    def desc_ok(r):
        pd, bd = r.pattern_descriptors, bd0
        return all(k in pd and list(pd[k]) == list(bd[k]) for k in bd) and r.n_cond == nc

    for cls in ('ModelWeighted', 'ModelInterpolate'):
        m = getattr(M, cls)('m', B)
        nonneg_ok = cls == 'ModelWeighted' or (np.all(th1 >= 0) and np.all(th2 >= 0))
        v1 = np.asarray(m.predict(th1))
        if not np.array_equal(v1, p1):
            out.append((f'C08/g/{cls}/predict-value', 'predict(theta) is not the weighted sum of the basis RDMs', dict(case, got=v1.tolist(), spec=p1.tolist())))
        if not np.array_equal(np.asarray(m.predict(th1 + th2)), p12) or not np.array_equal(np.asarray(m.predict(c * th1)), c * p1):
            out.append((f'C08/g/{cls}/predict-not-linear', 'predict is not additive / homogeneous in theta', case))
        if nonneg_ok:
            r1 = m.predict_rdm(th1)
            if not np.array_equal(r1.get_vectors()[0], v1):
                out.append((f'C08/g/{cls}/predict-vs-predict_rdm', 'predict and predict_rdm disagree for the same parameters',
                            dict(case, predict=v1.tolist(), predict_rdm=r1.get_vectors()[0].tolist())))
            if not np.array_equal(m.predict_rdm(th1 + th2).get_vectors()[0], p12):
                out.append((f'C08/g/{cls}/predict_rdm-not-linear', 'predict_rdm is not additive in theta', case))
            if not desc_ok(r1):
                out.append((f'C08/g/{cls}/predict_rdm-descriptors', 'predict_rdm does not carry the model\'s condition descriptors',
                            dict(case, got={k: list(map(str, v)) for k, v in r1.pattern_descriptors.items()})))
        m2 = model_from_dict(m.to_dict())
        if type(m2) is not type(m) or not np.array_equal(np.asarray(m2.predict(th1)), v1) or \
                (nonneg_ok and not np.array_equal(m2.predict_rdm(th1).get_vectors()[0], v1)) or \
                (nonneg_ok and not desc_ok(m2.predict_rdm(th1))):
            out.append((f'C08/h/{cls}/from_dict', 'model rebuilt from its dictionary predicts differently', case))
    # selection and fixed models: theta is an index / ignored
    ms = M.ModelSelect('s', B)
    for k in range(K):
        v = np.asarray(ms.predict(k))
        r = ms.predict_rdm(k)
        if not np.array_equal(v, np.array(basis[k], dtype=float)) or not np.array_equal(r.get_vectors()[0], v):
            out.append(('C08/g/ModelSelect/predict-vs-predict_rdm', 'ModelSelect predictions differ from the selected RDM', dict(case, k=k)))
        if not desc_ok(r):
            out.append(('C08/g/ModelSelect/predict_rdm-descriptors', 'predict_rdm does not carry the model\'s condition descriptors', dict(case, k=k)))
        m2 = model_from_dict(ms.to_dict())
        if not np.array_equal(np.asarray(m2.predict(k)), v) or not np.array_equal(m2.predict_rdm(k).get_vectors()[0], v):
            out.append(('C08/h/ModelSelect/from_dict', 'model rebuilt from its dictionary predicts differently', dict(case, k=k)))
    # (whether a constructor may write 'index' into the RDMs object it is given is C12's question, not demanded here)
    mf = M.ModelFixed('f', B[0])
    v = np.asarray(mf.predict())
    r = mf.predict_rdm()
    if not np.array_equal(v, np.array(basis[0], dtype=float)) or not np.array_equal(r.get_vectors()[0], v):
        out.append(('C08/g/ModelFixed/predict-vs-predict_rdm', 'ModelFixed predictions differ from its RDM', case))
    if not desc_ok(r):
        out.append(('C08/g/ModelFixed/predict_rdm-descriptors', 'predict_rdm does not carry the model\'s condition descriptors', case))
    m2 = model_from_dict(mf.to_dict())
    if not np.array_equal(np.asarray(m2.predict()), v) or not np.array_equal(m2.predict_rdm().get_vectors()[0], v):
        out.append(('C08/h/ModelFixed/from_dict', 'model rebuilt from its dictionary predicts differently', case))
    return out


def check_defaults(nc, basis):
    """predict() and predict_rdm() without parameters must describe the same default prediction"""
    import rsatoolbox.model as M
    out = []
    B = basis_rdms(basis, nc)
    for cls in ('ModelWeighted', 'ModelInterpolate', 'ModelSelect', 'ModelFixed'):
        m = getattr(M, cls)('m', B if cls != 'ModelFixed' else B[0])
        a = np.asarray(m.predict())
        b = m.predict_rdm().get_vectors()[0]
        if not np.array_equal(a, b):
            out.append((f'C08/g/{cls}/default-theta', 'predict() and predict_rdm() disagree for the default parameters',
                        {'basis': basis, 'predict': a.tolist(), 'predict_rdm': b.tolist()}))
    return out


# --------------------------------------------------------------------------- I -> S
def record_trace(seed, const):
    """one recorded crossval / direct fit call for Trace_Fitting.tla.

    The driver runs rsatoolbox.inference.evaluate.crossval or bootstrap_crossval-like resampling with recording
    fitters on token-valued data: every fit call logs pattern_idx, the data tokens it received, theta and the scores
    of theta and of competitors (by the implementation's compare)."""
    from rsatoolbox.model import ModelWeighted, ModelSelect, ModelInterpolate
    from rsatoolbox.model import fitter as F
    from rsatoolbox.inference import crossvalsets as CV
    from rsatoolbox.inference import bootstrap as BS
    from rsatoolbox.inference.evaluate import crossval
    rng = np.random.default_rng(seed)
    NR, NC = const['NR'], const['NC']
    K = int(rng.integers(2, 4))
    L = NC * (NC - 1) // 2
    while True:
        basis = rng.integers(0, 4, size=(K, L))
        c = basis - basis.mean(1, keepdims=True)
        if np.linalg.matrix_rank(c) == K and np.linalg.matrix_rank(basis) == K:
            break
    B = basis_rdms(basis.tolist(), NC)
    R = int(rng.integers(1, NR + 1))
    D = token_data(R, NC)
    # integer data values attached to the tokens: the fit runs on values, deps are read off the labels
    # every row: a permutation of 0..L-1, in half of the sessions halved (pairs of ties); never constant on 3 entries
    vals = np.array([rng.permutation(L) for _ in range(NR)])
    if rng.random() < 0.5:
        vals = vals // 2
    Dv = data_rdms(vals[:R].tolist(), NC)
    which = ['fit_regress', 'fit_regress_nn', 'fit_select', 'fit_interpolate'][int(rng.integers(0, 4))]
    method = ['cosine', 'corr'][int(rng.integers(0, 2))]
    model = {'fit_regress': ModelWeighted, 'fit_regress_nn': ModelWeighted, 'fit_select': ModelSelect,
             'fit_interpolate': ModelInterpolate}[which]('m', B)
    events = []

    def rec_fitter(m, data, method='cosine', pattern_idx=None, pattern_descriptor=None, **kw):
        theta = getattr(F, which)(m, data, method=method, pattern_idx=pattern_idx, pattern_descriptor=pattern_descriptor, **kw)
        events.append({'data': data, 'pidx': None if pattern_idx is None else [int(v) for v in pattern_idx], 'theta': theta,
                       'desc': pattern_descriptor})
        return theta
    np.random.seed(int(rng.integers(0, 2 ** 31 - 1)))
    mode = str(rng.choice(['crossval', 'bootstrap']))
    if mode == 'crossval':
        train, test, ceil = CV.sets_k_fold(Dv, k_rdm=1, k_pattern=2 if NC >= 6 else 1, pattern_descriptor='index', rdm_descriptor='index')
        crossval(model, Dv, train, test, ceil_set=ceil, method=method, fitter=rec_fitter, pattern_descriptor='index', calc_noise_ceil=False)
    else:
        samp, r_idx, p_idx = BS.bootstrap_sample(Dv, rdm_descriptor='subj', pattern_descriptor='index')
        if len(set(int(p) for p in p_idx)) >= 4:
            rec_fitter(model, samp, method=method, pattern_idx=p_idx, pattern_descriptor='index')
    evs = []
    for e in events:
        data, pidx, theta = e['data'], e['pidx'], e['theta']
        if pidx is None:
            pidx = list(range(NC))
        rows = [int(v) for v in data.rdm_descriptors['subj']]
        conds = [int(v) for v in data.pattern_descriptors['index']]
        n = len(conds)
        tok = [[S.NAN if np.isnan(data.get_vectors()[r][k]) else S.tok(rows[r], conds[p] + 1, conds[q] + 1, set())
                for k, (p, q) in enumerate(zip(*np.triu_indices(n, 1)))] for r in range(len(rows))]
        # the values must be the logged values of those tokens
        for r in range(len(rows)):
            for k, (p, q) in enumerate(zip(*np.triu_indices(n, 1))):
                x = data.get_vectors()[r][k]
                if not np.isnan(x):
                    i, j = sorted((conds[p], conds[q]))
                    kk = i * NC - i * (i + 1) // 2 + (j - i) - 1
                    if vals[rows[r] - 1][kk] != x:
                        tok[r][k] = -2          # value does not belong to the entry its labels name
        sc = Scorer(model, data, np.array(pidx), method, None)
        if which == 'fit_select':
            th = [int(theta)]
            comps = [[k] for k in range(K)]
            s_fit = sc.one(int(theta))
            s_c = [sc.one(k) for k in range(K)]
        else:
            th = [int(round(float(x) * K4)) for x in np.asarray(theta)]
            if which == 'fit_interpolate':
                C = []
                for sg in range(K - 1):
                    for w in np.linspace(0, 1, 9):
                        t = np.zeros(K)
                        t[sg], t[sg + 1] = w, 1 - w
                        C.append(t)
                C = np.array(C)
            else:
                C = rng.integers(-3, 4, size=(16, K)).astype(float)
                if which == 'fit_regress_nn':
                    C = np.abs(C)
                C = C[np.any(C != 0, axis=1)]
            comps = [[int(round(x * 8)) for x in t] for t in C]
            s_fit = sc.one(np.asarray(theta))
            s_c = sc.many(C)
        evs.append({'rows': rows, 'pidx': [int(p) for p in pidx], 'tok': tok, 'theta': th,
                    's9': int(round(s_fit * K9)), 'comps': [{'c': c_, 's9': int(round(float(s) * K9))} for c_, s in zip(comps, s_c)]})
    return {'hdr': {'K': K, 'fitter': which, 'method': method, 'R': R,
                    'tol9': int(TOL_INTERP * K9) if which == 'fit_interpolate' else int(TOL[method] * K9)}, 'ev': evs}
