"""Binding of specs/RdmsStore.tla to rsatoolbox.rdm.RDMs.

* ``make_source``   builds the real source object of the specification's ``Source`` for a flavour
* ``project``       real RDMs object -> abstract record (rows, pats, ridx, pidx, pinv, vec)
* ``apply_event``   performs one specification event on a heap of real objects
* ``replay``        steps a TLC behaviour through real objects, comparing ALL live objects after
                    every step (S -> I)
* ``random_trace``  issues a random admissible history on real objects and records the projected
                    heap after every call (I -> S, validated by Trace_RdmsStore.tla)
"""
from __future__ import annotations

import io
import os
import tempfile

import numpy as np

NAN = -1
FLAVOURS = [(c, t) for c in ('list', 'array') for t in ('int', 'str')]
_PFX = {'subj': 's', 'grp': 'g', 'cond': 'c', 'cat': 'k'}


def grp(r):
    return (r + 1) // 2


def cat(c):
    return (c + 1) // 2


def tok(r, i, j, nanpairs):
    a, b = min(i, j), max(i, j)
    if (r, a, b) in nanpairs:
        return NAN
    return 100 * r + 10 * a + b


def enc(name, v, flavour):
    """abstract integer descriptor value -> value used in the real object"""
    if name == 'index' or flavour[1] == 'int':
        return int(v)
    return f'{_PFX[name]}{v}'


def dec(name, v):
    if isinstance(v, (bytes, np.bytes_)):
        v = v.decode()
    if isinstance(v, (str, np.str_)):
        s = str(v)
        if s and s[0] in 'sgck' and s[1:].lstrip('-').isdigit():
            return int(s[1:])
        return int(s)
    return int(v)


def _xy(flavour):
    """flavour component 3: every RDM / condition also carries a 2-D array descriptor 'xy' (one row per item)"""
    return bool(flavour[2]) if len(flavour) > 2 else False


def _offset(flavour):
    """flavour component 4: stored value = token - offset, so that one source entry (RDM 1, conditions 1 and 2) is
    exactly 0 although its two conditions differ"""
    return (112 if flavour[3] else 0) if len(flavour) > 3 else 0


def ext_flavour(i):
    """the 16 extended flavours, rotating with a behaviour / trace index"""
    return tuple(FLAVOURS[i % 4]) + ((i // 4) % 2, (i // 8) % 2)


def _container(vals, flavour):
    return list(vals) if flavour[0] == 'list' else np.array(vals)


def make_source(nr, nc, nanpairs, flavour):
    import rsatoolbox
    n = nc * (nc - 1) // 2
    vec = np.zeros((nr, n))
    iu = np.triu_indices(nc, 1)
    for r in range(nr):
        for k in range(n):
            t = tok(r + 1, int(iu[0][k]) + 1, int(iu[1][k]) + 1, nanpairs)
            vec[r, k] = np.nan if t == NAN else t - _offset(flavour)
    rd = {'subj': _container([enc('subj', r + 1, flavour) for r in range(nr)], flavour),
          'grp': _container([enc('grp', grp(r + 1), flavour) for r in range(nr)], flavour)}
    pd = {'cond': _container([enc('cond', c + 1, flavour) for c in range(nc)], flavour),
          'cat': _container([enc('cat', cat(c + 1), flavour) for c in range(nc)], flavour)}
    if _xy(flavour):
        # (per RDM only: concat's search for an aligning pattern descriptor hashes the values of every pattern
        #  descriptor, so array-valued PATTERN descriptors are outside what the container supports)
        rd['xy'] = np.array([[r + 1, r + 101] for r in range(nr)])
    return rsatoolbox.rdm.RDMs(vec, dissimilarity_measure='tok', descriptors={'session': 'x'},
                               rdm_descriptors=rd, pattern_descriptors=pd)


class DrawMismatch(Exception):
    """the code did not ask for the draw the specification describes (randint(0, G, size=G))"""


class Randint:
    """stand-in for numpy.random.randint: forces the outcomes chosen by TLC, or observes real ones"""

    def __init__(self, forced=None):
        self.forced = list(forced) if forced is not None else None
        self.seen = []
        self._real = np.random.randint

    def __call__(self, low, high=None, size=None, dtype=int):
        if self.forced is None:
            out = self._real(low, high, size=size, dtype=dtype)
            self.seen.append({'low': int(low), 'high': None if high is None else int(high),
                              'size': size if size is None else int(np.prod(size)),
                              'out': [int(x) for x in np.atleast_1d(out)]})
            return out
        if not self.forced:
            raise DrawMismatch('more random draws requested than the specification describes')
        d = self.forced.pop(0)
        if low != 0 or high != len(d) or size is None or int(np.prod(size)) != len(d):
            raise DrawMismatch(f'randint({low}, {high}, size={size}) but there are {len(d)} groups to draw')
        return np.array(d, dtype=int)

    def __enter__(self):
        np.random.randint = self
        return self

    def __exit__(self, *a):
        np.random.randint = self._real


NULL = {'rows': [], 'pats': [], 'ridx': [], 'pidx': [], 'pinv': [], 'meas': 0, 'pcat': 0, 'pdem': 0, 'vec': []}


class ProjectionError(Exception):
    """the real object is not even well-formed (inconsistent lengths, undecodable labels)"""

    def __init__(self, field, msg):
        super().__init__(msg)
        self.field = field


def project(ob, *, check=True, flavour=()):
    """real RDMs -> abstract record; with ``check`` also verifies what the specification keeps as
    ghost structure: descriptor columns attached (grp = Grp(subj), cat = Cat(cond)), vector and
    square forms agree, n_rdm / n_cond consistent."""
    d = ob.dissimilarities
    if d.ndim != 2:
        raise ProjectionError('vec', f'dissimilarities has ndim {d.ndim}')
    try:
        rows = [dec('subj', v) for v in ob.rdm_descriptors['subj']]
        pats = [dec('cond', v) for v in ob.pattern_descriptors['cond']]
        ridx = [dec('index', v) for v in ob.rdm_descriptors['index']]
        pidx = [dec('index', v) for v in ob.pattern_descriptors['index']]
    except (KeyError, TypeError, ValueError) as e:
        raise ProjectionError('desc', f'cannot decode descriptors: {e!r}')
    pinv = [int(v) + 1 for v in ob.descriptors['p_inv']] if 'p_inv' in ob.descriptors else []
    off = _offset(flavour)
    vec = [[NAN if np.isnan(x) else int(round(x)) + off for x in row] for row in d]
    if check:
        if any((not np.isnan(x)) and abs(x - round(x)) > 1e-9 for row in d for x in row):
            raise ProjectionError('vec', 'a stored value is not a source token')
        if ob.n_rdm != len(rows) or d.shape[0] != len(rows):
            raise ProjectionError('rows', f'n_rdm={ob.n_rdm}, {d.shape[0]} vectors, {len(rows)} subj labels')
        if ob.n_cond != len(pats) or d.shape[1] != len(pats) * (len(pats) - 1) // 2:
            raise ProjectionError('pats', f'n_cond={ob.n_cond}, vector length {d.shape[1]}, {len(pats)} cond labels')
        if len(ridx) != len(rows) or len(pidx) != len(pats):
            raise ProjectionError('index', 'index descriptor has the wrong length')
        for kind, dct, ids in (('rdm', ob.rdm_descriptors, rows), ('pattern', ob.pattern_descriptors, pats)):
            if 'xy' in dct:
                try:
                    got = [[int(v) for v in np.ravel(x)] for x in dct['xy']]
                except Exception as e:
                    raise ProjectionError('desc', f'{kind} descriptor xy unreadable: {e!r}')
                if got != [[i, i + 100] for i in ids]:
                    raise ProjectionError('desc', f'{kind} descriptor xy {got} not attached to items {ids}')
        if 'grp' in ob.rdm_descriptors:
            g = [dec('grp', v) for v in ob.rdm_descriptors['grp']]
            if g != [grp(r) for r in rows]:
                raise ProjectionError('desc', f'grp column {g} not attached to subj column {rows}')
        if 'cat' in ob.pattern_descriptors:
            c = [dec('cat', v) for v in ob.pattern_descriptors['cat']]
            if c != [cat(p) for p in pats]:
                raise ProjectionError('desc', f'cat column {c} not attached to cond column {pats}')
        m = ob.get_matrices()
        n = len(pats)
        if m.shape != (len(rows), n, n):
            raise ProjectionError('matrix', f'get_matrices shape {m.shape}')
        iu = np.triu_indices(n, 1)
        for r in range(len(rows)):
            if not np.array_equal(m[r][iu], d[r], equal_nan=True) or \
               not np.array_equal(m[r].T[iu], d[r], equal_nan=True) or np.any(np.diag(m[r]) != 0):
                raise ProjectionError('matrix', 'square form is not the symmetric zero-diagonal matrix of the vector form')
    if ob.dissimilarity_measure not in ('tok', None):
        raise ProjectionError('meas', f'measure {ob.dissimilarity_measure!r}')
    return {'rows': rows, 'pats': pats, 'ridx': ridx, 'pidx': pidx, 'pinv': pinv,
            'meas': 1 if ob.dissimilarity_measure == 'tok' else 0,
            'pcat': 1 if 'cat' in ob.pattern_descriptors else 0,
            'pdem': 1 if 'p_inv' in ob.rdm_descriptors else 0, 'vec': vec}


FIELDS = ('rows', 'pats', 'ridx', 'pidx', 'pinv', 'meas', 'pcat', 'pdem', 'vec')


def norm_abs(a):
    """abstract record from TLC JSON -> comparable dict (drops the ghost field 'have')"""
    return {f: ([list(x) if isinstance(x, (list, tuple)) else x for x in a[f]]
                if isinstance(a[f], (list, tuple)) else a[f]) for f in FIELDS}


def diff(real, spec):
    """first differing field between a projected real object and the specification's object"""
    for f in FIELDS:
        if real[f] != spec[f]:
            return f
    return None


def free_slot(heap, maxobj):
    for o in range(1, maxobj + 1):
        if o not in heap:
            return o
    return None


def apply_event(heap, e, flavour, maxobj, scratch=None, variant=0):
    """perform event e on the real heap (dict slot -> RDMs).  Returns a check callback or None."""
    import rsatoolbox
    from rsatoolbox.rdm import rdms as R
    from rsatoolbox.rdm.combine import from_partials
    op, o, o2, by, vals = e['op'], e['o'], e['o2'], e['by'], list(e['vals'])
    ob = heap[o]
    new = None

    def values(name):
        v = [enc(name, x, flavour) for x in vals]
        if len(v) == 1 and variant % 2 == 0:
            return v[0]                  # a scalar value is documented as well
        if variant % 3 == 2:
            return np.array(v)
        return v
    if op == 'getitem':
        idx = [v - 1 for v in vals]
        if variant % 5 == 4:
            idx = [i - ob.n_rdm for i in idx]        # negative positions count from the end
        if len(idx) == 1 and variant % 3 == 0:
            new = ob[idx[0]]
        elif len(idx) == 1 and variant % 3 == 1:
            new = list(ob)[idx[0]]       # iteration
        else:
            new = ob[idx if variant % 2 == 0 else np.array(idx)]
    elif op == 'subset':
        new = ob.subset(None if (by == 'index' and variant % 2) else by, values(by))
    elif op == 'subsample':
        new = ob.subsample(None if (by == 'index' and variant % 2) else by, values(by))
    elif op == 'subset_pattern':
        v = values(by)
        new = ob.subset_pattern(None if (by == 'index' and variant % 2) else by, v)
    elif op == 'subsample_pattern':
        new = ob.subsample_pattern(None if (by == 'index' and variant % 2) else by, values(by))
    elif op in ('boot_rdm', 'boot_pattern', 'boot_both'):
        from rsatoolbox.inference import bootstrap as B
        forced = None
        if not e.get('observe'):
            forced = [[v - 1 for v in vals]] + ([[v - 1 for v in e['vals2']]] if op == 'boot_both' else [])
        with Randint(forced) as rnd:
            if op == 'boot_rdm':
                new, ridx_ret = B.bootstrap_sample_rdm(ob, by)
                pidx_ret = None
            elif op == 'boot_pattern':
                new, pidx_ret = B.bootstrap_sample_pattern(ob, by)
                ridx_ret = None
            else:
                new, ridx_ret, pidx_ret = B.bootstrap_sample(ob, by, e['by2'])
        if forced is not None and rnd.forced:
            raise DrawMismatch('fewer random draws requested than the specification describes')
        if e.get('observe'):
            draws = [d['out'] for d in rnd.seen]
            if len(draws) != (2 if op == 'boot_both' else 1):
                raise DrawMismatch(f'{len(draws)} calls of randint')
            e['vals'] = [x + 1 for x in draws[0]]
            if op == 'boot_both':
                e['vals2'] = [x + 1 for x in draws[1]]
            for d in rnd.seen:
                if d['low'] != 0 or d['high'] != d['size']:
                    raise DrawMismatch(f"randint({d['low']}, {d['high']}, size={d['size']})")
            del e['observe']
        pby = by if op == 'boot_pattern' else e['by2']
        ret = [[], []]
        for k, (arr, name) in enumerate(((ridx_ret, by), (pidx_ret, pby))):
            if arr is not None:
                if not isinstance(arr, np.ndarray):
                    raise ProjectionError('ret', f'returned indices are {type(arr).__name__}, not an index array')
                ret[k] = [dec(name, v) for v in arr]
        heap[free_slot(heap, maxobj)] = new
        if pidx_ret is not None:
            # clause e: resampling a prediction with the returned indices gives the sample's condition order
            pred = ob.subsample_pattern(pby, pidx_ret)
            if [dec('cond', v) for v in pred.pattern_descriptors['cond']] != \
                    [dec('cond', v) for v in new.pattern_descriptors['cond']]:
                raise ProjectionError('pred-order', 'prediction resampled with the returned indices has another condition order')
        return ('ret', ret, o)
    elif op == 'reorder':
        p = [v - 1 for v in vals]
        ob.reorder(p if variant % 2 == 0 else np.array(p))
    elif op == 'sort_alpha':
        if o2 == 1:
            ob.sort_by(reindex=False, **{by: 'alpha'})
        else:
            ob.sort_by(**{by: 'alpha'})
    elif op == 'sort_list':
        order = [enc(by, x, flavour) for x in vals]
        ob.sort_by(**{by: order if variant % 2 == 0 else np.array(order)})
    elif op == 'append':
        ob.append(heap[o2])
    elif op == 'concat':
        if variant % 2 == 0:
            new = R.concat(ob, heap[o2])
        else:
            new = R.concat([ob, heap[o2]])
    elif op == 'from_partials':
        new = from_partials([ob, heap[o2]], descriptor='cond')
    elif op == 'permute':
        new = R.permute_rdms(ob, np.array([v - 1 for v in vals]))
    elif op == 'inverse_permute':
        new = R.inverse_permute_rdms(ob)
    elif op == 'copy':
        new = ob.copy()
    elif op == 'dict':
        new = R.rdms_from_dict(ob.to_dict())
    elif op == 'matrices':
        new = rsatoolbox.rdm.RDMs(ob.get_matrices(), dissimilarity_measure=ob.dissimilarity_measure,
                                  descriptors=dict(ob.descriptors),
                                  rdm_descriptors={k: list(v) for k, v in ob.rdm_descriptors.items()},
                                  pattern_descriptors={k: list(v) for k, v in ob.pattern_descriptors.items()})
    elif op == 'saveload':
        ft = 'hdf5' if variant % 2 == 0 else 'pkl'
        if variant % 4 < 2:
            fd, path = tempfile.mkstemp(suffix='.h5' if ft == 'hdf5' else '.pkl', dir=scratch)
            os.close(fd)
            ob.save(path, file_type=ft, overwrite=True)
            new = R.load_rdm(path, file_type=ft)
            os.unlink(path)
        else:
            buf = io.BytesIO()
            ob.save(buf, file_type=ft)
            buf.seek(0)
            new = R.load_rdm(buf, file_type=ft)
    elif op == 'to_df':
        if variant % 2 == 1 and ob.dissimilarities.ndim == 2:
            # memory-layout flavour: an object holding the SAME values in Fortran order (what column selection or a
            # transposed source array produce) must export the same table; the live object itself is left alone
            twin = ob.copy()
            twin.dissimilarities = np.asfortranarray(twin.dissimilarities)
            return ('df', twin.to_df(), o)
        return ('df', ob.to_df(), o)
    elif op == 'drop':
        del heap[o]
    else:
        raise ValueError(op)
    if new is not None:
        heap[free_slot(heap, maxobj)] = new
    return None


def check_df(df, ob_abs, flavour):
    """the long-form DataFrame lists every (rdm, pair) with its value and labels"""
    nr, n = len(ob_abs['rows']), len(ob_abs['pats'])
    if len(df) != nr * (n * (n - 1) // 2):
        return f'{len(df)} rows in the DataFrame'
    k = 0
    for r in range(nr):
        for p in range(n):
            for q in range(p + 1, n):
                row = df.iloc[k]
                v = NAN if np.isnan(row['dissimilarity']) else int(round(row['dissimilarity'])) + _offset(flavour)
                exp = ob_abs['vec'][r][k - r * (n * (n - 1) // 2)]
                if v != exp or dec('subj', row['subj']) != ob_abs['rows'][r] \
                        or dec('cond', row['cond_1']) != ob_abs['pats'][p] \
                        or dec('cond', row['cond_2']) != ob_abs['pats'][q]:
                    return f'row {k}: {dict(row)}'
                k += 1
    return None


def project_heap(heap, maxobj, flavour=()):
    return [project(heap[o], flavour=flavour) if o in heap else dict(NULL) for o in range(1, maxobj + 1)]


def replay(hist, const, flavour, variant=0, scratch=None):
    """Step one TLC behaviour through real objects.  Returns None or (step, key-suffix, detail)."""
    maxobj = const['MaxObj']
    heap = {1: make_source(const['NR'], const['NC'], const['NanPairs'], flavour)}
    for k, st in enumerate(hist):
        e = st['ev']
        if e['op'] == 'to_df' and _xy(flavour):
            continue        # a long-form table cannot hold the 2-D array descriptor of this flavour
        try:
            extra = apply_event(heap, dict(e), flavour, maxobj, scratch=scratch, variant=variant + k)
        except DrawMismatch as ex:
            return k, f"{e['op']}/draw", str(ex)
        except ProjectionError as ex:
            return k, f"{e['op']}/{ex.field}", str(ex)
        except Exception as ex:  # the specification says the operation is admissible here
            return k, f"{e['op']}/raises/{type(ex).__name__}", f'{type(ex).__name__}: {ex}'
        post = st['post']
        target = e['o']
        for o in range(1, maxobj + 1):
            spec_ob = norm_abs(post[o - 1])
            live_spec = bool(spec_ob['pats'])
            if (o in heap) != live_spec:
                return k, f"{e['op']}/liveness", f'slot {o}'
            if not live_spec:
                continue
            is_result = (o == target and e['op'] in ('reorder', 'sort_alpha', 'sort_list', 'append')) or \
                        (o not in _prev_live(hist, k, maxobj))
            try:
                real = project(heap[o], flavour=flavour)
            except ProjectionError as pe:
                where = e['op'] if is_result else f"frame/{e['op']}"
                return k, f'{where}/{pe.field}', str(pe)
            f = diff(real, spec_ob)
            if f:
                where = e['op'] if is_result else f"frame/{e['op']}"
                return k, f'{where}/{f}', {'slot': o, 'real': real[f], 'spec': spec_ob[f]}
        if extra is not None and extra[0] == 'df':
            msg = check_df(extra[1], norm_abs(post[extra[2] - 1]), flavour)
            if msg:
                return k, 'to_df/rows', msg
        if extra is not None and extra[0] == 'ret':
            want = [list(x) for x in st['ret']]
            if extra[1] != want:
                return k, f"{e['op']}/returned-indices", {'real': extra[1], 'spec': want}
    return None


def _prev_live(hist, k, maxobj):
    if k == 0:
        return {1}
    return {o for o in range(1, maxobj + 1) if hist[k - 1]['post'][o - 1]['pats']}


# --------------------------------------------------------------------- I -> S: random histories
def random_trace(rng, const, flavour, length, ops, scratch=None):
    """random admissible history on real objects; returns the list of events with projected post
    heaps.  Admissibility mirrors Enabled() of the specification; the trace specification checks
    Enabled() itself, so a disagreement shows up as 'not enabled' (a machinery error, not a verdict)."""
    maxobj, maxrows, maxpats = const['MaxObj'], const['MaxRows'], const['MaxPats']
    heap = {1: make_source(const['NR'], const['NC'], const['NanPairs'], flavour)}
    events = []
    tries = 0
    while len(events) < length and tries < length * 30:
        tries += 1
        absheap = {o: project(heap[o], check=False, flavour=flavour) for o in heap}
        o = int(rng.choice(sorted(heap)))
        a = absheap[o]
        op = str(rng.choice(ops))
        nr, npat = len(a['rows']), len(a['pats'])
        if nr == 0 or npat == 0:
            # an empty object can only come from a faulty operation: it is in the recorded post-state of that step
            # (the trace specification rejects it there); do not build further events on it
            break
        free = free_slot(heap, maxobj) is not None
        e = {'op': op, 'o': o, 'o2': 0, 'by': '', 'vals': [], 'by2': '', 'vals2': []}

        def col(kind, by):
            if kind == 'r':
                return {'index': a['ridx'], 'subj': a['rows'], 'grp': [grp(r) for r in a['rows']]}[by]
            return {'index': a['pidx'], 'cond': a['pats'], 'cat': [cat(c) for c in a['pats']]}[by]
        if op in ('boot_rdm', 'boot_pattern', 'boot_both', 'getitem', 'subset', 'subsample', 'subset_pattern',
                  'subsample_pattern', 'copy', 'concat', 'from_partials', 'permute', 'inverse_permute', 'dict', 'matrices', 'saveload') and not free:
            continue
        if op == 'getitem':
            if npat < 2:
                continue
            e['vals'] = [int(x) + 1 for x in rng.integers(0, nr, size=int(rng.integers(1, 3)))]
        elif op in ('subset', 'subsample'):
            e['by'] = str(rng.choice(['index', 'subj', 'grp']))
            c = col('r', e['by'])
            k = int(rng.integers(1, 5)) if op == 'subsample' else int(rng.integers(1, 3))
            v = [int(x) for x in rng.choice(c, size=k, replace=(op == 'subsample'))] if (op == 'subsample' or len(set(c)) >= k) else [int(c[0])]
            if op == 'subset':
                v = list(dict.fromkeys(v))
            e['vals'] = v
            if op == 'subsample' and sum(c.count(x) for x in v) > maxrows:
                continue
        elif op in ('subset_pattern', 'subsample_pattern'):
            e['by'] = str(rng.choice(['index', 'cond', 'cat'] if a['pcat'] else ['index', 'cond']))
            c = col('p', e['by'])
            k = int(rng.integers(1, 4))
            v = [int(x) for x in rng.choice(c, size=k, replace=True)]
            if op == 'subset_pattern':
                v = list(dict.fromkeys(v))
            e['vals'] = v
            if op == 'subsample_pattern' and sum(c.count(x) for x in v) > maxpats:
                continue
        elif op in ('boot_rdm', 'boot_pattern', 'boot_both'):
            # the draw is made by the real numpy.random.randint (seeded from rng) and observed
            if op != 'boot_pattern':
                e['by'] = str(rng.choice(['index', 'subj', 'grp']))
                if max(col('r', e['by']).count(x) for x in set(col('r', e['by']))) * len(set(col('r', e['by']))) > maxrows:
                    continue
            pby = str(rng.choice(['index', 'cond', 'cat'] if a['pcat'] else ['index', 'cond']))
            if op != 'boot_rdm':
                if max(col('p', pby).count(x) for x in set(col('p', pby))) * len(set(col('p', pby))) > maxpats:
                    continue
                if op == 'boot_pattern':
                    e['by'] = pby
                else:
                    e['by2'] = pby
            e['observe'] = True
            np.random.seed(int(rng.integers(0, 2**31 - 1)))
        elif op in ('reorder', 'permute'):
            e['vals'] = [int(x) + 1 for x in rng.permutation(npat)]
        elif op == 'sort_alpha':
            e['by'] = str(rng.choice(['index', 'cond', 'cat'] if a['pcat'] else ['index', 'cond']))
            e['o2'] = int(rng.integers(0, 2))
        elif op == 'sort_list':
            e['by'] = str(rng.choice(['index', 'cond']))
            c = col('p', e['by'])
            if len(set(c)) != len(c):
                continue
            e['vals'] = [int(c[i]) for i in rng.permutation(npat)]
        elif op in ('append', 'concat', 'from_partials'):
            o2 = int(rng.choice(sorted(heap)))
            b = absheap[o2]
            e['o2'] = o2
            if nr + len(b['rows']) > maxrows:
                continue
            if op in ('append', 'concat') and b['meas'] != a['meas']:
                continue
            if op == 'append' and a['pdem'] == 1 and b['pdem'] == 0:
                continue
            if op == 'append' and (o2 == o or b['pats'] != a['pats']):
                continue
            nodup = len(set(a['pats'])) == npat and len(set(b['pats'])) == len(b['pats'])
            if op == 'concat' and not (b['pats'] == a['pats'] or (nodup and set(a['pats']) == set(b['pats']))):
                continue
            if op == 'from_partials' and not (nodup and len(set(a['pats']) | set(b['pats'])) <= maxpats):
                continue
        elif op == 'inverse_permute':
            if sorted(a['pinv']) != list(range(1, npat + 1)):
                continue
        elif op == 'to_df':
            if a['pdem'] or _xy(flavour):
                continue
        elif op == 'drop':
            if len(heap) < 2:
                continue
        try:
            extra = apply_event(heap, e, flavour, maxobj, scratch=scratch, variant=int(rng.integers(0, 12)))
        except (DrawMismatch, ProjectionError) as ex:
            e.pop('observe', None)
            fld = 'draw' if isinstance(ex, DrawMismatch) else ex.field
            events.append({'ev': e, 'post': None, 'error': f'projection/{fld}: {ex}'})
            break
        except Exception as ex:
            e.pop('observe', None)
            events.append({'ev': e, 'post': None, 'error': f'{type(ex).__name__}: {ex}'})
            break
        ret = extra[1] if (extra is not None and extra[0] == 'ret') else [[], []]
        if extra is not None and extra[0] == 'df':
            try:
                msg = check_df(extra[1], project(heap[extra[2]], flavour=flavour), flavour)
            except ProjectionError as pe:
                msg = str(pe)
            if msg:
                events.append({'ev': e, 'post': None, 'error': f'projection/rows: DataFrame export: {msg}'})
                break
        try:
            post = project_heap(heap, maxobj, flavour)
        except ProjectionError as pe:
            events.append({'ev': e, 'post': None, 'error': f'projection/{pe.field}: {pe}'})
            break
        events.append({'ev': e, 'post': post, 'ret': ret})
    return events
