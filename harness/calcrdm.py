"""Binding of specs/CalcRdm.tla to rsatoolbox.rdm.calc (properties C01 and C02).

This is the only file that knows what rsatoolbox objects look like for the dataset -> RDM pipeline.

* ``cfg(...)``                 configuration text for MC_CalcRdm / MC_Trace_CalcRdm
* ``check_vector(vec, ...)``   spec -> impl: build real Dataset objects for one TLC vector in a
                               *flavour*, call the public API, project (labels, values, descriptors)
                               and compare with the exact expected result
* ``kernel_*``                 trusted float kernels (array form: textbook formula on float data given
                               the grouping) - cross-checked against the TLA+ exact values first
* ``float_case(...)``          float tier: random real-valued data on a TLC-enumerated design
* ``coef_case(...)``           C02 clause d: coefficient extraction of the bilinear estimator
* ``record_trace(...)``        impl -> spec: run the library on a (bigger) integer-grid input and log
                               (inputs, options, returned labels, values as exact rationals)
"""
from __future__ import annotations

import math
import warnings
from fractions import Fraction

import numpy as np

warnings.filterwarnings('ignore')

from rsatoolbox.data import Dataset, TemporalDataset  # noqa: E402
from rsatoolbox.rdm import calc_rdm, calc_rdm_movie, calc_rdm_unbalanced  # noqa: E402
import rsatoolbox.rdm as _rdm  # noqa: E402
import rsatoolbox.rdm.calc as _calc  # noqa: E402

ATOL = 1e-9          # absolute tolerance per unit of scale (closed forms in float64)
COND = 'cond'        # name of the condition descriptor
FOLD = 'fold'
NAN = 'nan'


# --------------------------------------------------------------------------------------------
# configurations
# --------------------------------------------------------------------------------------------
def _set(xs):
    def one(x):
        if isinstance(x, bool):
            return 'TRUE' if x else 'FALSE'
        if isinstance(x, str):
            return f'"{x}"'
        return str(x)
    return '{' + ', '.join(one(x) for x in xs) + '}'


C01_INVS = ['Symmetric', 'ZeroIffEqualMeans', 'LabelOrderSorted', 'OneRowPerLabel',
            'EntryBelongsToLabels', 'RowsAreObservations', 'ListAligned', 'MovieIsStack',
            'UnbalancedMatchesBalanced']
C02_INVS = ['NoSelfPairs', 'AllFoldsUsed', 'EqualWeights', 'PairsSymmetric', 'CoefWithinFoldZero',
            'CvMatchesLeaveOneOut', 'CvSymmetric', 'DefaultFoldsRule', 'LabelOrderSorted', 'OneRowPerLabel']


def cfg(mode, *, nobs, nch, nlab, nobs2=0, vals='Vals012', datasrc='grid', dataids=(1,),
        methods=('euclidean',), rms=(False,), usedescs=(True,), precids=(0,), priorids=(1,),
        extids=(1,), nt=0, binids=(0,), nfold=0, foldsrcs=(), fprecids=(0,), unbals=(False,), permlevel=0,
        emitmod=1, emitcoef=False, emit=True, agree=False, trace=False, invs=None):
    """configuration text for MC_CalcRdm (or MC_Trace_CalcRdm with trace=True)"""
    lines = ['CONSTANTS', f'  Mode = "{mode}"', f'  NObs = {nobs}', f'  NObs2 = {nobs2}', f'  NCh = {nch}',
             f'  NLab = {nlab}', f'  Vals <- {vals}', f'  DataSrc = "{datasrc}"', '  DataCat <- DataCatA',
             f'  DataIds = {_set(dataids)}', f'  Methods = {_set(methods)}', f'  RMs = {_set(rms)}',
             f'  UseDescs = {_set(usedescs)}', f'  PrecCat <- PrecCat{max(1, min(nch, 3))}',
             f'  PrecIds = {_set(precids)}',
             '  PriorCat <- PriorCatA', f'  PriorIds = {_set(priorids)}', '  ExtCat <- ExtCatA',
             f'  ExtIds = {_set(extids)}', f'  NT = {nt}', '  TimeVals <- TimeValsA',
             f'  BinCat <- BinCat{3 if nt >= 3 else 2}', f'  BinIds = {_set(binids)}', f'  NFold = {nfold}',
             f'  FoldSrcs = {_set(foldsrcs)}', '  FoldPrecCat <- FoldPrecCatA',
             f'  FoldPrecIds = {_set(fprecids)}', f'  Unbals = {_set(unbals)}', f'  PermLevel = {permlevel}', f'  EmitMod = {emitmod}',
             f'  EmitCoef = {"TRUE" if emitcoef else "FALSE"}']
    if trace:
        lines += ['INIT TInit', 'NEXT TNext']
    else:
        lines += ['INIT Init', 'NEXT Next']
    if invs is None:
        invs = C02_INVS if mode == 'cv' else C01_INVS
    lines += [f'INVARIANT {i}' for i in invs]
    if agree:
        lines.append('INVARIANT StagesAgree')
    if emit and not trace:
        lines.append('INVARIANT Emit')
    if permlevel and not trace:
        lines.append('PROPERTY CvInvariant' if mode == 'cv' else 'PROPERTY PermInvariant')
    lines.append('CHECK_DEADLOCK FALSE')
    return '\n'.join(lines) + '\n'


# --------------------------------------------------------------------------------------------
# flavours (DESIGN 3.6): how one abstract vector is instantiated
# --------------------------------------------------------------------------------------------
# label alphabets: ORDER PRESERVING maps of the specification's integer labels 1..5 (TLC cannot
# compare strings), including negative / non-contiguous ints and strings whose alphabetical order
# differs from their numerical reading
LABEL_MAPS = {
    'int': [1, 2, 3, 4, 5],
    'intneg': [-7, 0, 3, 12, 40],
    'str': ['a', 'b', 'c', 'd', 'e'],
    'strmix': ['10', '9', 'B', 'a', 'b2'],
}
FOLD_MAPS = {'int': [0, 1, 2, 3, 4], 'int10': [10, 20, 30, 40, 50], 'str': ['f1', 'f2', 'f3', 'f4', 'f5']}
GRP_MAPS = {'int': [1, 2, 3], 'str': ['g1', 'g2', 'g3']}
# dtype -> scale that keeps the data inside the dtype while squares leave it (narrow ints)
DTYPES = {'float64': 1, 'float32': 1, 'int64': 1, 'int32': 1}
NARROW = {'int8': 40, 'uint8': 60, 'int16': 5000, 'int32': 20000}
BASE = dict(cont='list', lab='int', dtype='float64', order='C', extra=True, scale=1, flab='int',
            noise='array', api='calc_rdm', wrap=False, tdesc='time', window=False, twice=False)


def flavour(rng, *, narrow=False, nonneg=True):
    """a random flavour (deterministic given the generator)"""
    f = dict(cont=['list', 'array'][rng.integers(2)],
             lab=list(LABEL_MAPS)[rng.integers(4)],
             dtype=list(DTYPES)[rng.integers(4)],
             order='CF'[rng.integers(2)],
             extra=bool(rng.integers(2)),
             scale=1,
             flab=list(FOLD_MAPS)[rng.integers(3)],
             noise=['array', 'list'][rng.integers(2)],
             api=['calc_rdm', 'direct'][rng.integers(2)],
             wrap=bool(rng.integers(4) == 0),      # a single dataset passed as a one-element list
             tdesc=['time', 'tp'][int(rng.integers(3) == 0)],   # movie: time_descriptor= another descriptor
             window=bool(rng.integers(4) == 0),    # movie: subset_time(t_from, t_to) before the call
             twice=bool(rng.integers(3) == 0))     # a priming call (remove_mean=True where it exists) on the SAME dataset / noise
                                                   # objects first: the values depend on the data only, not on earlier calls
    if narrow:
        names = [n for n in NARROW if nonneg or n != 'uint8']
        f['dtype'] = names[rng.integers(len(names))]
        f['scale'] = NARROW[f['dtype']]
    return f


def _conv(vals, fl):
    return np.array(vals) if fl['cont'] == 'array' else list(vals)


def _lab(k, fl):
    return LABEL_MAPS[fl['lab']][k - 1]


def _grp_of(k):
    return (k + 1) // 2


def _grp(k, fl):
    return GRP_MAPS['str' if fl['lab'].startswith('str') else 'int'][_grp_of(k) - 1]


def _meas(x, fl):
    a = np.array(x, dtype=np.float64) * fl['scale']
    a = a.astype(fl['dtype'])
    return np.asfortranarray(a) if fl['order'] == 'F' else np.ascontiguousarray(a)


def make_dataset(lab, x, ext, fl, *, subj=3, fold=None):
    obs = {COND: _conv([_lab(k, fl) for k in lab], fl)}
    if fl['extra']:
        obs['grp'] = _conv([_grp(k, fl) for k in lab], fl)
        if ext is not None:
            obs['ext'] = _conv([int(e) for e in ext], fl)
    if fold is not None:
        obs[FOLD] = _conv([FOLD_MAPS[fl['flab']][k - 1] for k in fold], fl)
    m = _meas(x, fl)
    return Dataset(m, descriptors={'subj': subj, 'task': 't'}, obs_descriptors=obs,
                   channel_descriptors={'ch': _conv(list(range(m.shape[1])), fl)})


def make_temporal(lab, x3, ext, tv, fl, *, subj=3, fold=None):
    obs = {COND: np.array([_lab(k, fl) for k in lab])}     # time_as_observations needs arrays
    if fl['extra']:
        obs['grp'] = np.array([_grp(k, fl) for k in lab])
        obs['ext'] = np.array([int(e) for e in ext])
    if fold is not None:
        obs[FOLD] = np.array([FOLD_MAPS[fl['flab']][k - 1] for k in fold])
    a = np.array(x3, dtype=np.float64).transpose(1, 2, 0) * fl['scale']     # [t][o][c] -> o, c, t
    a = a.astype(fl['dtype'])
    a = np.asfortranarray(a) if fl['order'] == 'F' else np.ascontiguousarray(a)
    tds = {'time': np.array(tv, dtype=float)}
    if fl.get('tdesc', 'time') != 'time':
        # the descriptor the movie is asked to run over is NOT 'time' (which every TemporalDataset has)
        tds = {'time': np.arange(len(tv), dtype=float) * 100.0 + 7.0, fl['tdesc']: np.array(tv, dtype=float)}
    return TemporalDataset(a, descriptors={'subj': subj, 'task': 't'}, obs_descriptors=obs,
                           channel_descriptors={'ch': np.arange(a.shape[1])},
                           time_descriptors=tds)


def _prior(p):
    return p[0] / p[1], p[2] / p[3]


def _noise(prec):
    return None if not prec else np.array(prec, dtype=float)


# --------------------------------------------------------------------------------------------
# calling the public API
# --------------------------------------------------------------------------------------------
CV_METHODS = ('crossnobis', 'poisson_cv')


def _folds_noise(inp, fold):
    """per-fold diagonal precisions as the library wants them: ordered like the sorted fold labels"""
    used = sorted(set(fold))
    return [np.diag(np.array(inp['fprec'][f - 1], dtype=float)) for f in used]


def window_of(inp):
    """flavour 'window': drop the earliest time point with subset_time(t_from, t_to) -> (t_from, t_to, kept indices)"""
    tv = inp['tv']
    order = sorted(range(len(tv)), key=lambda t: tv[t])
    keep = order[1:]
    return float(tv[keep[0]]), float(max(tv)), sorted(keep)


def call_impl(inp, fl):
    """build the real objects for the abstract input ``inp`` and call the library"""
    mode, method = inp['mode'], inp['method']
    lam, w = _prior(inp['prior'])
    desc = COND if inp['useDesc'] else None
    unbal = bool(inp.get('unbal'))
    src = inp.get('foldsrc', 'none')
    cvd = FOLD if src == 'explicit' else None
    if mode == 'single':
        ds = make_dataset(inp['lab'], inp['x'], inp['ext'], fl, fold=inp['fold'] if cvd else None)
        noise = _noise(inp['prec'])
        if unbal:
            return calc_rdm_unbalanced(ds, method=method, descriptor=desc, noise=noise, cv_descriptor=cvd,
                                       prior_lambda=lam, prior_weight=w)
        arg = [ds] if fl.get('wrap') else ds
        if fl.get('twice'):
            calc_rdm(arg, method=method, descriptor=desc, noise=noise, cv_descriptor=cvd, prior_lambda=lam,
                     prior_weight=w, remove_mean=True)
        return calc_rdm(arg, method=method, descriptor=desc, noise=noise,
                        cv_descriptor=cvd, prior_lambda=lam, prior_weight=w, remove_mean=inp['rm'])
    if mode == 'list':
        d1 = make_dataset(inp['lab'], inp['x'], None, fl, subj=3, fold=inp['fold'] if cvd else None)
        d2 = make_dataset(inp['lab2'], inp['x2'], None, fl, subj=5, fold=inp['fold2'] if cvd else None)
        n1, n2 = _noise(inp['prec']), _noise(inp['prec2'])
        if inp['prec'] == inp['prec2'] and fl['noise'] == 'array':
            noise = n1
        else:
            noise = [n1, n2]
        dsl = [d1, d2] if fl['cont'] == 'list' else (d1, d2)
        if fl.get('twice') and not unbal:
            calc_rdm(dsl, method=method, descriptor=desc, noise=noise, cv_descriptor=cvd,
                     prior_lambda=lam, prior_weight=w, remove_mean=True)
        if unbal:
            return calc_rdm_unbalanced(dsl, method=method, descriptor=desc, noise=noise, cv_descriptor=cvd,
                                       prior_lambda=lam, prior_weight=w)
        return calc_rdm(dsl, method=method, descriptor=desc, noise=noise, cv_descriptor=cvd,
                        prior_lambda=lam, prior_weight=w, remove_mean=inp['rm'])
    if mode == 'movie':
        td = make_temporal(inp['lab'], inp['x3'], inp['ext'], inp['tv'], fl, fold=inp['fold'] if cvd else None)
        tdesc = fl.get('tdesc', 'time')
        bins = None
        if inp['bins']:
            # each bin as an ndarray: bin_time formats the bins with np.array2string, plain lists are
            # outside its contract (AttributeError) and not something the property quantifies over
            bins = [np.array([float(inp['tv'][t - 1]) for t in b]) for b in inp['bins']]
        elif fl.get('window'):
            t_from, t_to, _ = window_of(inp)
            td = td.subset_time(tdesc, t_from, t_to)
        if inp.get('fprec'):
            noise = _folds_noise(inp, _fold_of(inp))
            if fl['noise'] == 'array':
                noise = np.array(noise)
        else:
            noise = _noise(inp['prec'])
        return calc_rdm_movie(td, method=method, descriptor=desc, noise=noise, cv_descriptor=cvd,
                              prior_lambda=lam, prior_weight=w, time_descriptor=tdesc, bins=bins, unbalanced=unbal)
    if mode == 'cv':
        explicit = inp['foldsrc'] == 'explicit'
        ds = make_dataset(inp['lab'], inp['x'], None, fl, fold=inp['fold'] if explicit else None)
        if inp['fprec']:
            noise = _folds_noise(inp, inp['fold'])
            if fl['noise'] == 'array':
                noise = np.array(noise)
        else:
            noise = _noise(inp['prec'])
        cvd = FOLD if explicit else None
        if fl.get('twice'):
            calc_rdm(ds, method=method, descriptor=COND, noise=noise, cv_descriptor=cvd,
                     prior_lambda=lam, prior_weight=w, remove_mean=True)
        if method == 'crossnobis' and fl['api'] == 'direct':
            return _rdm.calc_rdm_crossnobis(ds, COND, noise=noise, cv_descriptor=cvd, remove_mean=inp['rm'])
        return calc_rdm(ds, method=method, descriptor=COND, noise=noise, cv_descriptor=cvd,
                        prior_lambda=lam, prior_weight=w, remove_mean=inp['rm'])
    raise ValueError(mode)


def project(rdms):
    """real RDMs object -> (labels per row, matrix of vectors, pattern descriptors, rdm descriptors)"""
    pd = {k: list(v) for k, v in rdms.pattern_descriptors.items()}
    rd = {k: list(v) for k, v in rdms.rdm_descriptors.items()}
    for k, v in rdms.descriptors.items():     # object-level descriptors hold for every RDM
        if k not in rd and k not in ('noise',):
            rd[k] = [v] * rdms.n_rdm
    return dict(n_cond=int(rdms.n_cond), n_rdm=int(rdms.n_rdm), vec=np.array(rdms.dissimilarities, dtype=float),
                pd=pd, rd=rd, measure=rdms.dissimilarity_measure)


# --------------------------------------------------------------------------------------------
# trusted kernels: scalar last steps on the exact statistics of the specification
# --------------------------------------------------------------------------------------------
def _frac(nd):
    return Fraction(int(nd[0]), int(nd[1]))


def _pois_pair(ra, rb):
    la = np.array([n / d for n, d in ra], dtype=float)
    lb = np.array([n / d for n, d in rb], dtype=float)
    return float(np.sum((la - lb) * (np.log(la) - np.log(lb))) / len(la))


def _ub_matrix(ub, prior, n, scale=1):
    """unbalanced correlation / poisson RDM from the pairs, factors, weights and statistics the specification
    fixed per slot (calc_rdm_unbalanced: self(k) + self(l) - 2 cross(k,l)); returns (n x n values, n x n undefined)"""
    kind, dd = ub['kind'], ub['dd']
    lam, w = prior

    def sim(st):
        if kind == 'corr':
            if st['aa'] == 0 or st['bb'] == 0:
                return None
            return st['ab'] / math.sqrt(st['aa'] * st['bb']) * st['n'] / 2.0
        if kind == 'pois':
            tot = 0.0
            for xa, xb in st:
                ra, rb = (xa / dd + lam * w) / (1 + w), (xb / dd + lam * w) / (1 + w)
                tot += (rb - ra) * (math.log(ra) - math.log(rb))
            return tot / 2.0
        return float(st) * scale * scale / (dd * dd)

    def slot(sl):
        if not sl['pairs']:
            return float('nan'), False
        acc, bad = 0.0, False
        for p in sl['pairs']:
            v = sim(p['st'])
            if v is None:
                bad = True
                continue
            acc += v * p['f2'] / 2.0
        return acc / (sl['wsum'][0] / sl['wsum'][1]), bad
    rows = [r - 1 for r in ub['rows']]
    nc = len(rows)
    selfv = [slot(sl) for sl in ub['self']]
    M = np.full((n, n), np.nan)
    Un = np.zeros((n, n), dtype=bool)
    k = 0
    for a in range(nc):
        for b in range(a + 1, nc):
            cv, cb = slot(ub['cross'][k])
            k += 1
            v = selfv[a][0] + selfv[b][0] - 2 * cv
            M[rows[a], rows[b]] = M[rows[b], rows[a]] = v
            Un[rows[a], rows[b]] = Un[rows[b], rows[a]] = cb or selfv[a][1] or selfv[b][1]
    return M, Un


def expected_values(inp, out, scale=1):
    """exact expectation of the specification -> float matrix (n_rdm x n_pairs), nan where the
    specification says 'absent', plus a mask of entries the definition leaves undefined"""
    method = inp['method']
    n = len(out['lab'])
    npairs = n * (n - 1) // 2
    pairs = [(p, q) for p in range(n) for q in range(p + 1, n)]
    vals = np.full((len(out['rdms']), npairs), np.nan)
    undef = np.zeros_like(vals, dtype=bool)
    for r, rd in enumerate(out['rdms']):
        if rd.get('ub'):
            M, Un = _ub_matrix(rd['ub'], _prior(inp['prior']), n, scale)
            for k, (p, q) in enumerate(pairs):
                vals[r, k], undef[r, k] = M[p, q], Un[p, q]
            continue
        fpairs = rd.get('pairs') or out.get('pairs') or []
        for k, (p, q) in enumerate(pairs):
            if method in ('euclidean', 'mahalanobis', 'crossnobis'):
                e = rd['vec'][k]
                if e[1] != 0:
                    vals[r, k] = float(_frac(e) * scale * scale)
            elif method == 'correlation':
                e = rd['vec'][k]
                if len(e) == 3:
                    if e[2] == 0:
                        undef[r, k] = True
                    else:
                        vals[r, k] = 1.0 - e[0] * math.sqrt(e[1] / e[2])
            elif method == 'poisson':
                ra, rb = rd['rates'][p], rd['rates'][q]
                if ra and rb:
                    vals[r, k] = _pois_pair(ra, rb)
            elif method == 'poisson_cv':
                rates = rd['rates']            # [fold][condition][channel]
                if not rates[0][p] or not rates[0][q]:
                    continue                   # a label this dataset does not have
                tot = 0.0
                for m, nn in fpairs:
                    la = np.array([a / b for a, b in rates[m - 1][p]])
                    lb = np.array([a / b for a, b in rates[m - 1][q]])
                    ta = np.array([a / b for a, b in rates[nn - 1][p]])
                    tb = np.array([a / b for a, b in rates[nn - 1][q]])
                    tot += float(np.sum((la - lb) * (np.log(ta) - np.log(tb))) / len(la))
                vals[r, k] = tot / len(fpairs)
    return vals, undef


# --------------------------------------------------------------------------------------------
# trusted kernels, array form: the textbook formula on float data given the grouping
# --------------------------------------------------------------------------------------------
def _group_means(lab, X, use_desc):
    lab = list(lab)
    X = np.asarray(X, dtype=float)
    if not use_desc:
        return list(range(len(lab))), X.copy()
    keys = sorted(set(lab))
    return keys, np.array([X[[i for i, l in enumerate(lab) if l == k]].mean(axis=0) for k in keys])


def kernel_array(method, lab, X, *, use_desc=True, rm=False, prec=None, prior=(1.0, 0.1)):
    """{(key_a, key_b): value} for all pairs of groups; keys are labels (or row indices)"""
    keys, M = _group_means(lab, X, use_desc)
    P = M.shape[1]
    res = {}
    if method == 'correlation' or (rm and method in ('euclidean', 'mahalanobis')):
        M = M - M.mean(axis=1, keepdims=True)
    if method == 'poisson':
        M = (M + prior[0] * prior[1]) / (1 + prior[1])
    for i in range(len(keys)):
        for j in range(i + 1, len(keys)):
            a, b = M[i], M[j]
            if method == 'euclidean' or (method == 'mahalanobis' and prec is None):
                v = float(np.sum((a - b) ** 2) / P)
            elif method == 'mahalanobis':
                v = float((a - b) @ np.asarray(prec, dtype=float) @ (a - b) / P)
            elif method == 'correlation':
                den = math.sqrt(float(a @ a) * float(b @ b))
                v = float('nan') if den == 0 else 1.0 - float(a @ b) / den
            elif method == 'poisson':
                v = float(np.sum((a - b) * (np.log(a) - np.log(b))) / P)
            else:
                raise ValueError(method)
            res[(keys[i], keys[j])] = v
    return res


def kernel_cv(method, lab, fold, X, *, rm=False, prec=None, fprec=None, prior=(1.0, 0.1)):
    """crossnobis / poisson_cv by the definition: mean over ordered pairs of distinct folds of the
    product of the fold-wise condition-mean contrasts; fprec = {fold: precision matrix}"""
    X = np.asarray(X, dtype=float)
    P = X.shape[1]
    conds = sorted(set(lab))
    folds = sorted(set(fold))
    mean = {}
    for f in folds:
        for c in conds:
            rows = [i for i in range(len(lab)) if lab[i] == c and fold[i] == f]
            m = X[rows].mean(axis=0)
            if rm and method == 'crossnobis':
                m = m - m.mean()
            if method == 'poisson_cv':
                m = (m + prior[0] * prior[1]) / (1 + prior[1])
            mean[(f, c)] = m
    res = {}
    for i, a in enumerate(conds):
        for b in conds[i + 1:]:
            tot, cnt = 0.0, 0
            for m in folds:
                for n in folds:
                    if m == n:
                        continue
                    if method == 'crossnobis':
                        if fprec is not None:
                            W = np.linalg.inv((np.linalg.inv(fprec[m]) + np.linalg.inv(fprec[n])) / 2)
                        elif prec is not None:
                            W = np.asarray(prec, dtype=float)
                        else:
                            W = np.eye(P)
                        tot += float((mean[(m, a)] - mean[(m, b)]) @ W @ (mean[(n, a)] - mean[(n, b)]) / P)
                    else:
                        tot += float(np.sum((mean[(m, a)] - mean[(m, b)])
                                            * (np.log(mean[(n, a)]) - np.log(mean[(n, b)]))) / P)
                    cnt += 1
            res[(a, b)] = tot / cnt
    return res


# --------------------------------------------------------------------------------------------
# spec -> impl comparison of one vector
# --------------------------------------------------------------------------------------------
def _norm(v):
    """descriptor value -> comparable python value (1.0 == 1, 'a' == np.str_('a'), 'a' != 1)"""
    if isinstance(v, (str, np.str_)):
        return str(v)
    if isinstance(v, (bool, np.bool_)):
        return bool(v)
    try:
        f = float(v)
    except (TypeError, ValueError):
        return repr(v)
    return int(f) if f == int(f) else f


def _square(v, n):
    m = np.zeros((n, n))
    m[np.triu_indices(n, 1)] = v
    return m + m.T


def _magnitude(inp, scale):
    """size of the largest term the estimator sums (cancellation error is relative to it, not to the result)"""
    if inp['method'] not in ('euclidean', 'mahalanobis', 'crossnobis'):
        return 1.0
    xs = [np.abs(np.array(inp[k], dtype=float)).max() for k in ('x', 'x2', 'x3') if k in inp]
    pm = [abs(v) for k in ('prec', 'prec2', 'fprec') for row in (inp.get(k) or []) for v in row]
    return float((scale * max(xs + [1.0])) ** 2 * max(pm + [1.0]))


def _tol(fl, exp_abs_max, mag=1.0):
    base = 2e-6 if fl['dtype'] == 'float32' else ATOL
    return base * max(1.0, exp_abs_max, mag)


def _default_folds(lab):
    seen = {}
    f = []
    for l in lab:
        seen[l] = seen.get(l, 0) + 1
        f.append(seen[l])
    return f


def _fold_of(inp, which=1):
    """the fold descriptor of dataset 1 / 2 as the balanced estimators see it"""
    lab = inp['lab'] if which == 1 else inp['lab2']
    if inp.get('foldsrc', 'none') == 'explicit':
        return inp['fold'] if which == 1 else inp['fold2']
    return _default_folds(lab)


def _sub_inputs(inp):
    """(labels, float data matrix, precision) of every partial RDM, as the definition sees them"""
    mode = inp['mode']
    if mode == 'single' or mode == 'cv':
        return [(inp['lab'], np.array(inp['x'], dtype=float), inp['prec'])]
    if mode == 'list':
        return [(inp['lab'], np.array(inp['x'], dtype=float), inp['prec']),
                (inp['lab2'], np.array(inp['x2'], dtype=float), inp['prec2'])]
    x3 = np.array(inp['x3'], dtype=float)           # [t][o][c]
    bins = inp['bins'] or [[t + 1] for t in range(x3.shape[0])]
    return [(inp['lab'], x3[[t - 1 for t in b]].mean(axis=0), inp['prec']) for b in bins]


def kernel_unbal(method, lab, X, *, fold=None, prec=None, prior=(1.0, 0.1), use_desc=True):
    """calc_rdm_unbalanced by its definition (complete data, weighting 'number'):
    rdm(k,l) = self(k) + self(l) - 2 cross(k,l); a slot is the weighted mean of the pair kernels over its
    admissible observation pairs (an observation with itself counts half and only without cross-validation;
    with cross-validation pairs sharing a fold are excluded; without a fold descriptor a cross-validated method
    treats every observation as its own fold); NaN when a slot is empty"""
    X = np.asarray(X, dtype=float)
    n, P = X.shape
    lab = list(lab) if use_desc else list(range(n))
    keys = list(dict.fromkeys(lab))
    cv = fold is not None or method in CV_METHODS
    fo = list(fold) if fold is not None else list(range(n))
    N = None if prec is None else np.asarray(prec, dtype=float)
    R = (X + prior[0] * prior[1]) / (1 + prior[1])

    def sim(a, b):
        if method in ('euclidean',) or (method in ('mahalanobis', 'crossnobis') and N is None):
            return float(X[a] @ X[b])
        if method in ('mahalanobis', 'crossnobis'):
            return float(X[a] @ N @ X[b])
        if method == 'correlation':
            xa, xb = X[a] - X[a].mean(), X[b] - X[b].mean()
            den = math.sqrt(float(xa @ xa) * float(xb @ xb))
            return float('nan') if den == 0 else float(xa @ xb) / den * P / 2.0
        return float(np.sum((R[b] - R[a]) * (np.log(R[a]) - np.log(R[b]))) / 2.0)      # poisson kernels

    def slot(pairs):
        num = den = 0.0
        for a, b in pairs:
            if cv and (a == b or fo[a] == fo[b]):
                continue
            f = 0.5 if a == b else 1.0
            num += f * sim(a, b)
            den += f * P
        return float('nan') if den == 0 else num / den
    mem = {k: [o for o in range(n) if lab[o] == k] for k in keys}
    selfv = {k: slot([(a, b) for a in mem[k] for b in mem[k] if a <= b]) for k in keys}
    res = {}
    for i, k in enumerate(keys):
        for l in keys[i + 1:]:
            res[(k, l)] = selfv[k] + selfv[l] - 2 * slot([(a, b) for a in mem[k] for b in mem[l]])
    return res


def _keyed(kv, a, b):
    return kv.get((a, b), kv.get((b, a), np.nan))


def kernel_expected(inp, out, *, rm=None, scale=1):
    """the array-form kernels evaluated on the vector's data, laid out like out (n_rdm x n_pairs)"""
    method = inp['method']
    n = len(out['lab'])
    pairs = [(p, q) for p in range(n) for q in range(p + 1, n)]
    rm = inp['rm'] if rm is None else rm
    prior = _prior(inp['prior'])
    if inp['mode'] == 'cv':
        fp = None
        if inp['fprec']:
            fp = {f: np.diag(np.array(inp['fprec'][f - 1], dtype=float)) for f in set(inp['fold'])}
        from_def = kernel_cv(method, inp['lab'], _fold_of(inp), np.array(inp['x'], dtype=float) * scale, rm=rm,
                             prec=_noise(inp['prec']), fprec=fp, prior=prior)
        return np.array([[from_def[(out['lab'][p], out['lab'][q])] for p, q in pairs]])
    unbal = bool(inp.get('unbal'))
    src = inp.get('foldsrc', 'none')
    res = []
    for r, (lab, X, prec) in enumerate(_sub_inputs(inp)):
        which = 2 if (inp['mode'] == 'list' and r == 1) else 1
        if unbal:
            kv = kernel_unbal(method, lab, X * scale, fold=_fold_of(inp, which) if src == 'explicit' else None,
                              prec=_noise(prec), prior=prior, use_desc=inp['useDesc'])
        elif method in CV_METHODS:
            fold = _fold_of(inp, which)
            fp = None
            if inp.get('fprec'):
                fp = {f: np.diag(np.array(inp['fprec'][f - 1], dtype=float)) for f in set(fold)}
            kv = kernel_cv(method, lab, fold, X * scale, rm=False, prec=_noise(prec), fprec=fp, prior=prior) \
                if len(set(lab)) >= 1 else {}
        else:
            kv = kernel_array(method, lab, X * scale, use_desc=inp['useDesc'], rm=rm, prec=_noise(prec), prior=prior)
        row = []
        for p, q in pairs:
            if inp['useDesc']:
                row.append(_keyed(kv, out['lab'][p], out['lab'][q]))
            else:
                row.append(kv[(p, q)])
        res.append(row)
    if inp['mode'] == 'list' and not inp['useDesc'] and inp['lab2'] != inp['lab']:
        # RDM 2 is re-aligned on the (unique) labels of dataset 1
        pos = [inp['lab2'].index(l) for l in inp['lab']]
        kv = kernel_array(method, inp['lab2'], np.array(inp['x2'], dtype=float) * scale, use_desc=False, rm=rm,
                          prec=_noise(inp['prec2']), prior=prior)
        res[1] = [kv[(min(pos[p], pos[q]), max(pos[p], pos[q]))] for p, q in pairs]
    return np.array(res, dtype=float)


def kernel_crosscheck(vec):
    """the trusted kernels must reproduce the exact TLA+ values on the integer grid; returns an error
    text (machinery failure) or None"""
    inp, out = vec['in'], vec['out']
    exp, undef = expected_values(inp, out)
    ker = kernel_expected(inp, out)
    if exp.shape != ker.shape:
        return f'kernel shape {ker.shape} vs specification {exp.shape}'
    ok = undef | (np.isnan(exp) & np.isnan(ker)) | (np.abs(exp - ker) <= 1e-10 * np.maximum(1.0, np.abs(exp)))
    if not ok.all():
        return f'trusted kernel disagrees with the exact TLA+ value: spec {exp.tolist()} kernel {ker.tolist()}'
    return None


def _desc_name(inp):
    return 'desc' if inp['useDesc'] else 'nodesc'


def check_vector(vec, fl, pid='C01', *, diagnose=True):
    """run the library on one TLC vector in flavour ``fl``; returns a list of problems
    (key, what, detail) - empty if the implementation agrees with the specification"""
    inp, out = vec['in'], vec['out']
    mode, method = inp['mode'], inp['method']
    wrapped = mode == 'single' and bool(fl.get('wrap'))
    unbal = bool(inp.get('unbal'))
    ub = '/unbalanced' if unbal else ''
    cl = 'a' if pid == 'C01' else ('c' if method == 'poisson_cv' else ('b' if inp.get('fprec') else 'a'))
    if mode == 'movie' and fl.get('window') and not inp['bins'] and len(inp['tv']) >= 2:
        # the movie of dataset.subset_time(t_from, t_to) is the stack restricted to the time points in the window
        keep = window_of(inp)[2]
        out = dict(out, rdms=[out['rdms'][t] for t in keep], time=[out['time'][t] for t in keep])
    exp, undef = expected_values(inp, out, fl['scale'])
    try:
        got = project(call_impl(inp, fl))
    except Exception as e:  # noqa: BLE001
        key = f"{pid}/{cl}/raises/{type(e).__name__}/{mode}{ub}/{_desc_name(inp)}/{method}"
        if mode == 'movie' and inp['bins'] and fl.get('tdesc', 'time') != 'time':
            key = f'{pid}/f/movie/bins/second-time-descriptor/raises/{type(e).__name__}'
        elif mode == 'movie' and len(inp['x3'][0][0]) == 1:
            key = f'{pid}/f/movie/n_channel=1/raises/{type(e).__name__}'
        elif mode == 'list' and unbal and set(inp['lab']) != set(inp['lab2']):
            key = f'{pid}/d/list/unbalanced/different-condition-sets/raises/{type(e).__name__}'
        return [(key, f'{type(e).__name__} raised inside the documented contract: {str(e)[:160]}', {})]
    problems = []
    n = len(out['lab'])
    L = [_norm(_lab(k, fl)) for k in out['lab']]
    # ---- structure and labels -------------------------------------------------------------
    if COND not in got['pd']:
        return [(f'{pid}/b/labels/missing/{mode}', 'condition descriptor missing from pattern_descriptors',
                 {'pd': list(got['pd'])})]
    G = [_norm(v) for v in got['pd'][COND]]
    if mode == 'list' and unbal and set(inp['lab']) != set(inp['lab2']) and (len(G) != n or sorted(map(repr, G)) != sorted(map(repr, L))):
        return [(f'{pid}/d/list/unbalanced/different-condition-sets/mislabelled',
                 'calc_rdm_unbalanced stacks the RDMs of datasets with different condition sets with concat: the labels '
                 'of the first dataset are attached to the RDM of the second', {'labels': G, 'expected': L})]
    if got['n_cond'] != n or len(G) != n:
        return [(f'{pid}/b/rows/{mode}/{_desc_name(inp)}',
                 f'{got["n_cond"]} rows/columns for {n} expected (one per distinct label)', {'labels': G})]
    if inp['useDesc']:
        if sorted(map(repr, G)) != sorted(map(repr, L)):
            return [(f'{pid}/b/labels/{mode}', 'returned labels are not the distinct labels of the data',
                     {'got': G, 'expected': L})]
        pos = [G.index(l) for l in L]          # row of the implementation holding expected row p
    else:
        if G != L:
            return [(f'{pid}/b/labels/{mode}/nodesc', 'without a descriptor the rows must be the observations '
                     'in dataset order', {'got': G, 'expected': L})]
        pos = list(range(n))
    # ---- which returned RDM is which ------------------------------------------------------
    nr = len(out['rdms'])
    if got['n_rdm'] != nr:
        return [(f'{pid}/a/n_rdm/{mode}', f'{got["n_rdm"]} RDMs returned, {nr} expected', {})]
    order = list(range(nr))
    if mode == 'list':
        subj = [_norm(v) for v in got['rd'].get('subj', [])]
        if sorted(subj) != [3, 5]:
            problems.append((f'{pid}/c/rdmdesc/list', 'dataset descriptor subj not attached per RDM',
                             {'rdm_descriptors': {k: [_norm(x) for x in v] for k, v in got['rd'].items()}}))
        else:
            order = [subj.index(3), subj.index(5)]
    elif mode == 'movie':
        times = [float(Fraction(int(t[0]), int(t[1]))) for t in out['time']]
        gt = [float(v) for v in got['rd'].get(fl.get('tdesc', 'time'), [])]
        if len(gt) != nr or sorted(np.round(gt, 9)) != sorted(np.round(times, 9)):
            problems.append((f'{pid}/f/time', 'time descriptor of the movie differs from the (binned) time points',
                             {'got': gt, 'expected': times}))
        else:
            order = [int(np.argmin(np.abs(np.array(gt) - t))) for t in times]
    if mode in ('single', 'movie', 'cv') or (mode == 'list' and not problems):
        subj = [_norm(v) for v in got['rd'].get('subj', [])]
        want = [3] * nr if mode != 'list' else sorted(subj)
        if mode != 'list' and subj != want:
            kmode = 'list1' if wrapped else mode + ('/n_rdm=1' if nr == 1 and mode == 'movie' else '')
            problems.append((f'{pid}/c/rdmdesc/{kmode}', 'dataset descriptor subj not attached to every RDM'
                             + (' (a single RDM passes through concat / from_partials, which merge rdm_descriptors '
                                'of the 2nd.. objects only)' if nr == 1 else ''),
                             {'got': subj, 'rdm_descriptors': sorted(got['rd'])}))
    # ---- values ----------------------------------------------------------------------------
    pairs = [(p, q) for p in range(n) for q in range(p + 1, n)]
    tol = _tol(fl, float(np.nanmax(np.abs(exp))) if np.isfinite(exp).any() else 1.0, _magnitude(inp, fl['scale']))
    bad = []
    gotmat = np.full_like(exp, np.nan)
    for r in range(nr):
        M = _square(got['vec'][order[r]], n)
        for k, (p, q) in enumerate(pairs):
            g = M[pos[p], pos[q]]
            gotmat[r, k] = g
            e = exp[r, k]
            if undef[r, k]:
                continue
            if np.isnan(e) != np.isnan(g) or (not np.isnan(e) and abs(g - e) > tol):
                bad.append((r, k))
    if bad:
        key = f'{pid}/{cl}/value/{method}/{mode}{ub}/{_desc_name(inp)}'
        what = 'value differs from the formula on the condition means'
        if diagnose:
            key, what = _diagnose(vec, fl, pid, key, what, gotmat, exp, undef, tol)
        r, k = bad[0]
        problems.append((key, what, {'rdm': r, 'pair': [out['lab'][pairs[k][0]], out['lab'][pairs[k][1]]],
                                     'got': gotmat.tolist(), 'expected': exp.tolist(), 'tol': tol}))
    # ---- pattern descriptors ---------------------------------------------------------------
    if fl['extra'] and mode != 'list' and not (wrapped and inp['useDesc']):   # from_partials keeps only the aligned descriptor
        for name, col, conv in (('grp', out['grp'], lambda v: _norm(GRP_MAPS['str' if fl['lab'].startswith('str') else 'int'][v - 1])),
                                ('ext', out['ext'], _norm)):
            if name == 'ext' and mode == 'cv':
                continue
            have = got['pd'].get(name)
            if col:
                want = [conv(v) for v in col]
                if have is None or [_norm(have[pos[p]]) for p in range(n)] != want:
                    problems.append((f'{pid}/c/pdesc/{name}/{mode}', f'observation descriptor {name} is constant within '
                                     'every condition but not attached to the right condition',
                                     {'got': None if have is None else [_norm(v) for v in have], 'expected': want,
                                      'labels': G}))
            elif have is not None:
                problems.append((f'{pid}/c/pdesc/{name}/nonconstant-attached/{mode}',
                                 f'{name} varies within a condition but a value was attached to it',
                                 {'got': [_norm(v) for v in have]}))
    return problems


def _close(a, b, undef, tol):
    ok = undef | (np.isnan(a) & np.isnan(b)) | (np.abs(a - b) <= tol)
    return bool(ok.all())


def _diagnose(vec, fl, pid, key, what, gotmat, exp, undef, tol):
    """name the class of a value mismatch more precisely (keys are matched by known_findings)"""
    inp, out = vec['in'], vec['out']
    mode, method = inp['mode'], inp['method']
    try:
        if fl['dtype'] != 'float64':
            # does the same vector fail as plain float64 too?  then that failure names the class
            fl2 = dict(fl, dtype='float64', scale=1)
            base = [p for p in check_vector(vec, fl2, pid, diagnose=True)
                    if any(t in p[0] for t in ('/value/', 'remove_mean', 'poisson_cv'))]
            if base:
                return base[0][0], base[0][1]
            return (f'{pid}/d/dtype-dependence/dtype={fl["dtype"]}/{_desc_name(inp)}',
                    f'the same data as {fl["dtype"]} (values representable in the dtype) gives a different RDM '
                    'than as float64 (integer overflow in the distance computation)')
        if inp['rm'] and method in ('euclidean', 'mahalanobis', 'crossnobis'):
            alt = kernel_expected(inp, out, rm=False, scale=fl['scale'])
            if _close(gotmat, alt, undef, tol):
                kmode = 'list' if fl.get('wrap') and mode == 'single' else mode
                return (f'{pid}/e/remove_mean-ignored/{kmode}/{method}',
                        f'remove_mean=True is silently ignored for {kmode} input: the result equals remove_mean=False')
        if method == 'poisson_cv':
            rates = out['rdms'][0]['rates']
            n = len(out['lab'])
            M = len(rates)
            last = []
            for p in range(n):
                for q in range(p + 1, n):
                    tr = [np.mean([[a / b for a, b in rates[m][g]] for m in range(M - 1)], axis=0) for g in (p, q)]
                    te = [np.array([a / b for a, b in rates[M - 1][g]]) for g in (p, q)]
                    last.append(float(np.sum((tr[0] - tr[1]) * (np.log(te[0]) - np.log(te[1]))) / len(te[0])))
            if _close(gotmat, np.array([last]), undef, tol):
                return (f'{pid}/c/poisson_cv/last-fold-only',
                        'poisson_cv returns the product of the LAST test fold only instead of the mean over folds')
    except Exception:  # noqa: BLE001  diagnosis is best effort; the generic key stands
        pass
    return key, what


def trace_cfg():
    """configuration of MC_Trace_CalcRdm: the enumeration constants are unused (TInit binds the logged
    input); every theorem of CalcRdm is evaluated in every state of every recorded execution"""
    lines = ['CONSTANTS', '  Mode = "trace"', '  NObs = 0', '  NObs2 = 0', '  NCh = 0', '  NLab = 0',
             '  Vals <- NoVals', '  DataSrc = "cat"', '  DataCat <- NoCat', '  DataIds = {}', '  Methods = {}',
             '  RMs = {}', '  UseDescs = {}', '  PrecCat <- NoCat', '  PrecIds = {}', '  PriorCat <- NoCat',
             '  PriorIds = {}', '  ExtCat <- NoCat', '  ExtIds = {}', '  NT = 0', '  TimeVals <- NoCat',
             '  BinCat <- NoCat', '  BinIds = {}', '  NFold = 0', '  FoldSrcs = {}', '  FoldPrecCat <- NoCat',
             '  FoldPrecIds = {}', '  Unbals = {}', '  PermLevel = 0', '  EmitMod = 1', '  EmitCoef = FALSE',
             'INIT TInit', 'NEXT TNext']
    # (CoefWithinFoldZero is data independent and checked on every enumerated design; it is quadratic in the
    # number of observations and left out for the recorded 22-36 observation designs)
    lines += [f'INVARIANT {i}' for i in dict.fromkeys(C01_INVS + C02_INVS + ['StagesAgree', 'Admissible'])
              if i != 'CoefWithinFoldZero']
    lines.append('CHECK_DEADLOCK FALSE')
    return '\n'.join(lines) + '\n'


# --------------------------------------------------------------------------------------------
# impl -> spec: recording executions on integer-grid inputs larger than the exhaustive domain
# --------------------------------------------------------------------------------------------
PRIORS = [[1, 1, 1, 10], [2, 1, 1, 2], [1, 2, 1, 4], [3, 1, 1, 5]]
INT31 = 2 ** 30


def _rand_spd(rng, P):
    A = rng.integers(-1, 2, size=(P, P))
    N = A @ A.T + np.eye(P, dtype=int) * int(rng.integers(1, 3))
    return [[int(v) for v in row] for row in N]


def _rand_labels(rng, n, nlab, maxrep):
    """n labels over a random nlab-subset of 1..5, unbalanced, every count in 1..maxrep, shuffled"""
    for _ in range(200):
        alphabet = sorted(rng.choice(np.arange(1, 6), size=nlab, replace=False).tolist())
        counts = rng.integers(1, maxrep + 1, size=nlab)
        if counts.sum() == n:
            lab = [a for a, c in zip(alphabet, counts) for _ in range(c)]
            rng.shuffle(lab)
            return [int(v) for v in lab]
    return None


def _degenerate(inp):
    """generator constraints: correlation needs non-constant mean patterns"""
    if inp['method'] != 'correlation':
        return False
    for lab, X, _ in _sub_inputs(inp):
        _, M = _group_means(lab, X, inp['useDesc'])
        if np.any(np.ptp(M, axis=1) == 0):
            return True
    return False


def _magnitude_ok(inp):
    """conservative bound of the integers TLC will form (32-bit)"""
    if inp['mode'] == 'cv':
        X = np.abs(np.array(inp['x'])).max() or 1
        reps = max(inp['lab'].count(l) for l in set(inp['lab']))
        P = len(inp['x'][0])
        U, D = X * reps * P * 2, reps * P
        pm = max([1] + [abs(v) for row in (inp['prec'] or []) for v in row] + [v for row in (inp['fprec'] or []) for v in row])
        nf = len(set(_fold_of(inp)))
        return (2 * U * D) ** 2 * P * P * pm * pm * 2 * nf * nf * (2 * pm) ** (P if inp['fprec'] else 0) * D ** 4 < INT31 * 2 ** 20 \
            and (2 * U * D) ** 2 * P * P * pm * pm * 2 < INT31 and D ** 4 * P * nf * nf * (2 * pm * 6) ** (P if inp['fprec'] else 0) < INT31
    worst = 0
    for lab, X, prec in _sub_inputs(inp):
        pass
    subs = _sub_inputs(inp)
    dd = max([len(b) for b in inp['bins']] + [1]) if inp['mode'] == 'movie' and inp['bins'] else 1
    for lab, X, prec in subs:
        P = X.shape[1]
        reps = max(list(lab).count(l) for l in set(lab)) if inp['useDesc'] else 1
        xmax = (np.abs(X).max() or 1) * dd
        ctr = inp['method'] == 'correlation' or inp['rm']
        U = xmax * reps * (2 * P if ctr else 1)
        D = reps * dd * (P if ctr else 1)
        pm = max([1] + [abs(v) for row in (prec or []) for v in row])
        worst = max(worst, (2 * U * D) ** 2 * P * P * pm, D ** 4 * P, (U * U * P) ** 2 if inp['method'] == 'correlation' else 0)
        if inp['method'] == 'poisson':
            pr = inp['prior']
            worst = max(worst, (xmax * reps * pr[1] * pr[3] + reps * dd * pr[0] * pr[2]) * 4, reps * dd * pr[1] * (pr[2] + pr[3]) * 4)
    return worst < INT31


def _cv_design(rng, foldsrc, conds=None):
    """a shuffled fold-balanced design (labels, folds): 2-3 conditions out of 1..5, 2-3 folds, 1-2 repetitions"""
    nc = int(rng.integers(2, 4))
    if conds is None:
        conds = sorted(rng.choice(np.arange(1, 6), size=nc, replace=False).tolist())
    nf = int(rng.integers(2, 4))
    if foldsrc == 'default':
        folds, reps = list(range(1, nf + 1)), {c: 1 for c in conds}
    else:
        folds = sorted(rng.choice(np.arange(1, 5), size=nf, replace=False).tolist())
        reps = {c: int(rng.integers(1, 3)) for c in conds}
    rows = [(c, f) for c in conds for f in folds for _ in range(reps[c])]
    rng.shuffle(rows)
    lab = [int(r[0]) for r in rows]
    fold = [int(r[1]) for r in rows] if foldsrc == 'explicit' else []
    return lab, fold


def _gen_extended(rng, mode):
    """movies and lists of datasets for the cross-validated estimators and for calc_rdm_unbalanced (exact kinds)"""
    variant = int(rng.integers(4))
    unbal = variant >= 2
    method = ['crossnobis', 'poisson_cv', 'crossnobis', ['euclidean', 'mahalanobis'][int(rng.integers(2))]][variant]
    foldsrc = ['explicit', 'default'][int(rng.integers(2))] if method in CV_METHODS else 'none'
    P = int(rng.integers(1, 3)) if mode == 'listx' else 2
    lo, hi = (0, 4) if method == 'poisson_cv' else (-2, 3)
    prec = _rand_spd(rng, P) if method in ('crossnobis', 'mahalanobis') and rng.integers(3) == 0 else []
    base = dict(method=method, rm=False, prec=prec, prior=PRIORS[rng.integers(len(PRIORS))] if method == 'poisson_cv' else PRIORS[0],
                useDesc=True, unbal=unbal, foldsrc=foldsrc, fprec=[])
    lab, fold = _cv_design(rng, foldsrc if foldsrc != 'none' else 'explicit')
    if foldsrc == 'none':
        fold = []
    if len(lab) > 12:
        return None
    if mode == 'listx':
        # the second dataset has its own condition set (overlapping or not); calc_rdm_unbalanced can only stack equal sets
        lab2, fold2 = _cv_design(rng, foldsrc if foldsrc != 'none' else 'explicit', conds=sorted(set(lab)) if unbal else None)
        if foldsrc == 'none':
            fold2 = []
        if len(lab2) > 12:
            return None
        return dict(base, mode='list', lab=lab, fold=fold, x=rng.integers(lo, hi, size=(len(lab), P)).tolist(),
                    ext=[_grp_of(k) for k in lab], lab2=lab2, fold2=fold2, x2=rng.integers(lo, hi, size=(len(lab2), P)).tolist(),
                    ext2=[_grp_of(k) for k in lab2], prec2=prec)
    nt = int(rng.integers(2, 4))
    tv = [int(v) for v in rng.permutation(rng.choice(np.arange(0, 60), size=nt, replace=False))]
    bins = []
    if rng.integers(2):
        perm = [int(v) + 1 for v in rng.permutation(nt)]
        cut = int(rng.integers(1, nt)) if nt > 1 else 1
        bins = [sorted(perm[:cut]), sorted(perm[cut:])] if (rng.integers(2) and perm[cut:]) else [sorted(perm[:max(cut, 2)])]
    bt = [Fraction(sum(tv[t - 1] for t in b), len(b)) for b in bins]
    if len(set(bt)) != len(bt):
        return None
    inp = dict(base, mode='movie', lab=lab, fold=fold, x3=rng.integers(lo, hi, size=(nt, len(lab), P)).tolist(),
               ext=rng.integers(1, 3, size=len(lab)).tolist(), bins=bins, tv=tv)
    if method == 'crossnobis' and not unbal and not prec and foldsrc == 'explicit' and rng.integers(2):
        inp['fprec'] = [[int(v) for v in rng.integers(1, 4, size=P)] for _ in range(max(fold))]
    return inp


def gen_input(rng, mode):
    """a random abstract input on the integer grid, larger than the exhaustively enumerated domain;
    None if the draw fell outside the generator constraints (counted by the caller)"""
    if mode == 'cvmany':
        # default folds with many repetitions (>= 11 folds: two-digit fold numbers), crossnobis
        nc, reps, P = int(rng.integers(2, 4)), int(rng.integers(11, 13)), int(rng.integers(1, 3))
        conds = sorted(rng.choice(np.arange(1, 6), size=nc, replace=False).tolist())
        lab = [int(c) for c in conds for _ in range(reps)]
        rng.shuffle(lab)
        inp = dict(mode='cv', method='crossnobis', rm=bool(rng.integers(2)), prec=[], prior=PRIORS[0], useDesc=True,
                   unbal=False, lab=lab, x=rng.integers(-2, 3, size=(len(lab), P)).tolist(), fold=[], foldsrc='default', fprec=[])
        inp['fold'] = _fold_of(inp)
        return inp
    if mode in ('moviex', 'listx'):
        return _gen_extended(rng, mode)
    if mode == 'cv':
        nc = int(rng.integers(2, 5))
        nf = int(rng.integers(2, 5))
        P = int(rng.integers(1, 4))
        method = ['crossnobis', 'poisson_cv'][rng.integers(2)]
        foldsrc = ['explicit', 'default'][rng.integers(2)]
        conds = sorted(rng.choice(np.arange(1, 6), size=nc, replace=False).tolist())
        folds = sorted(rng.choice(np.arange(1, 6), size=nf, replace=False).tolist())
        if foldsrc == 'default':
            reps = {c: 1 for c in conds}
            folds = list(range(1, nf + 1))
        else:
            reps = {c: int(rng.integers(1, 3)) for c in conds}
        rows = [(c, f) for c in conds for f in folds for _ in range(reps[c])]
        if len(rows) > 16:
            return None
        rng.shuffle(rows)
        lab = [int(r[0]) for r in rows]
        fold = [int(r[1]) for r in rows]
        lo, hi = (0, 4) if method == 'poisson_cv' else (-3, 4)
        x = rng.integers(lo, hi, size=(len(rows), P)).tolist()
        kind = int(rng.integers(3)) if method == 'crossnobis' else 0
        inp = dict(mode='cv', method=method, rm=bool(rng.integers(2)) if method == 'crossnobis' else False,
                   prec=_rand_spd(rng, P) if kind == 1 else [], prior=PRIORS[rng.integers(len(PRIORS))] if method == 'poisson_cv' else PRIORS[0],
                   useDesc=True, unbal=False, lab=lab, x=x, fold=fold, foldsrc=foldsrc,
                   fprec=[[int(v) for v in rng.integers(1, 4, size=P)] for _ in range(max(folds))] if kind == 2 else [])
        if foldsrc == 'default':
            inp['fold'] = _fold_of(inp)
        return inp if _magnitude_ok(inp) else None
    method = ['euclidean', 'correlation', 'mahalanobis', 'poisson'][rng.integers(4)]
    P = int(rng.integers(2, 4))
    use_desc = bool(rng.integers(5) > 0)
    maxrep = 2 if method == 'correlation' else 3
    lo, hi = (0, 5) if method == 'poisson' else ((-2, 3) if method == 'correlation' else (-3, 4))
    base = dict(mode=mode, method=method, rm=bool(rng.integers(2)) if method in ('euclidean', 'mahalanobis') and mode != 'movie' else False,
                prec=_rand_spd(rng, P) if method == 'mahalanobis' and rng.integers(4) > 0 else [],
                prior=PRIORS[rng.integers(len(PRIORS))] if method == 'poisson' else PRIORS[0], useDesc=use_desc,
                unbal=False, foldsrc='none', fold=[], fprec=[])

    def labels(n):
        for nlab in rng.permutation(np.arange(2, 5)):
            l = _rand_labels(rng, n, int(nlab), maxrep)
            if l:
                return l
        return None
    if mode == 'single':
        n = int(rng.integers(5, 9))
        lab = labels(n)
        if lab is None:
            return None
        inp = dict(base, lab=lab, x=rng.integers(lo, hi, size=(n, P)).tolist(), ext=rng.integers(1, 3, size=n).tolist())
    elif mode == 'list':
        n1, n2 = int(rng.integers(4, 7)), int(rng.integers(4, 7))
        lab, lab2 = labels(n1), labels(n2)
        if lab is None or lab2 is None:
            return None
        if not use_desc:
            if rng.integers(2) and len(set(lab)) == len(lab):
                lab2 = [int(v) for v in rng.permutation(lab)]
            else:
                lab2 = list(lab)
            n2 = n1
        inp = dict(base, lab=lab, x=rng.integers(lo, hi, size=(n1, P)).tolist(), ext=[_grp_of(k) for k in lab],
                   lab2=lab2, x2=rng.integers(lo, hi, size=(n2, P)).tolist(), ext2=[_grp_of(k) for k in lab2],
                   prec2=base['prec'] if rng.integers(2) or not base['prec'] else _rand_spd(rng, P), fold2=[])
    else:
        n = int(rng.integers(4, 7))
        nt = int(rng.integers(3, 5))
        lab = labels(n)
        if lab is None:
            return None
        tv = sorted(rng.choice(np.arange(0, 60), size=nt, replace=False).tolist())
        if rng.integers(2):
            tv = [int(v) for v in rng.permutation(tv)]
        bins = []
        if rng.integers(3) > 0:
            perm = [int(v) + 1 for v in rng.permutation(nt)]
            cut = int(rng.integers(1, nt))
            bins = [sorted(perm[:cut]), sorted(perm[cut:])] if rng.integers(2) else [sorted(perm[:cut])]
            if rng.integers(2) and len(bins) == 2 and len(bins[1]) > 1:
                bins = [bins[0], bins[1][:1], bins[1][1:]]
        inp = dict(base, lab=lab, x3=rng.integers(lo, hi, size=(nt, n, P)).tolist(), ext=rng.integers(1, 3, size=n).tolist(),
                   bins=bins, tv=[int(v) for v in tv])
        bt = [Fraction(sum(tv[t - 1] for t in b), len(b)) for b in bins]
        if len(set(bt)) != len(bt):
            return None            # generator constraint: the (binned) time points are distinct
    if _degenerate(inp) or not _magnitude_ok(inp):
        return None
    return inp


def _rat(v, maxden):
    """float -> exact normalised rational [num, den] ([0, 0] for NaN)"""
    if np.isnan(v):
        return [0, 0]
    f = Fraction(float(v)).limit_denominator(maxden)
    if abs(float(f) - v) > 1e-9 * max(1.0, abs(v)) or abs(f.numerator) >= 2 ** 31:
        f = Fraction(int(round(v * 10 ** 6)), 10 ** 6)       # not on the grid: TLC will reject it
    return [f.numerator, f.denominator]


def log_output(inp, got, fl):
    """what the library returned, as exact data for Trace_CalcRdm (labels as the specification's
    integers, values as rationals); floats stay in 'fvec' for the irrational poisson step"""
    inv = {_norm(v): k + 1 for k, v in enumerate(LABEL_MAPS[fl['lab']])}
    lab = [inv.get(_norm(v), 0) for v in got['pd'].get(COND, [])]
    order = list(range(got['n_rdm']))
    if inp['mode'] == 'list':
        subj = [_norm(v) for v in got['rd'].get('subj', [])]
        if sorted(subj) == [3, 5]:
            order = [subj.index(3), subj.index(5)]
    method = inp['method']
    rdms = []
    for r in order:
        row = []
        for v in got['vec'][r]:
            if method == 'correlation':
                if np.isnan(v):
                    row.append([0, 0])
                else:
                    rr = 1.0 - float(v)
                    f = _rat(rr * rr, 4 * 10 ** 6)
                    row.append([0 if f[0] == 0 else (1 if rr > 0 else -1)] + f)
            elif method in ('poisson', 'poisson_cv'):
                row.append([])
            else:
                row.append(_rat(float(v), 10 ** 6))
        rdms.append(row)
    out = dict(lab=lab, rdms=rdms, time=[])
    if inp['mode'] == 'movie':
        out['time'] = [_rat(float(t), 1000) for t in got['rd'].get('time', [])]
    return out, [got['vec'][r].tolist() for r in order]


def record_trace(seed, mode):
    """one recorded execution: {'inp', 'out'} for TLC plus the float payload; or ('skip', why)"""
    rng = np.random.default_rng(seed)
    inp = None
    mode, _, variant = mode.partition(':')      # 'cvmany:str' = many repetitions, 1-character string labels
    for _ in range(50):
        inp = gen_input(rng, mode)
        if inp is not None:
            break
    if inp is None:
        return ('skip', 'generator constraints')
    fl = flavour(rng)
    fl['dtype'] = ['float64', 'int64'][rng.integers(2)]
    fl.update(wrap=False, tdesc='time', window=False, twice=False)
    if mode == 'cvmany':
        fl['lab'] = variant or 'str'
        fl['class'] = 'cvmany'
    try:
        got = project(call_impl(inp, fl))
    except Exception as e:  # noqa: BLE001
        return ('raises', inp, fl, f'{type(e).__name__}: {str(e)[:160]}')
    out, fvec = log_output(inp, got, fl)
    return ('ok', inp, fl, out, fvec)


def finish_poisson(inp, logged, fvec, accept):
    """the irrational last step of an accepted poisson / poisson_cv trace: the logged floats must equal
    the trusted kernel applied to the exact rates TLC computed; returns None or a detail dict"""
    lab_s = accept['lab']                       # row order of the specification
    n = len(lab_s)
    if inp['method'] == 'poisson_cv':
        o = {'lab': lab_s, 'rdms': [{'rates': rt, 'pairs': pr, 'vec': []} for rt, pr in zip(accept['rates'], accept['pairs'])]}
    else:
        o = {'lab': lab_s, 'rdms': [{'rates': rt, 'vec': []} for rt in accept['rates']]}
    exp, _ = expected_values(inp, o)
    pairs = [(p, q) for p in range(n) for q in range(p + 1, n)]
    for r in range(len(fvec)):
        M = _square(np.array(fvec[r], dtype=float), n)
        pos = [logged['lab'].index(l) for l in lab_s] if inp['useDesc'] else list(range(n))
        for k, (p, q) in enumerate(pairs):
            g, e = M[pos[p], pos[q]], exp[r, k]
            if np.isnan(e) != np.isnan(g) or (not np.isnan(e) and abs(g - e) > ATOL * max(1.0, abs(e))):
                return {'rdm': r, 'pair': [lab_s[p], lab_s[q]], 'got': float(g), 'expected': float(e)}
    return None


# --------------------------------------------------------------------------------------------
# float tier: random real-valued data on a TLC-enumerated design, judged by the array-form kernels
# --------------------------------------------------------------------------------------------
def float_case(vec, rng, pid='C01'):
    """replace the integer data of a vector by random real data (and random SPD precisions), call the
    library in a float64 flavour and compare with the array-form kernel (rtol 1e-9)"""
    inp = dict(vec['in'])
    out = vec['out']
    method = inp['method']
    pos = method in ('poisson', 'poisson_cv')
    if inp['mode'] == 'list' and inp.get('unbal') and set(inp['lab']) != set(inp['lab2']):
        return []        # calc_rdm_unbalanced cannot stack different condition sets: reported by the exact tier

    def rnd(shape):
        a = rng.gamma(2.0, 1.5, size=shape) if pos else rng.normal(0, 2, size=shape)
        return a

    def spd(P):
        A = rng.normal(size=(P, P))
        return A @ A.T + np.eye(P)
    if inp['mode'] == 'movie':
        inp['x3'] = rnd(np.array(inp['x3']).shape).tolist()
        P = len(inp['x3'][0][0])
    else:
        inp['x'] = rnd(np.array(inp['x']).shape).tolist()
        P = len(inp['x'][0])
        if inp['mode'] == 'list':
            inp['x2'] = rnd(np.array(inp['x2']).shape).tolist()
    if inp['prec']:
        inp['prec'] = spd(P).tolist()
    if inp.get('prec2'):
        inp['prec2'] = spd(P).tolist()
    if inp['mode'] == 'list' and vec['in']['prec'] == vec['in']['prec2']:
        inp['prec2'] = inp['prec']
    fl = flavour(rng)
    fl.update(dtype='float64', scale=1, wrap=False, tdesc='time', window=False)
    fprec = None
    if inp['mode'] == 'cv' and inp['fprec']:
        # general SPD precision per fold (the exact tier has diagonal ones)
        fprec = {f: spd(P) for f in sorted(set(inp['fold']))}
    try:
        if fprec is not None:
            ds = make_dataset(inp['lab'], inp['x'], None, fl, fold=inp['fold'])
            noise = [fprec[f] for f in sorted(fprec)]
            got = project(calc_rdm(ds, method=method, descriptor=COND, noise=noise if fl['noise'] == 'list' else np.array(noise),
                                   cv_descriptor=FOLD, remove_mean=inp['rm']))
        else:
            got = project(call_impl(inp, fl))
    except Exception as e:  # noqa: BLE001
        return [(f'{pid}/float/raises/{type(e).__name__}/{inp["mode"]}/{method}', str(e)[:160], {'in': inp})]
    if inp['mode'] == 'cv':
        kv = kernel_cv(method, inp['lab'], _fold_of(inp), np.array(inp['x']), rm=inp['rm'], prec=_noise(inp['prec']),
                       fprec=fprec, prior=_prior(inp['prior']))
        n = len(out['lab'])
        exp = np.array([[kv[(out['lab'][p], out['lab'][q])] for p in range(n) for q in range(p + 1, n)]])
    else:
        exp = kernel_expected(inp, out)
    n = len(out['lab'])
    G = [_norm(v) for v in got['pd'].get(COND, [])]
    L = [_norm(_lab(k, fl)) for k in out['lab']]
    if sorted(map(repr, G)) != sorted(map(repr, L)) or got['n_rdm'] != exp.shape[0]:
        return [(f'{pid}/float/labels/{inp["mode"]}', 'labels / number of RDMs differ on real-valued data', {'got': G, 'expected': L})]
    pos_ = [G.index(l) for l in L] if inp['useDesc'] else list(range(n))
    order = list(range(got['n_rdm']))
    if inp['mode'] == 'list':
        subj = [_norm(v) for v in got['rd'].get('subj', [])]
        if sorted(subj) == [3, 5]:
            order = [subj.index(3), subj.index(5)]
    pairs = [(p, q) for p in range(n) for q in range(p + 1, n)]
    for r in range(exp.shape[0]):
        M = _square(got['vec'][order[r]], n)
        for k, (p, q) in enumerate(pairs):
            g, e = M[pos_[p], pos_[q]], exp[r, k]
            if np.isnan(e) != np.isnan(g) or (not np.isnan(e) and abs(g - e) > 1e-9 * max(1.0, abs(e), float(np.nanmax(np.abs(exp))))):
                key = f'{pid}/float/value/{method}/{inp["mode"]}/{_desc_name(inp)}'
                if inp['rm'] and inp['mode'] == 'list':
                    key = f'{pid}/e/remove_mean-ignored/{inp["mode"]}/{method}'
                return [(key, 'value on real-valued data differs from the array-form kernel',
                         {'in': inp, 'flavour': fl, 'got': float(g), 'expected': float(e), 'pair': [out['lab'][p], out['lab'][q]]})]
    return []


# --------------------------------------------------------------------------------------------
# C02 clause d: coefficient extraction
# --------------------------------------------------------------------------------------------
def coef_case(vec, fl):
    """crossnobis is a bilinear form in the data: with one channel and 0/1 data the coefficient of every
    product x_o * x_o' is measured from the implementation, d(e_o + e_o') - d(e_o) - d(e_o'), and
    compared with the coefficient matrix implied by the specification's bag `contrib` of fold pairs"""
    inp, out, coef = vec['in'], vec['out'], vec['coef']
    n = len(inp['lab'])
    npairs = len(coef)

    # a list of identity precisions (one per fold) must give the same coefficients: this sends the
    # measurement through the per-fold-precision branch of the code as well
    extra = {}
    if fl['noise'] == 'list' and inp['foldsrc'] == 'explicit':
        extra = {'fprec': [[1]] * max(inp['fold'])}

    def d(rows):
        x = [[1] if o in rows else [0] for o in range(n)]
        r = call_impl(dict(inp, x=x, **extra), fl)
        g = project(r)
        G = [_norm(v) for v in g['pd'][COND]]
        L = [_norm(_lab(k, fl)) for k in out['lab']]
        pos = [G.index(l) for l in L]
        M = _square(g['vec'][0], len(L))
        return np.array([M[pos[p], pos[q]] for p in range(len(L)) for q in range(p + 1, len(L))])
    problems = []
    try:
        single = [d({o}) for o in range(n)]
        fold = _fold_of(inp)
        for o in range(n):
            for o2 in range(o, n):
                meas = single[o] if o == o2 else d({o, o2}) - single[o] - single[o2]
                for k in range(npairs):
                    c1, c2 = _frac(coef[k][o][o2]), _frac(coef[k][o2][o])
                    want = float(c1) if o == o2 else float(c1 + c2)
                    if abs(meas[k] - want) > 1e-12:
                        within = fold[o] == fold[o2]
                        key = 'C02/d/coef/within-fold-product-contributes' if within else 'C02/d/coef/between-fold-weight'
                        problems.append((key, f'coefficient of x_{o}*x_{o2} (folds {fold[o]},{fold[o2]}) in the value of the '
                                         f'condition pair {k} is {meas[k]:.6g}, the definition implies {want:.6g}',
                                         {'obs': [o, o2], 'folds': [fold[o], fold[o2]], 'pair_index': k,
                                          'measured': float(meas[k]), 'implied': want}))
                        if len(problems) > 3:
                            return problems
    except Exception as e:  # noqa: BLE001
        return [(f'C02/d/coef/raises/{type(e).__name__}', str(e)[:160], {})]
    return problems
