"""Shared machinery of the /verif checks: context, TLC runner, evidence, known findings.

Every property module in harness/props exposes ``run(ctx)``.  The context offers

* ``ctx.tlc(...)``        run TLC on a specification/configuration in scratch, parse its summary,
                          coverage and the JSON lines the specification emitted with PrintT(ToJson(..));
* ``ctx.validate(...)``   batch trace validation (implementation -> specification);
* ``ctx.violation(...)``  report a case on which the implementation left the specification; the
                          case is matched against /verif/known_findings.json by its *key*;
* ``ctx.note_*``          counters and samples that end up in /verif/evidence/<id>.json.

Exit codes (set by ``check``): 0 held, 1 VIOLATION printed, 2 machinery failure.
"""
from __future__ import annotations

import hashlib
import json
import os
import re
import shutil
import subprocess
import sys
import tempfile
import time
from pathlib import Path

VERIF = Path(__file__).resolve().parent.parent
SPECS = VERIF / 'specs'
EVIDENCE = Path(os.environ.get('VERIF_EVIDENCE_DIR') or VERIF / 'evidence')   # redirected by tools that must not rewrite evidence
REPLAYS = VERIF / 'replays'
KNOWN = VERIF / 'known_findings.json'
REPO = Path(os.environ.get('VERIF_REPO', '/repo'))
TLA_JAR = '/opt/veriftools/tla/tla2tools.jar'
TLA_DEPS = '/opt/veriftools/tla/CommunityModules-deps.jar'


class MachineryError(Exception):
    """Something in the checking machinery (not in rsatoolbox) failed: exit status 2."""


class TlcResult:
    def __init__(self):
        self.generated = 0
        self.distinct = 0
        self._emitted = None   # parsed JSON objects printed by the specification (lazy)
        self.emitted_path = None
        self.n_emitted = 0
        self.coverage = {}     # action name -> (distinct, taken)
        self.ok = False        # "No error has been found"
        self.invariant = None  # name of a violated invariant / property, if any
        self.error_trace = ''  # textual counterexample
        self.out = ''
        self.wall = 0.0
        self.depth = 0

    @property
    def emitted(self):
        if self._emitted is None:
            self._emitted = list(self.iter_emitted())
        return self._emitted

    def iter_emitted(self):
        with open(self.emitted_path) as f:
            for line in f:
                yield json.loads(line)

    def iter_lines(self, chunk=200):
        buf = []
        with open(self.emitted_path) as f:
            for line in f:
                buf.append(line)
                if len(buf) >= chunk:
                    yield buf
                    buf = []
        if buf:
            yield buf


_JSON_LINE = re.compile(r'^"(\{.*\}|\[.*\])"$')


def _unquote(line):
    # TLC prints a TLA+ string value: quotes and backslashes are escaped once more
    return json.loads(line)


def run_tlc(spec, cfg, *, workdir, workers=16, env=None, simulate=None, depth=None,
            timeout=1800, coverage=False, extra=(), seed=None, heap='6g', deque=False):
    """Run TLC on specs/<spec>.tla with configuration text/file ``cfg`` inside ``workdir``."""
    workdir = Path(workdir)
    workdir.mkdir(parents=True, exist_ok=True)
    # copy all modules so EXTENDS / INSTANCE resolve, and so nothing is written into /verif/specs
    for f in SPECS.glob('*.tla'):
        shutil.copy(f, workdir / f.name)
    if isinstance(cfg, Path) or (isinstance(cfg, str) and '\n' not in cfg and cfg.endswith('.cfg')):
        cfgpath = workdir / Path(cfg).name
        shutil.copy(SPECS / Path(cfg).name, cfgpath)
    else:
        cfgpath = workdir / f'{spec}_gen.cfg'
        cfgpath.write_text(cfg)
    meta = workdir / 'meta'
    if meta.exists():
        shutil.rmtree(meta)
    jtmp = workdir / 'jtmp'          # TLC unpacks its standard modules into java.io.tmpdir on every start
    jtmp.mkdir(exist_ok=True)
    cmd = ['java', '-XX:+UseParallelGC', f'-Xmx{heap}', f'-Djava.io.tmpdir={jtmp}']
    if deque:
        cmd.append('-Dtlc2.tool.queue.IStateQueue=StateDeque')
    cmd += ['-cp', f'{TLA_JAR}:{TLA_DEPS}', 'tlc2.TLC', '-workers', str(workers),
            '-metadir', str(meta), '-noGenerateSpecTE', '-config', str(cfgpath)]
    if coverage:
        cmd += ['-coverage', '1']
    if simulate:
        cmd += ['-simulate', simulate]
    if depth:
        cmd += ['-depth', str(depth)]
    if seed is not None:
        cmd += ['-seed', str(seed)]
    cmd += list(extra)
    cmd.append(f'{spec}.tla')
    e = dict(os.environ)
    e.pop('JAVA_TOOL_OPTIONS', None)
    if env:
        e.update({k: str(v) for k, v in env.items()})
    if not simulate:
        # the per-run timeouts were measured on an idle 16-core machine; under load (other checks running in
        # parallel) TLC is several times slower, and a time-out is a machinery error, never a verdict
        timeout = timeout * float(os.environ.get('VERIF_TLC_TIMEOUT_FACTOR', '4'))
    t0 = time.time()
    outfile = workdir / 'tlc_stdout.txt'
    rc = 0
    with open(outfile, 'wb') as fo:
        try:
            p = subprocess.run(cmd, cwd=workdir, env=e, stdout=fo, stderr=subprocess.STDOUT,
                               timeout=timeout)
            rc = p.returncode
        except subprocess.TimeoutExpired:
            rc = -9
            if not simulate:
                raise MachineryError(f'TLC timed out after {timeout}s on {spec}')
    r = TlcResult()
    r.wall = time.time() - t0
    r.rc = rc
    # stream: JSON lines go to emitted.ndjson, everything else is kept as the (small) log
    r.emitted_path = workdir / 'emitted.ndjson'
    other = []
    n = 0
    with open(outfile, 'r', errors='replace') as fi, open(r.emitted_path, 'w') as fe:
        for line in fi:
            ls = line.strip()
            if len(ls) > 2 and ls[0] == '"' and ls[1] in '{[' and ls[-1] == '"':
                try:
                    fe.write(json.loads(ls))
                    fe.write('\n')
                    n += 1
                    continue
                except Exception:
                    pass
            if len(other) < 20000:
                other.append(line)
    outfile.unlink()
    r.n_emitted = n
    out = ''.join(other)
    r.out = out
    m = None
    for m in re.finditer(r'(\d+) states generated, (\d+) distinct states found', out):
        pass
    if m:
        r.generated, r.distinct = int(m.group(1)), int(m.group(2))
    elif simulate is not None:
        # simulation mode reports walks, not a graph: count the generated states (no distinct count exists)
        m = None
        for m in re.finditer(r'The number of states generated: (\d+)', out):
            pass
        if m:
            r.generated = int(m.group(1))
    m = re.search(r'depth of the complete state graph search is (\d+)', out)
    if m:
        r.depth = int(m.group(1))
    r.ok = 'No error has been found' in out or (simulate is not None and rc in (0, -9)
                                                and 'Error:' not in out)
    m = re.search(r'Error: Invariant (\S+) is violated', out)
    if m:
        r.invariant = m.group(1)
    m2 = re.search(r'Error: Action property (\S+) is violated', out) or \
        re.search(r'Error: Temporal properties were violated', out)
    if m2 and not r.invariant:
        r.invariant = m2.group(1) if m2.groups() else 'temporal'
    if 'Error:' in out:
        i = out.index('Error:')
        r.error_trace = out[i:i + 6000]
    if coverage:
        for m in re.finditer(r'<(\w+) line \d+, col \d+ to line \d+, col \d+ of module (\w+)>: (\d+):(\d+)', out):
            name = m.group(1)
            d, t = int(m.group(3)), int(m.group(4))
            old = r.coverage.get(name, (0, 0))
            r.coverage[name] = (max(old[0], d), max(old[1], t))
    return r


class Ctx:
    def __init__(self, pid, tier, seed, replay=None):
        self.pid = pid
        self.tier = tier
        self.seed = seed
        self.replay = replay
        self.t0 = time.time()
        self.scratch = Path(tempfile.mkdtemp(prefix=f'verif_{pid}_'))
        self.states = 0
        self.transitions = 0
        self.traces = 0
        self.evaluations = 0
        self.nontrivial = set()
        self.nontrivial_extra = 0
        self.samples = []
        self.rule = ''
        self.assumptions = []
        self.exhaustive = None
        self.coverage_actions = {}
        self.extra = {}
        self.unsupported = {}
        self.new_violations = []
        self.known_hits = {}
        self.tlc_runs = []
        self._known = _load_known()
        self._nviol = 0

    # ------------------------------------------------------------------ TLC
    def tlc(self, spec, cfg, *, name=None, must_pass=True, count=True, **kw):
        wd = self.scratch / (name or f'{spec}_{len(self.tlc_runs)}')
        kw.setdefault('seed', self.seed)
        r = run_tlc(spec, cfg, workdir=wd, **kw)
        self.tlc_runs.append({'spec': spec, 'name': name or spec, 'generated': r.generated,
                              'distinct': r.distinct, 'wall_s': round(r.wall, 1),
                              'emitted': r.n_emitted})
        if count:
            self.states += r.distinct
            self.transitions += r.generated
        for k, v in r.coverage.items():
            o = self.coverage_actions.get(k, [0, 0])
            self.coverage_actions[k] = [o[0] + v[0], o[1] + v[1]]
        if must_pass and not r.ok:
            if r.invariant:
                # a specification-level property failed on the model itself
                self.violation(f'{self.pid}/spec/{spec}/{r.invariant}',
                               f'specification-level property {r.invariant} of {spec} fails in the model',
                               {'tlc_error': r.error_trace})
            else:
                raise MachineryError(f'TLC failed on {spec} ({name}):\n{r.out[-3000:]}')
        return r

    def require_coverage(self, r, actions):
        missing = [a for a in actions if r.coverage.get(a, (0, 0))[1] == 0]
        if missing:
            raise MachineryError(f'vacuous run: actions never taken: {missing}')

    # ------------------------------------------------- trace validation (I -> S)
    def validate(self, spec, cfg, traces, *, name=None, env=None, id_key='tid', chunk=None, **kw):
        """Validate ``traces`` (a list; trace i gets id i+1) against trace specification ``spec``.

        The specification reads the JSON array from IOEnv.TRACE_FILE, starts one behaviour per
        trace id and prints ``{"accept": id}`` when it has consumed the whole trace while every
        clause held.  Returns the list of rejected 0-based indices with the diagnostic records the
        specification printed for them (``{"reject": id, ...}``)."""
        if not traces:
            return []
        wd = self.scratch / (name or f'{spec}_val_{len(self.tlc_runs)}')
        wd.mkdir(parents=True, exist_ok=True)
        tf = wd / 'traces.json'
        tf.write_text(json.dumps(traces))
        e = {'TRACE_FILE': str(tf)}
        if env:
            e.update(env)
        kw.setdefault('workers', 1)
        r = self.tlc(spec, cfg, name=wd.name, env=e, must_pass=False, **kw)
        if not r.ok and 'Error:' in r.out and not r.invariant:
            raise MachineryError(f'trace validation crashed in {spec}:\n{r.out[-3000:]}')
        accepted = {o['accept'] for o in r.emitted if isinstance(o, dict) and 'accept' in o}
        diag = {}
        for o in r.emitted:
            if isinstance(o, dict) and 'reject' in o:
                diag.setdefault(o['reject'], []).append(o)
        rejected = []
        for i in range(len(traces)):
            if (i + 1) in accepted:
                self.traces += 1
            else:
                rejected.append((i, diag.get(i + 1, [])))
        if r.invariant:
            rejected.append((-1, [{'invariant': r.invariant, 'trace': r.error_trace}]))
        return rejected

    # ------------------------------------------------------------ bookkeeping
    def count(self, n=1):
        self.evaluations += n

    def nontriv(self, key):
        """Register a distinct non-trivial case (hashable key)."""
        if len(self.nontrivial) < 2_000_000:
            self.nontrivial.add(key if isinstance(key, (int, str)) else _h(key))
        else:
            self.nontrivial_extra += 0  # conservative: do not count beyond the cap

    def sample(self, s, cap=6):
        if len(self.samples) < cap:
            self.samples.append(_jsonable(s))

    def unsupported_case(self, cls, msg=''):
        d = self.unsupported.setdefault(cls, {'n': 0, 'msg': str(msg)[:200]})
        d['n'] += 1

    def violation(self, key, what, case):
        """The implementation left the specification on ``case``.  ``key`` names the class of the
        failure (clause / call site / configuration class)."""
        self._nviol += 1
        ent = self._known.get(key)
        if ent is not None and ent.get('status') == 'open' and ent.get('property') == self.pid:
            h = self.known_hits.setdefault(key, {'n': 0, 'what': ent.get('what', what), 'example': _jsonable(case)})
            h['n'] += 1
            return False
        for v in self.new_violations:
            if v['key'] == key:
                v['n'] += 1
                return True
        REPLAYS.mkdir(exist_ok=True)
        path = REPLAYS / (re.sub(r'[^A-Za-z0-9_.=-]+', '_', key)[:120] + '.json')
        path.write_text(json.dumps({'property': self.pid, 'key': key, 'what': what,
                                    'seed': self.seed, 'tier': self.tier,
                                    'case': _jsonable(case)}, indent=1, default=str))
        self.new_violations.append({'key': key, 'what': what, 'path': str(path), 'n': 1})
        return True

    # ---------------------------------------------------------------- finish
    def finish(self, level='model_checking'):
        wall = time.time() - self.t0
        for key, h in sorted(self.known_hits.items()):
            print(f"KNOWN-FINDING: property={self.pid} {key}: {h['what']} ({h['n']} case(s))")
        for v in self.new_violations:
            print(f"VIOLATION property={self.pid} replay={v['path']}")
            print(f"  key={v['key']} cases={v['n']}: {v['what']}")
        cov = {
            'states': int(self.states), 'transitions': int(self.transitions),
            'traces_validated_against_impl': int(self.traces),
            'evaluations': int(self.evaluations),
            'distinct_nontrivial': int(len(self.nontrivial) + self.nontrivial_extra),
            'rule': self.rule,
            'samples': self.samples or ['(no sample recorded)'],
            'tlc_runs': self.tlc_runs,
            'actions_covered': self.coverage_actions,
            'unsupported': self.unsupported,
            'known_findings_hit': {k: v['n'] for k, v in self.known_hits.items()},
        }
        if self.exhaustive is not None:
            cov['exhaustive'] = bool(self.exhaustive)
        cov.update(self.extra)
        ev = {'property_id': self.pid, 'tier': self.tier, 'seed': int(self.seed), 'level': level,
              'coverage': cov, 'assumptions': self.assumptions, 'wall_s': round(wall, 2),
              'violations': len(self.new_violations)}
        # checks beyond the listed properties (ids not starting with C: growth of the specification) keep their
        # evidence apart from the evidence files MANIFEST.json names
        evdir = EVIDENCE if self.pid.startswith('C') or os.environ.get('VERIF_EVIDENCE_DIR') else VERIF / 'evidence_extra'
        evdir.mkdir(exist_ok=True)
        (evdir / f'{self.pid}.json').write_text(json.dumps(ev, indent=1, default=str))
        shutil.rmtree(self.scratch, ignore_errors=True)
        return 1 if self.new_violations else 0

    def abort(self):
        shutil.rmtree(self.scratch, ignore_errors=True)


def _load_known():
    if not KNOWN.exists():
        return {}
    data = json.loads(KNOWN.read_text())
    return {e['key']: e for e in data.get('findings', [])}


def _h(x):
    return hashlib.sha1(json.dumps(_jsonable(x), sort_keys=True, default=str).encode()).hexdigest()[:16]


def _jsonable(x):
    try:
        import numpy as np
    except Exception:  # pragma: no cover
        np = None
    if isinstance(x, dict):
        return {str(k): _jsonable(v) for k, v in x.items()}
    if isinstance(x, (list, tuple, set, frozenset)):
        return [_jsonable(v) for v in x]
    if np is not None:
        if isinstance(x, np.ndarray):
            return _jsonable(x.tolist())
        if isinstance(x, np.generic):
            return _jsonable(x.item())
    if isinstance(x, float):
        if x != x:
            return 'NaN'
        if x in (float('inf'), float('-inf')):
            return str(x)
        return x
    if isinstance(x, (int, str, bool)) or x is None:
        return x
    return repr(x)


def tla_seq(xs):
    """Python list -> TLA+ tuple text (for generated cfg/MC constants)."""
    if isinstance(xs, (list, tuple)):
        return '<<' + ', '.join(tla_seq(x) for x in xs) + '>>'
    if isinstance(xs, bool):
        return 'TRUE' if xs else 'FALSE'
    if isinstance(xs, str):
        return '"' + xs + '"'
    return str(xs)
