"""Binding for property C12 (value-returning operations neither modify nor alias their inputs).

* ``catalogue()``  discovers the public callables of rsatoolbox.rdm / .data / .model / .inference /
  .util (functions, classes and public methods of the container / model / result classes) by
  introspection and pairs every parameter with an argument factory by parameter name; a callable
  with a required parameter no factory knows is reported as uncovered (never as a violation).
* ``World``        a fresh set of tracked objects (data RDMs, model RDMs, datasets, models, arrays,
  descriptor dicts, a Result); ``fingerprints()`` = sha of array bytes + normalised descriptor
  values of every tracked object (library-managed 'index' entries excluded, as the property says).
* ``run_experiment`` performs one schedule enumerated by TLC (MC_Alias): produce, then optionally
  a documented in-place operation or array write on the result or on a source, recording the
  fingerprints of ALL tracked objects after every step.  The recorded history is validated by
  Trace_Alias.tla (Frame as an action property).
"""
from __future__ import annotations

import hashlib
import importlib
import inspect
import io
import os
import pkgutil
import tempfile
import warnings

import numpy as np

MODULES = ['rsatoolbox.rdm', 'rsatoolbox.data', 'rsatoolbox.model', 'rsatoolbox.inference', 'rsatoolbox.util']
# not operations of the property: visualisation helpers living in util, file removal, loaders of paths,
# and plain accessors that document returning internal storage
SKIP = {'rsatoolbox.util.vis_utils', 'rsatoolbox.util.file_io', 'rsatoolbox.util.searchlight'}
SKIP_NAMES = {'load_rdm', 'load_dataset', 'load_results', 'load_model', 'read_dict_hdf5', 'read_dict_pkl',
              'write_dict_hdf5', 'write_dict_pkl', 'remove_file', 'run', 'Fitter', 'Model', 'DatasetBase',
              'check_descriptor_length_error'}
ACCESSORS = {'get_vectors', 'get_matrices', 'get_measurements', 'get_measurements_tensor', 'to_dict', 'get_noise_ceil',
             'get_time_as_channel'}    # documented views / exports of internal storage
INPLACE = {'RDMs': {'reorder', 'sort_by', 'append'}, 'Dataset': {'sort_by'}, 'TemporalDataset': {'sort_by'}}


# ----------------------------------------------------------------------------- fingerprints
def _norm(v):
    if isinstance(v, np.ndarray):
        return ('nd', str(v.dtype.kind in 'fiub' and 'num' or v.dtype.kind), v.shape,
                hashlib.sha1(np.ascontiguousarray(v).tobytes() if v.dtype.kind != 'O' else repr(v.tolist()).encode()).hexdigest())
    if isinstance(v, (list, tuple)):
        return ('seq', tuple(_norm(x) for x in v))
    if isinstance(v, dict):
        return ('dict', tuple(sorted((str(k), _norm(x)) for k, x in v.items())))
    if isinstance(v, (np.generic,)):
        return _norm(v.item())
    if isinstance(v, float) and v != v:
        return 'nan'
    if isinstance(v, (int, float, str, bool)) or v is None:
        return (type(v).__name__ if not isinstance(v, (int, float)) else 'num', v)
    if _kind(v) is not None:
        return fingerprint_raw(v)
    return ('obj', type(v).__name__)


def _desc(d, drop_index):
    if not isinstance(d, dict):
        return _norm(d)
    return tuple(sorted((str(k), _norm(list(v) if isinstance(v, np.ndarray) and v.ndim == 1 else v))
                        for k, v in d.items() if not (drop_index and k == 'index')))


def _kind(o):
    n = type(o).__name__
    if n in ('RDMs', 'Dataset', 'TemporalDataset', 'Result') or n.startswith('Model'):
        return n
    return None


def fingerprint_raw(o):
    k = _kind(o)
    if k == 'RDMs':
        return ('RDMs', _norm(o.dissimilarities), o.dissimilarity_measure, _desc(o.descriptors, False),
                _desc(o.rdm_descriptors, True), _desc(o.pattern_descriptors, True))
    if k in ('Dataset', 'TemporalDataset'):
        t = (k, _norm(o.measurements), _desc(o.descriptors, False), _desc(o.obs_descriptors, False),
             _desc(o.channel_descriptors, False))
        if k == 'TemporalDataset':
            t += (_desc(o.time_descriptors, False),)
        return t
    if k == 'Result':
        return ('Result', _norm(o.evaluations), _norm(o.noise_ceiling), _norm(getattr(o, 'variances', None)),
                _norm(getattr(o, 'dof', None)), tuple(fingerprint_raw(m) for m in o.models))
    if k is not None:   # models
        items = []
        for a, v in sorted(vars(o).items()):
            items.append((a, fingerprint_raw(v) if _kind(v) else _norm(v)))
        return (k, tuple(items))
    return _norm(o)


def fingerprint(o):
    return hashlib.sha1(repr(fingerprint_raw(o)).encode()).hexdigest()[:12]


# ----------------------------------------------------------------------------- the world
class World:
    """fresh tracked objects; every experiment starts from a new World(seed) so runs are independent"""

    def __init__(self, seed=0):
        import rsatoolbox
        from rsatoolbox.rdm import RDMs
        from rsatoolbox.data import Dataset, TemporalDataset
        from rsatoolbox.model import ModelFixed, ModelWeighted, ModelSelect, ModelInterpolate
        rng = np.random.default_rng(seed)
        nc = 5
        n = nc * (nc - 1) // 2
        T = {}
        d0 = rng.uniform(0.2, 2, (4, n))
        d0[0, 0] = -0.3          # cross-validated distances can be negative: exercises the clipping transforms
        T['rdms'] = RDMs(d0, dissimilarity_measure='euclidean',
                         descriptors={'session': 'a', 'noise': np.eye(3)},
                         rdm_descriptors={'subj': ['s1', 's2', 's3', 's4'], 'grp': np.array([1, 1, 2, 2])},
                         pattern_descriptors={'cond': ['c1', 'c2', 'c3', 'c4', 'c5'], 'conds': ['c1', 'c2', 'c3', 'c4', 'c5'],
                                              'cat': np.array([1, 1, 2, 2, 3]),
                                              'stim': np.array([100, 101, 102, 103, 104])})
        T['rdms'].rdm_descriptors['sess'] = np.array([10, 11, 12, 13])
        # an object derived by a structural operation: non-trivial index descriptors, dicts shared with a parent
        parent = RDMs(rng.uniform(0.2, 2, (3, 15)), dissimilarity_measure='euclidean',
                      rdm_descriptors={'subj': ['s7', 's8', 's9'], 'sess': np.array([20, 21, 22])},
                      pattern_descriptors={'cond': ['c0', 'c1', 'c2', 'c3', 'c4', 'c5'],
                                           'stim': np.array([99, 100, 101, 102, 103, 104])})
        T['rdms_sub'] = parent.subset_pattern('cond', ['c1', 'c2', 'c3', 'c4', 'c5'])
        T['rdms2'] = RDMs(rng.uniform(0.2, 2, (2, n)), dissimilarity_measure='euclidean',
                          descriptors={'session': 'b'},
                          rdm_descriptors={'subj': ['s5', 's6'], 'grp': np.array([3, 3])},
                          pattern_descriptors={'cond': ['c1', 'c2', 'c3', 'c4', 'c5'], 'conds': ['c1', 'c2', 'c3', 'c4', 'c5'],
                                               'cat': np.array([1, 1, 2, 2, 3]),
                                               'stim': np.array([100, 101, 102, 103, 104])})
        T['rdms2'].rdm_descriptors['sess'] = np.array([14, 15])
        T['model_rdms'] = RDMs(rng.uniform(0.2, 2, (3, n)), dissimilarity_measure='euclidean',
                               pattern_descriptors={'cond': ['c1', 'c2', 'c3', 'c4', 'c5'],
                                                    'stim': np.array([100, 101, 102, 103, 104])})
        T['model_rdm1'] = RDMs(rng.uniform(0.2, 2, (1, n)), pattern_descriptors={'cond': ['c1', 'c2', 'c3', 'c4', 'c5'],
                                                                               'stim': np.array([100, 101, 102, 103, 104])})
        nobs, nch = 15, 4
        T['dataset'] = Dataset(rng.uniform(0.5, 3, (nobs, nch)), descriptors={'subj': 's1'},
                               obs_descriptors={'conds': [f'c{1 + i % 5}' for i in range(nobs)],
                                                'fold': np.repeat([1, 2, 3], 5)},
                               channel_descriptors={'vox': ['v1', 'v2', 'v3', 'v4'], 'roi': np.array([1, 1, 2, 2])})
        T['dataset2'] = Dataset(rng.uniform(0.5, 3, (10, nch)), descriptors={'subj': 's2'},
                                obs_descriptors={'conds': [f'c{1 + i % 5}' for i in range(10)],
                                                 'fold': np.repeat([1, 2], 5)},
                                channel_descriptors={'vox': ['v1', 'v2', 'v3', 'v4'], 'roi': np.array([1, 1, 2, 2])})
        T['tds'] = TemporalDataset(rng.uniform(0.5, 3, (6, 3, 4)), descriptors={'subj': 's1'},
                                   obs_descriptors={'conds': ['c1', 'c2', 'c3', 'c1', 'c2', 'c3']},
                                   channel_descriptors={'vox': ['v1', 'v2', 'v3']},
                                   time_descriptors={'time': np.array([0.0, 0.1, 0.2, 0.3])})
        dn = rng.uniform(0.2, 2, (3, n))
        dn[:, 2] = np.nan          # a pair missing in every RDM (as after a pattern bootstrap)
        dn[1, 5] = np.nan          # and one missing in a single RDM (as after from_partials)
        T['rdms_nan'] = RDMs(dn, dissimilarity_measure='euclidean',
                             rdm_descriptors={'subj': ['n1', 'n2', 'n3'], 'w': np.array([1.0, 2.0, 0.5])},
                             pattern_descriptors={'cond': ['c1', 'c2', 'c3', 'c4', 'c5']})
        T['weights2d'] = rng.uniform(0.5, 1.5, (3, n))
        T['residuals'] = rng.normal(size=(12, nch))
        T['array_stack'] = rng.uniform(0.2, 2, (3, n))
        T['vector'] = rng.uniform(0.2, 2, n)
        T['theta'] = np.array([0.3, 0.5, 0.2])
        T['prec'] = np.eye(nch) + 0.1
        T['desc_dict'] = {'cond': ['c1', 'c2', 'c3', 'c4', 'c5'], 'k': 1}
        T['pdesc_dict'] = {'cond': ['c1', 'c2', 'c3', 'c4', 'c5']}
        T['desc_lists'] = {'cond': ['c1', 'c2', 'c3', 'c4', 'c5'], 'cat': np.array([1, 1, 2, 2, 3])}
        T['desc_lists_idx'] = {'cond': ['c1', 'c2', 'c3', 'c4', 'c5'], 'cat': np.array([1, 1, 2, 2, 3]), 'index': [0, 1, 2, 3, 4]}
        T['desc_lists2'] = {'cond': ['c6', 'c7'], 'cat': np.array([4, 4]), 'index': [0, 1]}
        T['rdesc_dict'] = {'subj': ['a', 'b', 'c']}
        T['evals'] = rng.uniform(0.1, 0.9, (3, 6))
        T['variances'] = np.cov(rng.uniform(0.1, 0.9, (5, 30)))
        T['nc'] = rng.uniform(0.8, 0.95, (2, 6))
        T['tensor'] = rng.uniform(0.5, 3, (4, 3, 2))
        # coherent inputs of the test functions: 8 samples x 3 models, 3 model pairs, a 2 x 8 ceiling
        T['evals_t'] = rng.uniform(0.1, 0.9, (8, 3))
        T['evals_t3'] = rng.uniform(0.1, 0.9, (8, 3, 4))
        T['nc_t'] = rng.uniform(0.8, 0.95, (2, 8))
        T['var_t'] = rng.uniform(0.01, 0.02, 3)
        T['dvar_t'] = rng.uniform(0.01, 0.02, 3)
        T['ncvar_t'] = rng.uniform(0.01, 0.02, (3, 2))
        T['spd5'] = np.eye(5) + 0.2
        for key, k in (('rdms_euc', 2), ('rdms_euc2', 1)):
            pats = rng.normal(size=(k, nc, 12))
            sq = ((pats[:, :, None, :] - pats[:, None, :, :]) ** 2).mean(axis=-1)
            iu = np.triu_indices(nc, 1)
            T[key] = RDMs(np.array([m[iu] for m in sq]), dissimilarity_measure='squared euclidean',
                          pattern_descriptors={'cond': ['c1', 'c2', 'c3', 'c4', 'c5']})
        # tracked objects are pairwise disjoint at the start: the list holds its own two models
        T['models'] = [ModelFixed('fa', RDMs(rng.uniform(0.2, 2, (1, n)), pattern_descriptors={'cond': ['c1', 'c2', 'c3', 'c4', 'c5'], 'stim': np.array([100, 101, 102, 103, 104])})),
                       ModelWeighted('wb', RDMs(rng.uniform(0.2, 2, (2, n)), pattern_descriptors={'cond': ['c1', 'c2', 'c3', 'c4', 'c5'], 'stim': np.array([100, 101, 102, 103, 104])}))]
        for key, cls, src in (('m_fixed', ModelFixed, 'model_rdm1'), ('m_weighted', ModelWeighted, 'model_rdms'),
                              ('m_select', ModelSelect, 'model_rdms'), ('m_interp', ModelInterpolate, 'model_rdms')):
            T[key] = cls(key, T[src].copy())
        from rsatoolbox.model.model_family import ModelFamily
        T['family'] = ModelFamily([ModelFixed(f'f{i}', RDMs(rng.uniform(0.2, 2, (1, n)),
                                                           pattern_descriptors={'cond': ['c1', 'c2', 'c3', 'c4', 'c5']}))
                                   for i in range(3)])
        T['ds_i'] = Dataset(rng.uniform(0.5, 3, (3, nch)), obs_descriptors={'conds': ['c1'] * 3, 'fold': np.array([1, 2, 3])})
        T['ds_j'] = Dataset(rng.uniform(0.5, 3, (3, nch)), obs_descriptors={'conds': ['c2'] * 3, 'fold': np.array([1, 2, 3])})
        T['tds_conds'] = TemporalDataset(rng.uniform(0.5, 3, (6, 3, 4)), descriptors={'subj': 's2'},
                                         obs_descriptors={'conds': ['c1', 'c2', 'c3', 'c1', 'c2', 'c3']},
                                         channel_descriptors={'vox': ['v1', 'v2', 'v3']},
                                         time_descriptors={'time': np.array([0.0, 0.1, 0.2, 0.3])})
        from rsatoolbox.rdm.rdms import permute_rdms
        T['rdms_perm'] = permute_rdms(T['rdms'].copy(), np.array([2, 0, 1, 4, 3]))
        from rsatoolbox.inference import eval_fixed
        T['result'] = eval_fixed([ModelFixed('ra', T['model_rdm1'].copy()), ModelFixed('rb', T['model_rdms'].copy()[1])],
                                 T['rdms'].copy())
        self.t = T
        self.rng = rng
        self.scratch = None

    def fingerprints(self, extra=None):
        fp = {k: fingerprint(v) for k, v in self.t.items()}
        if extra is not None:
            fp['#result'] = fingerprint(extra)
        return fp


# parameter name -> tracked object name or literal
BY_NAME = {
    'rdms': 'rdms', 'rdm': 'rdms', 'rdm1': 'rdms', 'rdm2': 'rdms2x', 'data': 'rdms', 'sl_RDM': 'rdms',
    'list_of_rdms': ['rdms', 'rdms2'], 'dataset': 'dataset', 'dataset_list': ['dataset', 'dataset2'],
    'sets': ['dataset', 'dataset2'], 'models': 'models', 'model': 'm_weighted', 'residuals': 'residuals',
    'x': 'array_stack', 'dissimilarities': 'array_stack', 'measurements': 'residuals', 'theta': None,
    'method': None, 'descriptor': 'conds', 'obs_desc': 'conds', 'by': None, 'value': None, 'N': 5,
    'array': 'vector', 'index_vector': np.array([0, 0, 1, 1, 2]), 'n_cond': 5, 'size': 5,
    'descriptors': None, 'variance': None, 'evaluations': None, 'fun': np.sqrt, 'low': 0.2, 'up': 0.8,
    'category_vector': [0, 0, 1, 1, 2], 'n_pattern': 12, 'n_rdm': 8, 'rdm_dict': None, 'data_dict': None,
    'model_dict': None, 'result_dict': None, 'name': 'mdl', 'pattern_descriptor': 'cond', 'rdm_descriptor': 'subj',
    'descriptor_': None, 'dictionary': 'desc_dict', 'indices': [0, 2], 'a': 'desc_dict', 'b': 'desc_dict',
    'd_dict': None, 'desc_new': None, 'n_element': 5, 'p': np.array([4, 2, 0, 1, 3]),
    'new_order': np.array([4, 2, 0, 1, 3]), 'idx': [0, 2], 'weights': None, 'sigma_k': None,
    'cv_descriptor': 'fold', 'k': 2, 'category_selector': 'cat',
}


TEST_FUNCTIONS = ('all_tests', 'nc_tests', 'pair_tests', 'zero_tests', 'ranksum_pair_test', 'ranksum_value_test',
                  't_test_0', 't_test_nc', 't_tests')


class Uncovered(Exception):
    pass


N_VARIANTS = 3
# optional parameters that are varied across argument variants (variant 0 = the callable's defaults)
OPTIONS = {
    'pattern_descriptor': [None, 'stim', 'cond'],
    'rdm_descriptor': [None, 'sess', 'subj'],
    'random': [None, True, True],
    'boot_type': [None, 'pattern', 'rdm'],
    'normalize': [None, True, False],
    'k_pattern': [None, 1, 2],
    'k_rdm': [None, 2, 1],
    'n_cv': [None, 1, 2],
    'weighting': [None, 'equal', 'number'],
    'remove_mean': [None, True, False],
    'sort': [None, False, True],
    'boot_noise_ceil': [None, False, True],
}
METHODS = {
    'compare': ['cosine', 'corr', 'rho-a'],
    'fit': ['cosine', 'corr', 'corr_cov'],
    'eval': ['cosine', 'corr', 'cosine_cov'],
    'pool': ['cosine', 'corr', 'spearman'],
}


def build_args(world, fn, owner=None, qual='', variant=0):
    """positional argument list for fn from the world; raises Uncovered when a required parameter has no factory"""
    T = world.t
    sig = inspect.signature(fn)
    args, kwargs, used = [], {}, []
    skipped = False
    name = qual.split('.')[-1]
    for pname, p in sig.parameters.items():
        if pname == 'self' or p.kind in (p.VAR_KEYWORD,):
            continue
        if p.kind == p.VAR_POSITIONAL:
            if pname == 'rdms':
                if variant == 1:          # a single object is a documented call form, too
                    args += [T['rdms']]
                    used += ['rdms']
                else:
                    args += [T['rdms'], T['rdms2']]
                    used += ['rdms', 'rdms2']
            continue
        required = p.default is inspect._empty
        val = _special(world, qual, pname, owner, variant)
        if val is _NOARG and not required and variant and pname in OPTIONS and OPTIONS[pname][variant] is not None:
            val = (OPTIONS[pname][variant], [])
        if val is _NOARG:
            if not required:
                skipped = True
                continue
            if pname not in BY_NAME or BY_NAME[pname] is None:
                raise Uncovered(f'no factory for required parameter {pname!r}')
            spec = BY_NAME[pname]
            if isinstance(spec, str) and spec.endswith('x') and spec[:-1] in T:
                spec = 'rdms'      # second stack over the same conditions: use a copy-free distinct object
                val = T['rdms2'] if pname == 'rdm2' else T[spec]
                used.append('rdms2' if pname == 'rdm2' else spec)
            elif isinstance(spec, str) and spec in T:
                val = T[spec]
                used.append(spec)
            elif isinstance(spec, list) and all(isinstance(s, str) and s in T for s in spec):
                val = [T[s] for s in spec]
                used += spec
            else:
                val = spec
        else:
            val, u = val
            used += u
        if p.kind == p.KEYWORD_ONLY or skipped:
            kwargs[pname] = val
        else:
            args.append(val)
    if name == 'pairs_by_percentile':
        kwargs.update({'cond': 'c2'} if variant != 1 else {'stim': 102})
        if variant == 2:
            kwargs.update(min=20, max=80)
    return args, kwargs, used


_NOARG = object()


def _special(world, qual, pname, owner, variant=0):
    """call-specific arguments (overrides the by-name table)"""
    T = world.t
    q = qual.split('.')[-2:] if '.' in qual else ['', qual]
    cls, name = (q[0], q[1])
    if pname == 'method':
        if 'transform' in name:
            return ('average', [])
        if name.startswith('calc_rdm') or name == 'calc_one_similarity':
            return ('euclidean', [])
        if name in ('cov_from_residuals', 'prec_from_residuals', 'cov_from_measurements', 'prec_from_measurements',
                    'cov_from_unbalanced', 'prec_from_unbalanced'):
            return ('shrinkage_diag', [])
        if name == 'rescale':
            return (['evidence', 'setsize', 'simple'][variant % 3], [])
        fam = 'fit' if name.startswith('fit_') or name == 'fit' else \
            'pool' if 'pool' in name else \
            'compare' if name == 'compare' else 'eval'
        return (METHODS[fam][variant % 3], [])
    if owner == 'RDMs' and name == 'mean' and pname == 'weights' and variant:
        # averaging a stack with missing entries under explicit per-entry weights / a weight descriptor
        return ((T['weights2d'], ['weights2d']) if variant == 1 else ('w', []))
    if owner in ('RDMs',):
        if name in ('subset', 'subsample') and pname == 'by':
            return ('subj', [])
        if name in ('subset', 'subsample') and pname == 'value':
            return (['s1', 's3'], [])
        if name in ('subset_pattern', 'subsample_pattern') and pname == 'by':
            return ('cond', [])
        if name in ('subset_pattern', 'subsample_pattern') and pname == 'value':
            return (['c1', 'c3', 'c4'], [])
        if name == 'append' and pname == 'rdm':
            return (T['rdms2'], ['rdms2'])
        if name in ('save',) and pname == 'filename':
            return (io.BytesIO(), [])
    if owner in ('Dataset', 'TemporalDataset'):
        if pname == 'by':
            if 'channel' in name:
                return ('vox', [])
            if 'time' in name or name == 'convert_to_dataset':
                return ('time', [])
            return ('conds', [])
        if pname == 'value':
            if 'channel' in name:
                return (['v1', 'v3'], [])
            if 'time' in name:
                return ([0.1, 0.2], [])
            return (['c1', 'c3'], [])
        if pname in ('obs_desc',):
            return ('conds', [])
        if pname == 'filename':
            return (io.BytesIO(), [])
        if pname in ('t_from', 't_to'):
            return ((0.05 if pname == 't_from' else 0.25), [])
        if pname == 'bins':
            return ([[0.0, 0.1], [0.2, 0.3]], [])
    if owner and owner.startswith('Model'):
        if pname == 'theta':
            th = {'ModelFixed': None, 'ModelSelect': 1, 'ModelWeighted': T['theta'],
                  'ModelInterpolate': T['theta']}.get(owner)
            return (th, ['theta'] if th is T['theta'] else [])
        if pname == 'data':
            return (T['rdms'], ['rdms'])
        if pname == 'filename':
            return (io.BytesIO(), [])
    if owner == 'Result' and pname == 'filename':
        return (io.BytesIO(), [])
    if name in TEST_FUNCTIONS:
        tt = ['t-test', 'bootstrap', 'ranksum'][variant % 3]
        if pname == 'evaluations':
            k = 'evals_t3' if name.startswith('ranksum') or (name in ('all_tests', 'pair_tests', 'zero_tests', 'nc_tests')
                                                              and tt == 'ranksum') else 'evals_t'
            return (T[k], [k])
        if pname == 'test_type':
            return (tt, [])
        if pname == 'noise_ceil':
            return (0.9, []) if name == 't_test_nc' else (T['nc_t'], ['nc_t'])
        if pname == 'model_var':
            return (T['var_t'], ['var_t'])
        if pname == 'diff_var':
            return (T['dvar_t'], ['dvar_t'])
        if pname == 'noise_ceil_var':
            return (T['ncvar_t'], ['ncvar_t'])
        if pname == 'variances':
            k = {'t_tests': 'dvar_t', 't_test_0': 'var_t', 't_test_nc': 'var_t'}[name]
            return (T[k], [k])
        if pname == 'dof':
            return (7, [])
        if pname == 'comp_value':
            return (0.3, [])
    if owner == 'ModelFamily' and pname == 'family_index':
        return ([5, 3, 6][variant % 3], [])
    if owner == 'Result' and pname == 'ci_percent':
        return (0.9, [])
    if owner == 'Result' and name == 'get_ci' and pname == 'test_type' and variant:
        return (['t-test', 'bootstrap', 't-test'][variant], [])
    if name in ('square_category_binary_mask', 'square_between_category_binary_mask'):
        return {'category_idxs': ([0, 2, 3], []), 'category_1_idxs': ([0, 1], []), 'category_2_idxs': ([3, 4], []),
                'size': (5, [])}.get(pname, _NOARG)
    if name == 'compare_neg_riemannian_distance':
        # needs RDMs of real patterns (positive definite second moments)
        return {'rdm1': (T['rdms_euc'], ['rdms_euc']), 'rdm2': (T['rdms_euc2'], ['rdms_euc2']),
                'sigma_k': ((T['spd5'], ['spd5']) if variant == 1 else (None, []))}.get(pname, _NOARG)
    if name == 'calc_one_similarity':
        return {'data_i': (T['ds_i'], ['ds_i']), 'data_j': (T['ds_j'], ['ds_j']),
                'cv_desc_i': (T['ds_i'].obs_descriptors['fold'], ['ds_i']),
                'cv_desc_j': (T['ds_j'].obs_descriptors['fold'], ['ds_j']),
                'method': (['euclidean', 'correlation', 'poisson'][variant % 3], []),
                'weighting': (['number', 'equal', 'number'][variant % 3], [])}.get(pname, _NOARG)
    if pname == 'evaluations' and name != 'Result':
        return (T['evals'], ['evals'])
    if pname in ('variance', 'variances'):
        return (T['variances'], ['variances'])
    if pname in ('model_var', 'diff_var', 'noise_ceil_var') and name != 'Result':
        v = {'model_var': np.diag(T['variances'])[:3].copy(), 'diff_var': np.array([0.01, 0.02, 0.015]),
             'noise_ceil_var': np.full((3, 2), 0.01)}[pname]
        return (v, [])
    if pname in ('noise_ceil', 'noise_ceiling'):
        return (T['nc'], ['nc'])
    if pname == 'dof':
        return (5, [])
    if name.startswith('sets_of_k') and pname == 'k':
        return (2, [])
    if name.startswith('sets_of_k') and pname == 'pattern_descriptor':
        return ('cond', [])
    if name in ('crossval', 'cv_noise_ceiling') and pname in ('train_set', 'test_set', 'ceil_set'):
        from rsatoolbox.inference.crossvalsets import sets_k_fold
        np.random.seed(3)
        tr, te, ce = sets_k_fold(T['rdms'], k_rdm=2, k_pattern=1, random=False, pattern_descriptor='cond', rdm_descriptor='subj')
        return ({'train_set': tr, 'test_set': te, 'ceil_set': ce}[pname], [])
    if name in ('crossval', 'cv_noise_ceiling') and pname == 'pattern_descriptor':
        return ('cond', [])
    if name == 'TemporalDataset' and pname == 'measurements':
        return (T['tensor'], ['tensor'])
    if name == 'calc_rdm_movie' and pname == 'dataset':
        return (T['tds'], ['tds'])
    if name == 'calc_rdm_movie' and pname == 'descriptor':
        return ('conds', [])
    if name == 'calc_rdm_poisson_cv' and pname in ('descriptor', 'cv_descriptor'):
        return ('conds' if pname == 'descriptor' else 'fold', [])
    if name == 'get_v' and pname == 'sigma_k':
        return (None, [])
    if name == 'result_from_dict' and pname == 'result_dict':
        return (T['result'].to_dict(), ['result'])
    if name == 'Result':
        if pname == 'models':
            return (T['models'], ['models'])
        if pname == 'cv_method':
            return ('fixed', [])
        if pname == 'evaluations':
            return (T['evals'][:2].reshape(1, 2, 6), ['evals'])
    if name in ('ModelFixed',) and pname == 'rdm':
        return (T['model_rdm1'], ['model_rdm1'])
    if name in ('ModelWeighted', 'ModelSelect', 'ModelInterpolate') and pname == 'rdm':
        return (T['model_rdms'], ['model_rdms'])
    if name.startswith('fit_') and pname == 'model':
        m = 'm_select' if name == 'fit_select' else 'm_interp' if name == 'fit_interpolate' else 'm_weighted'
        return (T[m], [m])
    if name.startswith('fit_') and pname == 'data':
        return (T['rdms'], ['rdms'])
    if name.startswith(('eval_', 'bootstrap_', 'crossval')) or name in ('bootstrap_crossval',):
        if pname == 'N':
            return (4, [])
    if name == 'pool_rdm' and pname == 'rdms':
        return (T['rdms'], ['rdms'])
    if name in ('cov_from_measurements', 'prec_from_measurements', 'cov_from_unbalanced', 'prec_from_unbalanced',
                'average_dataset_by', 'calc_rdm_crossnobis') and pname in ('obs_desc', 'by', 'descriptor'):
        return ('conds', [])
    if name == 'rdms_from_dict' and pname == 'rdm_dict':
        return (T['rdms'].to_dict(), ['rdms'])
    if name == 'dataset_from_dict' and pname == 'data_dict':
        return (T['dataset'].to_dict(), ['dataset'])
    if name == 'model_from_dict' and pname == 'model_dict':
        return (T['m_weighted'].to_dict(), ['m_weighted'])
    if name in ('RDMs',) and pname in ('rdm_descriptors',):
        return (T['rdesc_dict'], ['rdesc_dict'])
    if name in ('RDMs',) and pname == 'pattern_descriptors':
        return (T['pdesc_dict'], ['pdesc_dict'])
    if name in ('Dataset',) and pname == 'obs_descriptors':
        return ({'conds': ['c1'] * 12}, [])
    if name in ('bool_index', 'num_index'):
        return {'descriptor': (T['desc_lists']['cat'], ['desc_lists']), 'value': ([1, 3], [])}.get(pname, _NOARG)
    if name in ('subset_descriptor', 'extract_dict', 'format_descriptor', 'parse_input_descriptor',
                'check_descriptor_length', 'dict_to_list', 'append_descriptor', 'desc_eq'):
        if name == 'append_descriptor' and pname == 'descriptor':
            return (T['desc_lists_idx'], ['desc_lists_idx'])
        if pname in ('descriptor', 'descriptors', 'dictionary', 'd_dict', 'a'):
            return (T['desc_lists'], ['desc_lists'])
        if pname == 'b':
            return (T['pdesc_dict'], ['pdesc_dict'])
        if pname == 'desc_new':
            return (T['desc_lists2'], ['desc_lists2'])
        if pname == 'indices':
            return ([0, 2], [])
        if pname == 'n_element':
            return (5, [])
    if name == 'inverse_permute_rdms' and pname == 'rdms':
        return (T['rdms_perm'], ['rdms_perm'])
    if name == 'ensure_double' and pname == 'a':
        return (T['residuals'], ['residuals'])
    if name == 'bin_time':
        return {'by': ('time', []), 'bins': (np.array([[0.0, 0.1], [0.2, 0.3]]), [])}.get(pname, _NOARG)
    if name == 'convert_to_dataset' and pname == 'by':
        return ('time', [])
    if name == 'nested_odd_even_split':
        return {'l1_obs_desc': ('fold', []), 'l2_obs_desc': ('conds', [])}.get(pname, _NOARG)
    return _NOARG


def discover():
    """public callables: (qualified name, callable, owner class or None)"""
    out = []
    seen = set()
    for m in MODULES:
        pkg = importlib.import_module(m)
        subs = [m] + [m + '.' + x.name for x in pkgutil.iter_modules(pkg.__path__)]
        for sm in subs:
            if sm in SKIP:
                continue
            try:
                mod = importlib.import_module(sm)
            except Exception:
                continue
            for n, o in sorted(vars(mod).items()):
                if n.startswith('_') or n in SKIP_NAMES:
                    continue
                if not (inspect.isfunction(o) or inspect.isclass(o)):
                    continue
                if not getattr(o, '__module__', '').startswith('rsatoolbox') or o.__module__ in SKIP:
                    continue
                key = o.__module__ + '.' + n
                if key in seen:
                    continue
                seen.add(key)
                out.append((key, o, None))
                if inspect.isclass(o) and (n in ('RDMs', 'Dataset', 'TemporalDataset', 'Result') or n.startswith('Model')):
                    for mn, mo in sorted(vars(o).items()):
                        if mn.startswith('_') or not inspect.isfunction(mo):
                            continue
                        out.append((f'{key}.{mn}', mo, n))
    return out


OWNER_OBJ = {'ModelFamily': 'family', 'Result': 'result', 'RDMs': 'rdms', 'Dataset': 'dataset', 'TemporalDataset': 'tds', 'ModelFixed': 'm_fixed',
             'ModelWeighted': 'm_weighted', 'ModelSelect': 'm_select', 'ModelInterpolate': 'm_interp'}


def call(world, qual, fn, owner, variant=0):
    """perform the operation on the world; returns (result, names of tracked arguments)"""
    T = world.t
    name = qual.split('.')[-1]
    with warnings.catch_warnings():
        warnings.simplefilter('ignore')
        if owner is not None:
            if owner not in OWNER_OBJ:
                raise Uncovered(f'no tracked instance of {owner}')
            args, kwargs, used = build_args(world, fn, owner, qual, variant)
            oname = OWNER_OBJ[owner]
            if owner == 'RDMs' and variant == 1 and name not in ('append',):
                oname = 'rdms_sub'         # a derived object (shared dicts, non-trivial index)
            if owner == 'RDMs' and variant and name == 'mean':
                oname = 'rdms_nan'         # a stack with missing entries
            obj = T[oname]
            bound = getattr(obj, name)
            if name == 'sort_by':
                kwargs = {'conds': 'alpha'} if owner != 'RDMs' else {'cond': ['c5', 'c3', 'c1', 'c2', 'c4']}
                args = [] if owner != 'RDMs' else []
                if owner != 'RDMs':
                    return bound('conds'), [oname]
                return bound(**kwargs), [oname]
            np.random.seed(1)
            return bound(*args, **kwargs), [oname] + used
        args, kwargs, used = build_args(world, fn, None, qual, variant)
        np.random.seed(1)
        return fn(*args, **kwargs), used


def classify(qual, owner):
    name = qual.split('.')[-1]
    if owner in INPLACE and name in INPLACE[owner]:
        return 'inplace'
    if name in ACCESSORS:
        return 'accessor'
    return 'producer'


def components(res):
    """tracked-kind objects and arrays contained in a result (for mutation experiments)"""
    out = []

    def walk(x, depth=0):
        if depth > 3:
            return
        if _kind(x) in ('RDMs', 'Dataset', 'TemporalDataset') or isinstance(x, np.ndarray):
            out.append(x)
        elif _kind(x) and _kind(x).startswith('Model'):
            out.append(x)
        elif isinstance(x, (list, tuple)):
            for y in x[:6]:
                walk(y, depth + 1)
        elif isinstance(x, dict):
            for y in list(x.values())[:6]:
                walk(y, depth + 1)
    walk(res)
    if not out:
        out.append(res)        # numbers, Results, dicts ...: tracked as one opaque component
    return out[:8]


def comp_kind(x):
    if isinstance(x, np.ndarray):
        return 'ndarray'
    return _kind(x) or 'other'


MUTATORS = ['reorder', 'sort_by', 'sort_same', 'append', 'array_write', 'ds_sort_by']


def mutate(world, target, mut):
    """apply a documented in-place operation / array write to ``target``; returns False if not applicable"""
    k = _kind(target)
    T = world.t
    if mut == 'array_write':
        arr = target if isinstance(target, np.ndarray) else \
            target.dissimilarities if k == 'RDMs' else \
            target.measurements if k in ('Dataset', 'TemporalDataset') else None
        if arr is None or arr.size == 0 or arr.dtype.kind not in 'fiu' or not arr.flags.writeable:
            return False
        arr.flat[0] = arr.flat[0] + 1
        return True
    if k == 'RDMs':
        if mut == 'reorder' and target.n_cond >= 2:
            target.reorder(np.arange(target.n_cond)[::-1])
            return True
        if mut == 'sort_by' and target.n_cond >= 2:
            name = next((d for d in target.pattern_descriptors if d != 'index'), 'index')
            vals = list(target.pattern_descriptors[name])
            try:
                if len(set(vals)) != len(vals):
                    return False
            except TypeError:
                return False
            target.sort_by(**{name: vals[::-1]})
            return True
        if mut == 'sort_same' and target.n_cond >= 2:
            # sorting by the order the object already has permutes nothing but still re-indexes
            name = next((d for d in target.pattern_descriptors if d != 'index'), None)
            if name is None:
                return False
            vals = list(target.pattern_descriptors[name])
            try:
                if len(set(vals)) != len(vals):
                    return False
            except TypeError:
                return False
            target.sort_by(**{name: vals})
            return True
        if mut == 'append':
            other = target.copy()
            target.append(other)
            return True
    if k in ('Dataset', 'TemporalDataset') and mut == 'ds_sort_by':
        if 'conds' in target.obs_descriptors and target.n_obs >= 2:
            target.sort_by('conds')
            # make sure the order really changed: reverse via a helper descriptor otherwise
            return True
    return False
