"""Drivers, kernels and recorders for specs/MissingData.tla (property C13).

Only this module knows how the abstract records of MissingData look in rsatoolbox:

* ``check_record`` replays one record emitted by TLC (modes compare / pool / mean / rescale) into
  rsatoolbox.  NaN patterns are written into plain arrays (source "free") or are produced by the real
  ``bootstrap_sample_pattern`` (the draw chosen by TLC is forced) / ``from_partials`` (sources "boot",
  "part"); the masks those produce must be the masks of the specification.
* Every value is judged twice: against an independent kernel fed with the exact statistics /
  rationals of the specification, and against the SAME public function called on plain arrays with
  the masked entries deleted (metamorphic pair) wherever the function accepts such an input.
* ``record_session`` records compare calls made inside real pattern-bootstrap evaluations and direct
  calls on masked integer stacks for Trace_MissingData (implementation -> specification).

The last irrational steps (division by a square root, V^-1, least squares) live in the kernels of this
file and in harness/compare.py:value_from_stat (property C03), which are themselves checked against
the exact TLA+ values on every record.
"""
from __future__ import annotations

import copy
import itertools
import math
import signal
from fractions import Fraction

import numpy as np

import rsatoolbox
from rsatoolbox.rdm import RDMs
from rsatoolbox.rdm import compare as rsa_compare
from rsatoolbox.rdm.combine import from_partials, rescale
from rsatoolbox.inference import bootstrap_sample_pattern
from rsatoolbox.inference.noise_ceiling import boot_noise_ceiling
from rsatoolbox.model import ModelWeighted, ModelFixed
from rsatoolbox.model.fitter import fit_regress, fit_regress_nn
from rsatoolbox.util import inference_util
from rsatoolbox.util import pooling as util_pooling

from harness.compare import (value_from_stat, array_kernel, sigma_array, sigma_class, encode_out,
                             COV_METHODS, RATIONAL_METHODS, ATOL_CLOSED, ATOL_CG, ATOL_RHO)
from harness.rdmstore import Randint, DrawMismatch

NAN = float('nan')
CMP_METHODS = ('cosine', 'corr', 'spearman', 'kendall', 'tau-a', 'rho-a', 'cosine_cov', 'corr_cov')
POOL_METHODS = ('euclid', 'cosine', 'corr', 'spearman', 'kendall', 'tau-a', 'rho-a', 'cosine_cov', 'corr_cov',
                'neg_riem_dist')
FIT_METHODS = ('cosine', 'corr', 'cosine_cov', 'corr_cov')
RESCALE_METHODS = ('evidence', 'setsize', 'simple')
ATOL_META = 1e-12        # same function, same floating-point operations on the kept entries
ATOL_FIT = 1e-6          # conjugate gradients with atol 1e-9 inside the fitter, then a linear solve
RESCALE_THRESHOLD = 1e-14
RESCALE_TOL = 1e-4       # ~ 100 * sqrt(threshold) * scale: the iteration stops on the CHANGE of the estimate


# ------------------------------------------------------------------------------------------------
# TLC configurations
# ------------------------------------------------------------------------------------------------
INVARIANTS = {
    'compare': ['ErrorIffDiffering', 'ClassTotal', 'MaskedIsDeleted', 'VSubRule', 'NoneIsPlain', 'BootCommon',
                'PartMaskRule'],
    'pool': ['PoolMaskedIsDeleted', 'PoolMissingIsUnion', 'BootCommon', 'PartMaskRule'],
    'mean': ['NaNIffNone', 'MeanBounds', 'PlainWhenEqual', 'MissingWeightsIrrelevant', 'PartMaskRule'],
    'mean2': ['Mean2NaNIffNone', 'SecondCallIndependent'],
    'rescale': ['CommonScaleExists', 'ConnectedShares'],
    'partials': ['PartialsAssoc', 'PartialsListOrder'],
}
PROPERTIES = {'mean2': ['WeightsFrame']}
ACTIONS = {'compare': ['Parse', 'Misaligned', 'Measure'], 'pool': ['Pool'], 'mean': ['Mean'],
           'mean2': ['MeanFirst', 'MeanSecond'], 'rescale': ['Rescale'], 'partials': ['Embed']}


def _set(xs):
    return '{' + ', '.join(f'"{x}"' if isinstance(x, str) else str(x) for x in xs) + '}'


def cfg(mode, nc, length, *, veccat=None, rots=(0,), shapes='Sh11', methods=(), sigmas='NoSigmas',
        srcs=('free',), freemasks='MasksUpTo1', minkeep=2, wkinds=('none',), wcat='NoW', wecat='NoW',
        factors=(1,), families=('prop',), expcat='NoExp', expids=(1,), allpcat='NoW', allpids=(0,), emitmod=1, emitaligned=1, emit=True, spec=None):
    veccat = veccat or f'VecCat{length}'
    lines = ['CONSTANTS', f'  Mode = "{mode}"', f'  NC = {nc}', f'  LEN = {length}', f'  VecCat <- {veccat}',
             f'  Rots = {_set(rots)}', f'  Shapes <- {shapes}', f'  Methods = {_set(methods)}',
             f'  Sigmas <- {sigmas}', f'  MaskSrcs = {_set(srcs)}', f'  FreeMasks <- {freemasks}',
             f'  MinKeep = {minkeep}', f'  WKinds = {_set(wkinds)}', f'  WCat <- {wcat}', f'  WECat <- {wecat}',
             f'  Factors = {_set(factors)}', f'  Families = {_set(families)}', f'  ExpCat <- {expcat}', f'  ExpIds = {_set(expids)}',
             f'  AllPCat <- {allpcat}', f'  AllPIds = {_set(allpids)}', f'  EmitMod = {emitmod}',
             f'  EmitAligned = {emitaligned}']
    if spec:
        lines.append(f'SPECIFICATION {spec}')
    else:
        lines += ['INIT Init', 'NEXT Next']
    lines += [f'INVARIANT {i}' for i in INVARIANTS[mode]]
    lines += [f'PROPERTY {i}' for i in PROPERTIES.get(mode, [])]
    if emit:
        lines.append('INVARIANT Emit')
    lines.append('CHECK_DEADLOCK FALSE')
    return '\n'.join(lines) + '\n'


def trace_cfg(nc):
    length = nc * (nc - 1) // 2
    lines = ['CONSTANTS', '  Mode = "compare"', f'  NC = {nc}', f'  LEN = {length}', '  VecCat <- NoSeq',
             '  Rots <- Unused', '  Shapes <- Unused', '  Methods <- Unused', '  Sigmas <- NoSeq',
             '  MaskSrcs <- Unused', '  FreeMasks <- Unused', '  MinKeep = 2', '  WKinds <- Unused',
             '  WCat <- NoSeq', '  WECat <- NoSeq', '  Factors <- Unused', '  Families <- Unused', '  ExpCat <- NoSeq', '  ExpIds <- Unused', '  AllPCat <- NoSeq', '  AllPIds <- Unused', '  EmitMod = 1',
             '  EmitAligned = 1',
             'SPECIFICATION TSpec', 'INVARIANT ErrorIffDiffering', 'INVARIANT MaskedIsDeleted',
             'CHECK_DEADLOCK FALSE']
    return '\n'.join(lines) + '\n'


# must mirror SigmaCat of specs/MC_MissingData.tla; the kept block of V that TLC emits is compared
# with the block computed from these arrays on every whitened record (mismatch = machinery error)
def sigma_of(sid, nc):
    if sid in (0, 1):
        return None
    if sid == 2:
        return np.full(nc, 2.0)
    if sid == 3:
        return np.arange(1, nc + 1, dtype=float)
    m = np.zeros((nc, nc))
    for i in range(nc):
        m[i, i] = 2.0
        if i + 1 < nc:
            m[i, i + 1] = m[i + 1, i] = 1.0
    return m


def sigma_cls(sid):
    return {0: 'none', 1: 'none', 2: 'vector-constant', 3: 'vector', 4: 'matrix'}[sid]


class KernelMismatch(Exception):
    """a kernel of this file disagrees with the exact value of the specification (machinery error)"""


# ------------------------------------------------------------------------------------------------
# small helpers
# ------------------------------------------------------------------------------------------------
def _pairs(n):
    return [(i, j) for i in range(n) for j in range(i + 1, n)]


def _nc_from_len(L):
    n = int(round((1 + math.sqrt(1 + 8 * L)) / 2))
    return n if n * (n - 1) // 2 == L else None


def masked(vecs, masks):
    """integer vectors + 1-based mask index lists -> float array with NaN at the masked entries"""
    x = np.array(vecs, dtype=float)
    for r, m in enumerate(masks):
        for k in m:
            x[r, k - 1] = NAN
    return x


def deleted(vecs, mask):
    keep = [k for k in range(len(vecs[0])) if (k + 1) not in set(mask)]
    return np.array(vecs, dtype=float)[:, keep]


def v_block(nc, sigma, mask):
    from harness.compare import v_matrix
    keep = [k for k in range(nc * (nc - 1) // 2) if (k + 1) not in set(mask)]
    return v_matrix(nc, sigma)[np.ix_(keep, keep)]


def same_nan(got, miss_1based, n):
    want = np.zeros(n, bool)
    for k in miss_1based:
        want[k - 1] = True
    return bool(np.array_equal(np.isnan(np.asarray(got, dtype=float)), want))


def _labels(nc):
    return [f'c{i + 1}' for i in range(nc)]


def full_rdms(vecs, nc, tag='a'):
    v = np.array(vecs, dtype=float)
    return RDMs(v.copy(), dissimilarity_measure='test', descriptors={'session': tag},
                rdm_descriptors={'subj': [f'{tag}{i}' for i in range(len(v))]},
                pattern_descriptors={'conds': _labels(nc)})


def plain_rdms(arr):
    """an RDMs object around vectors of ANY length (the deleted side of a metamorphic pair)"""
    return RDMs(np.array(arr, dtype=float).copy(), dissimilarity_measure='test')


class MaskSourceMismatch(Exception):
    def __init__(self, key, detail):
        super().__init__(key)
        self.key = key
        self.detail = detail


def build_stack(rec, side, nc):
    """the real NaN-bearing RDMs object of one stack of a record, made the way the mask source says.
    'free': NaNs written into the array; 'boot': real bootstrap_sample_pattern with the draw forced
    (the model side is subsampled with the pattern_idx it returned); 'part': real from_partials."""
    vecs = rec[side]
    masks = rec['m' + side]
    L = len(vecs[0])
    src = rec.get('src', 'free')
    want = masked(vecs, masks)
    if src == 'free':
        if _nc_from_len(L) is None:
            return plain_rdms(want), want
        return full_rdms(want, _nc_from_len(L), side), want
    if src == 'boot':
        draw = [d - 1 for d in rec['arg']]
        other = 'b' if 'b0' in rec and rec.get('b0') else 'a'
        data = full_rdms(rec[other + '0'], nc, other)
        data.pattern_descriptors['index'] = list(range(nc))
        with Randint(forced=[draw]):
            sample, pidx = bootstrap_sample_pattern(data, 'index')
        if side == other:
            ob = sample
        else:
            mod = full_rdms(rec[side + '0'], nc, side)
            mod.pattern_descriptors['index'] = list(range(nc))
            ob = mod.subsample_pattern('index', pidx)
        got = np.asarray(ob.dissimilarities, dtype=float)
        if got.shape != want.shape or not np.array_equal(np.isnan(got), np.isnan(want)):
            raise MaskSourceMismatch('mask/bootstrap_sample_pattern/nan-pattern',
                                     {'draw': draw, 'got': got, 'spec_masks': masks})
        if not np.allclose(np.nan_to_num(got, nan=-1.0), np.nan_to_num(want, nan=-1.0), atol=0):
            raise MaskSourceMismatch('mask/bootstrap_sample_pattern/values', {'draw': draw, 'got': got, 'want': want})
        return ob, want
    if src == 'part':
        subsets = rec['arg'][0 if side == 'a' else 1] if rec['t'] in ('cmp', 'pool') else rec['arg']
        labs = _labels(nc)
        pr = _pairs(nc)
        parts = []
        for r, P in enumerate(subsets):
            P0 = [p - 1 for p in P]
            sub = [vecs[r][pr.index((P0[i], P0[j]))] for i in range(len(P0)) for j in range(i + 1, len(P0))]
            parts.append(RDMs(np.array([sub], dtype=float), dissimilarity_measure='test',
                              rdm_descriptors={'subj': [f'{side}{r}']},
                              pattern_descriptors={'conds': [labs[p] for p in P0]}))
        ob = from_partials(parts, all_patterns=labs, descriptor='conds')
        got = np.asarray(ob.dissimilarities, dtype=float)
        if got.shape != want.shape or not np.array_equal(np.isnan(got), np.isnan(want)):
            raise MaskSourceMismatch('mask/from_partials/nan-pattern', {'subsets': subsets, 'got': got,
                                                                        'spec_masks': masks})
        if not np.array_equal(np.nan_to_num(got, nan=-1.0), np.nan_to_num(want, nan=-1.0)):
            raise MaskSourceMismatch('mask/from_partials/values', {'subsets': subsets, 'got': got, 'want': want})
        return ob, want
    raise ValueError(src)


class _Timeout(Exception):
    pass


def _alarm(signum, frame):
    raise _Timeout()


def with_timeout(seconds, f, *a, **kw):
    old = signal.signal(signal.SIGALRM, _alarm)
    signal.alarm(seconds)
    try:
        return f(*a, **kw)
    finally:
        signal.alarm(0)
        signal.signal(signal.SIGALRM, old)


# ------------------------------------------------------------------------------------------------
# kernels
# ------------------------------------------------------------------------------------------------
def pool_kernel(kind, X, *, offset=0.0):
    """pool_rdm written on DELETED complete vectors X (R x n): per-RDM normalisation, entry-wise mean"""
    X = np.asarray(X, dtype=float)
    if kind == 'cos':
        X = X / np.sqrt(np.mean(X ** 2, axis=1, keepdims=True))
    elif kind == 'z':
        X = (X - X.mean(axis=1, keepdims=True)) / X.std(axis=1, keepdims=True)
    elif kind == 'rank':
        X = np.array([[np.sum(x < xi) + (np.sum(x == xi) + 1) / 2.0 for xi in x] for x in X])
    p = X.mean(axis=0)
    if kind == 'z':
        p = p - p.min() + offset
    return p


def pool_from_stats(rec, *, offset=0.0):
    """pooled vector from the exact statistics of the specification: mean_r u_r * sqrt(sc_r)"""
    L = len(rec['a'][0])
    acc = np.zeros(L)
    for st in rec['st']:
        acc += np.array(st['u'], dtype=float) * math.sqrt(st['sc'][0] / st['sc'][1])
    p = acc / len(rec['st'])
    miss = [k - 1 for k in rec['miss']]
    p[miss] = NAN
    if rec['kind'] == 'z':
        p = p - np.nanmin(p) + offset
    return p


def gls_kernel(X, y, W=None, nn=False):
    """theta minimising (y - theta X)' W (y - theta X) (theta >= 0 if nn), normalised to length 1;
    nn by exhaustive search over the supports (at most 3 regressors)"""
    X = np.asarray(X, dtype=float)
    y = np.asarray(y, dtype=float)
    W = np.eye(X.shape[1]) if W is None else W
    K = X.shape[0]

    def solve(idx):
        Xs = X[list(idx)]
        th = np.linalg.solve(Xs @ W @ Xs.T, Xs @ W @ y)
        full = np.zeros(K)
        full[list(idx)] = th
        r = y - full @ X
        return full, float(r @ W @ r)
    if not nn:
        th, _ = solve(range(K))
    else:
        best = (np.zeros(K), float(y @ W @ y))
        for n in range(1, K + 1):
            for idx in itertools.combinations(range(K), n):
                try:
                    th_, loss = solve(idx)
                except np.linalg.LinAlgError:
                    continue
                if np.all(th_ >= -1e-12) and loss < best[1] - 1e-12:
                    best = (np.maximum(th_, 0), loss)
        th = best[0]
    n2 = float(np.sum(th ** 2))
    return (th if n2 == 0 else th / math.sqrt(n2)), math.sqrt(n2)


def vnorm_pool(U, V, centred, offset=0.01):
    """util/pooling.py for the whitened methods on DELETED vectors U (R x n): each (centred) vector is
    divided by sqrt(u' V^-1 u), the entry-wise mean is taken (corr_cov: minus its minimum plus 0.01)"""
    U = np.asarray(U, dtype=float)
    if centred:
        U = U - U.mean(axis=1, keepdims=True)
    Vi = np.linalg.inv(np.asarray(V, dtype=float))
    nrm = np.sqrt(np.einsum('ri,ij,rj->r', U, Vi, U))
    p = (U / nrm[:, None]).mean(axis=0)
    if centred:
        p = p - p.min() + offset
    return p


# ------------------------------------------------------------------------------------------------
# compare records
# ------------------------------------------------------------------------------------------------
CMP_FLAVOURS = (('rdms', 'rdms'), ('ndarray', 'ndarray'), ('rdms', 'ndarray'), ('ndarray', 'rdms'))
ERR_KEYS = {'between_eq': 'c/compare/equal-count-different-positions',
            'between_ne': 'c/compare/different-counts-not-rejected',
            'within': 'c/compare/within-stack-different-positions'}
FIT_ERR_KEYS = {'between_eq': 'equal-count-different-positions', 'between_ne': 'different-counts-not-rejected'}


def _arg(ob, flavour):
    return ob if flavour == 'rdms' else np.asarray(ob.dissimilarities, dtype=float).copy()


def expected_cmp(rec):
    m = rec['m']
    V = rec['V'] if m in COV_METHODS else None
    return [[value_from_stat(m, st, V) for st in row] for row in rec['res']]


def _tol(m, sid):
    if m == 'tau-a':
        return 0.0
    if m == 'rho-a':
        return ATOL_RHO
    # conjugate gradients (rtol 1e-5 of scipy) whenever V is not handled in closed form: a matrix, and a
    # non-constant variance vector once it is routed through the definition
    if m in COV_METHODS and sigma_cls(sid) in ('matrix', 'vector'):
        return ATOL_CG
    return ATOL_CLOSED


def _close(g, e, tol, m):
    if isinstance(e, Fraction):
        if m == 'tau-a':
            return g == e.numerator / e.denominator
        return abs(g - float(e)) <= tol
    return abs(g - e) <= tol


def check_cmp(rec, variant, nc):
    """-> (evaluations, [(key, what, case)], unsupported, nontrivial)"""
    out = []
    m, sid, cls = rec['m'], rec['s'], rec['cls']
    sigma = sigma_of(sid, nc) if m in COV_METHODS else None
    case = {'record': {k: rec[k] for k in ('cls', 'm', 's', 'src', 'arg', 'a', 'b', 'ma', 'mb')}}
    try:
        A, wa = build_stack(rec, 'a', nc)
        B, wb = build_stack(rec, 'b', nc)
    except MaskSourceMismatch as e:
        return 1, [(e.key, 'the mask produced by the real resampling / embedding step is not the mask of '
                    'the specification', {**case, 'detail': e.detail})], 0, True
    fl = CMP_FLAVOURS[variant % 4]
    case['flavour'] = fl
    kw = {'sigma_k': sigma} if m in COV_METHODS else {}
    n = 1
    try:
        got = np.asarray(rsa_compare(_arg(A, fl[0]), _arg(B, fl[1]), method=m, **kw), dtype=float)
        raised = None
    except Exception as e:  # noqa: BLE001 - the kind of error is part of the verdict
        got, raised = None, e
    if rec['err']:
        if raised is None:
            out.append((ERR_KEYS[cls], f'compare returned a value for RDMs whose missing entries differ ({cls}); '
                        'the only allowed outcome is an error', {**case, 'returned': got}))
    else:
        sc = sigma_cls(sid)
        pre = f'a/compare/{m}' + (f'/sigma={sc}' if m in COV_METHODS else '')
        if raised is not None:
            out.append((f'{pre}/raises/{type(raised).__name__}',
                        f'compare raises on RDMs with a common mask: {raised!r}', case))
        else:
            exp = expected_cmp(rec)
            if m in COV_METHODS:      # the catalogue of this file against the exact block TLC printed
                if not np.array_equal(v_block(nc, sigma, rec['ma'][0]), np.array(rec['V'], dtype=float)):
                    raise KernelMismatch(f'V block of sigma {sid} differs from the specification: {rec["V"]}')
            if got.shape != (len(rec['a']), len(rec['b'])):
                out.append((f'{pre}/shape', f'result has shape {got.shape}', case))
            else:
                tol = _tol(m, sid)
                bad = [(i, j, float(got[i, j]), float(exp[i][j])) for i in range(got.shape[0])
                       for j in range(got.shape[1]) if not _close(float(got[i, j]), exp[i][j], tol, m)]
                # without a missing entry nothing is deleted: the value itself is property C03's subject
                # (its known deviation for a variance vector is not re-reported here)
                if bad and not (cls == 'none' and sc == 'vector'):
                    out.append((f'{pre}/value', 'compare on masked RDMs differs from the measure on the '
                                'entry-deleted vectors (V sub-block for whitened measures)',
                                {**case, 'got': got, 'expected': [[float(x) for x in r] for r in exp],
                                 'first': bad[0]}))
                # metamorphic pair: the same public function on plain arrays with the entries deleted
                if m not in COV_METHODS:
                    n += 1
                    da, db = deleted(rec['a'], rec['ma'][0]), deleted(rec['b'], rec['mb'][0])
                    try:
                        ref = np.asarray(rsa_compare(da, db, method=m), dtype=float)
                        if ref.shape != got.shape or not np.allclose(ref, got, rtol=0, atol=ATOL_META):
                            out.append((f'{pre}/differs-from-deleted', 'compare(masked) != compare(entries deleted)',
                                        {**case, 'masked': got, 'deleted': ref}))
                    except Exception as e:  # noqa: BLE001
                        out.append((f'{pre}/deleted-side-raises/{type(e).__name__}', repr(e), case))
    # regression fits on the same family: basis = stack a, data = stack b
    # (the fitters document sigma_k as a matrix: a variance vector is not an input class of theirs)
    if m in FIT_METHODS and rec.get('src', 'free') != 'part' and _nc_from_len(len(rec['a'][0])) is not None \
            and not (m in COV_METHODS and sigma_cls(sid).startswith('vector')):
        k, vio = check_fit(rec, A, B, sigma, nc, case)
        n += k
        out += vio
    return n, out, 0, cls != 'none'


def check_fit(rec, A, B, sigma, nc, case):
    """fit_regress / fit_regress_nn with the basis RDMs of stack a and the data of stack b"""
    m, sid, cls = rec['m'], rec['s'], rec['cls']
    out = []
    n = 0
    if cls == 'within':
        return 0, out                       # pooled data with differing masks: not a regression input class
    kw = {'sigma_k': sigma} if m in COV_METHODS else {}
    kind = 'cos' if m.startswith('cosine') else 'z'
    for fname, f in (('fit_regress', fit_regress), ('fit_regress_nn', fit_regress_nn)):
        model = ModelWeighted('w', A)
        if rec['err']:
            n += 1
            try:
                th = with_timeout(20, f, model, B, method=m, **kw)
                out.append((f'c/{fname}/{FIT_ERR_KEYS[cls]}',
                            f'{fname} fits basis RDMs and data whose missing entries differ ({cls}) instead of '
                            'raising', {**case, 'theta': th}))
            except _Timeout:
                pass
            except Exception:  # noqa: BLE001
                pass
            continue
        mask = rec['ma'][0]
        X = deleted(rec['a'], mask)
        D = deleted(rec['b'], mask)
        # the fitters pool the data with util/pooling.py:pool_rdm(data, method, sigma_k): each training RDM is
        # normalised under V(sigma_k) (since the repository fix "regression fitters pool ... sigma_k"; pooling under
        # the default V was the defect C08/a/fit_regress/*_cov/sigma_k-given/multi-rdm)
        if m in COV_METHODS:
            y = vnorm_pool(D, v_block(nc, sigma, mask), kind == 'z')
        else:
            y = pool_kernel(kind, D)
        if not np.all(np.isfinite(y)) or (kind == 'z' and np.ptp(y) < 1e-9):
            continue                         # pooled data constant: nothing to regress on (counted by the caller)
        Xk = X - X.mean(axis=1, keepdims=True) if kind == 'z' else X
        yk = y - y.mean() if m == 'corr_cov' else y
        W = None
        if m in COV_METHODS:
            W = np.linalg.inv(v_block(nc, sigma, mask))
        G = Xk @ (np.eye(Xk.shape[1]) if W is None else W) @ Xk.T
        if np.linalg.cond(G) > 1e8 or Xk.shape[1] <= Xk.shape[0]:
            continue                         # collinear basis after deletion: theta not identified (counted)
        exp, raw_norm = gls_kernel(Xk, yk, W, nn=fname.endswith('nn'))
        if raw_norm < 1e-9 * max(1.0, float(np.linalg.norm(yk))):
            continue                         # theta = 0 exactly: its normalisation is rounding noise
        pre = f'b/{fname}/{m}'
        n += 1
        try:
            th = np.asarray(with_timeout(60, f, model, B, method=m, **kw), dtype=float)
        except _Timeout:
            continue                         # machine overloaded: not a verdict
        except Exception as e:  # noqa: BLE001
            out.append((f'{pre}/raises/{type(e).__name__}', repr(e), case))
            continue
        if th.shape != exp.shape or not np.allclose(th, exp, rtol=0, atol=ATOL_FIT):
            out.append((f'{pre}/value', f'{fname} on masked RDMs differs from the generalised least squares '
                        'solution on the entry-deleted vectors', {**case, 'theta': th, 'expected': exp}))
        if m not in COV_METHODS:
            n += 1
            try:
                ref = np.asarray(f(ModelWeighted('w', plain_rdms(X)), plain_rdms(D), method=m), dtype=float)
                if not np.allclose(ref, th, rtol=0, atol=1e-9):
                    out.append((f'{pre}/differs-from-deleted', f'{fname}(masked) != {fname}(entries deleted)',
                                {**case, 'masked': th, 'deleted': ref}))
            except Exception as e:  # noqa: BLE001
                out.append((f'{pre}/deleted-side-raises/{type(e).__name__}', repr(e), case))
    return n, out


# ------------------------------------------------------------------------------------------------
# pool records (pool_rdm of both modules, boot_noise_ceiling)
# ------------------------------------------------------------------------------------------------
NC_METHODS = ('cosine', 'corr', 'spearman', 'kendall', 'tau-a', 'rho-a')


def check_pool(rec, variant, nc):
    out = []
    m, cls, kind = rec['m'], rec['cls'], rec['kind']
    L = len(rec['a'][0])
    case = {'record': {k: rec[k] for k in ('cls', 'm', 'src', 'arg', 'a', 'ma', 'kind')}}
    rec = dict(rec, mb=[], b=[], b0=[])
    try:
        A, want = build_stack(rec, 'a', nc)
    except MaskSourceMismatch as e:
        return 1, [(e.key, 'the mask produced by the real resampling / embedding step is not the mask of '
                    'the specification', {**case, 'detail': e.detail})], 0, True
    # the kernel against the exact rationals of the specification
    exp = pool_from_stats(rec)
    if rec['exact']:
        ex = np.array([NAN if q == [0, 0] else q[0] / q[1] for q in rec['exact']])
        if not np.allclose(np.nan_to_num(ex, nan=-7.0), np.nan_to_num(exp, nan=-7.0), rtol=0, atol=1e-12):
            raise KernelMismatch(f'pool kernel {exp} != exact {rec["exact"]}')
    n = 0
    sites = [('inference_util', inference_util.pool_rdm, 0.0)]
    aligned = cls in ('none', 'common')
    if m not in ('neg_riem_dist', 'cosine_cov', 'corr_cov') or (aligned and rec.get('V')):
        sites.append(('pooling', util_pooling.pool_rdm, 0.01))
    for site, f, off in sites:
        pre = f'b/pool_rdm/{site}/{kind}' + ('-whitened' if site == 'pooling' and m in COV_METHODS else '')
        n += 1
        if site == 'pooling' and m in COV_METHODS:
            keep_ = [k for k in range(L) if (k + 1) not in set(rec['miss'])]
            U = np.array([st['u'] for st in rec['st']], dtype=float)[:, keep_]
            e_ = np.full(L, NAN)
            e_[keep_] = vnorm_pool(U, rec['V'], kind == 'z')
        else:
            e_ = pool_from_stats(rec, offset=off)
        try:
            got = np.asarray(f(A, method=m).dissimilarities, dtype=float)
        except Exception as e:  # noqa: BLE001
            if aligned:
                out.append((f'{pre}/raises/{type(e).__name__}', repr(e), case))
            continue
        if got.shape != (1, L):
            out.append((f'{pre}/shape', str(got.shape), case))
            continue
        got = got[0]
        if not same_nan(got, rec['miss'], L):
            out.append((f'{pre}/nan-pattern' + ('' if aligned else '/differing-masks'),
                        'pooled RDM is not missing exactly where an input is missing',
                        {**case, 'got': got, 'missing': rec['miss']}))
            continue
        if not np.allclose(np.nan_to_num(got), np.nan_to_num(e_), rtol=1e-12, atol=1e-12):
            out.append((f'{pre}/value' + ('' if aligned else '/differing-masks'),
                        'pooled RDM differs from the pooling of the kept entries', {**case, 'got': got, 'expected': e_}))
        if aligned and not (site == 'pooling' and m in COV_METHODS):   # (V needs a triangular length)
            n += 1
            keep = [k for k in range(L) if (k + 1) not in set(rec['miss'])]
            try:
                ref = np.asarray(f(plain_rdms(deleted(rec['a'], rec['miss'])), method=m).dissimilarities)[0]
                if not np.allclose(ref, got[keep], rtol=0, atol=ATOL_META):
                    out.append((f'{pre}/differs-from-deleted', 'pool_rdm(masked) != pool_rdm(entries deleted)',
                                {**case, 'masked': got, 'deleted': ref}))
            except Exception as e:  # noqa: BLE001
                out.append((f'{pre}/deleted-side-raises/{type(e).__name__}', repr(e), case))
    # noise ceiling by leave-one-out pooling on the same stack
    if aligned and m in NC_METHODS and len(rec['a']) >= 2:
        D = deleted(rec['a'], rec['miss'])
        R = len(D)
        lo, hi, ok = [], [], True
        allp = pool_kernel(kind, D)
        for r in range(R):
            tr = pool_kernel(kind, np.delete(D, r, axis=0))
            for p, acc in ((tr, lo), (allp, hi)):
                if (m in ('cosine',) and not np.any(p)) or (m in ('corr', 'spearman', 'kendall') and np.ptp(p) < 1e-9):
                    ok = False
                else:
                    acc.append(array_kernel(m, p, D[r]))
        if ok:
            n += 1
            pre = f'b/boot_noise_ceiling/{m}'
            try:
                got = tuple(float(x) for x in boot_noise_ceiling(A, method=m))
                exp_nc = (float(np.mean(lo)), float(np.mean(hi)))
                if not np.allclose(got, exp_nc, rtol=0, atol=1e-9):
                    out.append((f'{pre}/value', 'noise ceiling on masked RDMs differs from the one on the kept entries',
                                {**case, 'got': got, 'expected': exp_nc}))
                n += 1
                ref = tuple(float(x) for x in boot_noise_ceiling(plain_rdms(D), method=m))
                if not np.allclose(got, ref, rtol=0, atol=ATOL_META):
                    out.append((f'{pre}/differs-from-deleted', 'boot_noise_ceiling(masked) != (entries deleted)',
                                {**case, 'masked': got, 'deleted': ref}))
            except Exception as e:  # noqa: BLE001
                out.append((f'{pre}/raises/{type(e).__name__}', repr(e), case))
    return n, out, 0, cls != 'none'


# ------------------------------------------------------------------------------------------------
# mean records
# ------------------------------------------------------------------------------------------------
def check_mean(rec, variant, nc):
    out = []
    L = len(rec['a'][0])
    R = len(rec['a'])
    any_missing = any(rec['ma'])
    case = {'record': {k: rec[k] for k in ('wk', 'wid', 'w', 'src', 'arg', 'a', 'ma')}}
    rec = dict(rec, t='mean')
    try:
        A, want = build_stack(rec, 'a', nc)
    except MaskSourceMismatch as e:
        return 1, [(e.key, 'from_partials does not produce the mask of the specification',
                    {**case, 'detail': e.detail})], 0, True
    exp = np.array([NAN if q == [0, 0] else q[0] / q[1] for q in rec['mean']])
    W = np.array(rec['w'], dtype=float)
    calls = []
    if rec['wk'] == 'none':
        calls.append(('none', lambda ob: ob.mean()))
    elif rec['wk'] == 'rdm':
        def by_name(ob):
            ob.rdm_descriptors['wts'] = [float(x) for x in W[:, 0]]
            return ob.mean('wts')
        calls.append(('descriptor', by_name))
        calls.append(('array', lambda ob: ob.mean(W)))
    else:
        calls.append(('array', lambda ob: ob.mean(W)))
    n = 0
    for wname, f in calls:
        n += 1
        pre = f'd/mean/weights={wname}' + ('' if wname == 'descriptor' else '/missing' if any_missing else '/complete')
        W0 = W.copy()
        try:
            res = f(copy.deepcopy(A))
            got = np.asarray(res.dissimilarities, dtype=float)
        except Exception as e:  # noqa: BLE001
            out.append((f'{pre}/raises/{type(e).__name__}', f'RDMs.mean raises: {e!r}', {**case, 'weights': wname}))
            continue
        if _fp(W) != _fp(W0):
            out.append((f'd/mean/weights={wname}/argument-modified', 'RDMs.mean changed the weights array it was given',
                        {**case, 'weights': wname, 'after': W.copy()}))
            W[:] = W0
        if got.shape != (1, L):
            out.append((f'{pre}/shape', str(got.shape), {**case, 'weights': wname}))
            continue
        got = got[0]
        if not np.array_equal(np.isnan(got), np.isnan(exp)) \
                or not np.allclose(np.nan_to_num(got), np.nan_to_num(exp), rtol=1e-12, atol=1e-12):
            out.append((f'{pre}/value', 'weighted mean differs from sum(w x) / sum(w) over the RDMs that have the entry '
                        '(NaN exactly where no RDM has it)', {**case, 'weights': wname, 'got': got, 'expected': exp}))
    # rescale post-conditions on the same (non-proportional) stack
    k, vio = rescale_postconditions(A, want, None, case, variant)
    return n + k, out + vio, 0, any_missing or rec['wk'] != 'none'


def _fp(x):
    """fingerprint of a weights argument (values incl. NaN positions, dtype, shape)"""
    a = np.asarray(x)
    return (a.dtype.str, a.shape, a.tobytes())


def check_mean2(rec, variant, nc):
    """a session of two RDMs.mean calls that share ONE weights object: the first stack, then the second;
    both values from the definition, and the weights object must come out of every call as it went in"""
    out = []
    L = len(rec['a'][0])
    case = {'record': {k: rec[k] for k in ('wk', 'wid', 'w', 'a', 'ma', 'a2', 'ma2')}}
    A1 = full_rdms(masked(rec['a'], rec['ma']), nc, 'a') if _nc_from_len(L) else plain_rdms(masked(rec['a'], rec['ma']))
    A2 = full_rdms(masked(rec['a2'], rec['ma2']), nc, 'b') if _nc_from_len(L) else plain_rdms(masked(rec['a2'], rec['ma2']))
    exp = [np.array([NAN if q == [0, 0] else q[0] / q[1] for q in rec[k]]) for k in ('mean', 'mean2')]
    Wm = np.array(rec['w'], dtype=float)
    sessions = []
    # (name, the shared object, how a call hands it over)
    sessions.append(('array', Wm.copy(), lambda ob, W: ob.mean(W)))

    def by_name(ob, W):
        ob.rdm_descriptors['wts'] = W             # the SAME object sits in the descriptors of both stacks
        return ob.mean('wts')
    sessions.append(('descriptor-array', Wm.copy(), by_name))
    if rec['wk'] == 'rdm':
        sessions.append(('array-1d', Wm[:, 0].copy(), lambda ob, W: ob.mean(W)))
        sessions.append(('descriptor', [float(x) for x in Wm[:, 0]], by_name))
    n = 0
    for wname, W, call in sessions[variant % 2::2] if len(sessions) > 2 else sessions:
        orig = _fp(W)
        for step, (ob, e) in enumerate(((A1, exp[0]), (A2, exp[1]))):
            n += 1
            pre = f'd/mean/session/weights={wname}/call{step + 1}'
            try:
                got = np.asarray(call(ob, W).dissimilarities, dtype=float)[0]
            except Exception as ex:  # noqa: BLE001
                out.append((f'{pre}/raises/{type(ex).__name__}', repr(ex), {**case, 'weights': wname}))
                break
            if _fp(W) != orig:
                out.append((f'd/mean/weights={wname}/argument-modified',
                            'RDMs.mean changed the weights object it was given (the next use of the same weights is '
                            'no longer the weights the caller chose)', {**case, 'weights': wname, 'after': np.asarray(W)}))
            if got.shape != e.shape or not np.array_equal(np.isnan(got), np.isnan(e)) \
                    or not np.allclose(np.nan_to_num(got), np.nan_to_num(e), rtol=1e-12, atol=1e-12):
                out.append((f'{pre}/value', 'weighted mean in a session that re-uses one weights object differs from '
                            'sum(w x) / sum(w) with the weights the caller supplied',
                            {**case, 'weights': wname, 'got': got, 'expected': e}))
    return n, out, 0, any(rec['ma']) and rec['ma'] != rec['ma2']


# ------------------------------------------------------------------------------------------------
# rescale: post-conditions only
# ------------------------------------------------------------------------------------------------
def rescale_postconditions(A, want, conn, case, variant, methods=None, threshold=None, limit=20):
    out = []
    n = 0
    R, L = want.shape
    nanpat = np.isnan(want)
    if np.any(np.nansum(np.abs(want), axis=1) == 0):
        return 0, [('degenerate', 'an RDM without a non-zero entry cannot be scaled (0/0)', case)]
    for meth in (methods or (RESCALE_METHODS[variant % 3],)):
        n += 1
        pre = f'e/rescale/{meth}'
        try:
            kw = {} if threshold is None else {'threshold': threshold}
            res = with_timeout(limit, rescale, A, meth, **kw)
        except _Timeout:
            # (documented: "the algorithm may not always converge"; counted, never a verdict)
            return n - 1, out + [('unsupported', f'rescale did not converge within {limit} s', case)]
        except Exception as e:  # noqa: BLE001
            out.append((f'{pre}/raises/{type(e).__name__}', repr(e), case))
            continue
        got = np.asarray(res.dissimilarities, dtype=float)
        c = {**case, 'method': meth, 'out': got}
        if got.shape != want.shape or not np.array_equal(np.isnan(got), nanpat):
            out.append((f'{pre}/nan-pattern', 'rescale changes which entries are missing', c))
            continue
        consts = []
        okc = True
        for r in range(R):
            nz = (~nanpat[r]) & (want[r] != 0)
            ratio = got[r, nz] / want[r, nz]
            zero_ok = np.all(got[r, (~nanpat[r]) & (want[r] == 0)] == 0)
            if ratio.size and np.ptp(ratio) > 1e-9 * abs(ratio[0]) or not zero_ok or not np.all(np.isfinite(ratio)):
                okc = 'not-a-constant-multiple'
            elif ratio.size and not ratio[0] > 0 and okc is True:
                okc = 'non-positive-constant'
            consts.append(float(ratio[0]) if ratio.size else NAN)
        if okc is not True:
            out.append((f'{pre}/' + okc, 'an output RDM is not one POSITIVE constant times its input',
                        {**c, 'ratios': consts}))
            continue
        w = res.rdm_descriptors.get('rescalingWeights')
        if w is None or np.asarray(w, dtype=float).shape != want.shape \
                or not np.array_equal(np.isnan(np.asarray(w, dtype=float)), nanpat):
            out.append((f'{pre}/weights-descriptor', 'rescalingWeights is missing or does not carry the NaN pattern', c))
        if conn:
            scale = np.nanmax(np.abs(got))
            dev = 0.0
            for k in range(L):
                col = got[~nanpat[:, k], k]
                if col.size >= 2:
                    dev = max(dev, float(np.ptp(col)))
            if dev > RESCALE_TOL * scale:
                out.append((f'{pre}/no-common-scale', 'mutually proportional partial RDMs with connected overlap are '
                            f'not brought to a common scale (deviation {dev:.3g} of {scale:.3g})', c))
    return n, out


def check_resc(rec, variant, nc):
    case = {'record': {k: rec[k] for k in ('fam', 'neg', 'anti', 'base', 'f', 'exp', 'src', 'arg', 'a', 'ma', 'conn')}}
    rec = dict(rec, t='resc')
    prop = rec['fam'] == 'prop'
    try:
        A, want = build_stack(rec, 'a', nc)
    except MaskSourceMismatch as e:
        return 1, [(e.key, 'from_partials does not produce the mask of the specification',
                    {**case, 'detail': e.detail})], 0, True
    # the unit every RDM is measured in (decimal exponent chosen by the specification): proportionality, and with
    # it every post-condition, does not depend on it
    if any(rec['exp']):
        unit = np.array([10.0 ** e for e in rec['exp']])[:, None]
        want = want * unit
        A = RDMs(np.asarray(A.dissimilarities, dtype=float) * unit, dissimilarity_measure=A.dissimilarity_measure,
                 descriptors=A.descriptors, rdm_descriptors=A.rdm_descriptors, pattern_descriptors=A.pattern_descriptors)
    # the common scale is demanded of mutually proportional families only; sign and NaN pattern of every family
    n, out = rescale_postconditions(A, want, rec['conn'] and prop, case, variant, methods=RESCALE_METHODS,
                                    threshold=RESCALE_THRESHOLD if prop else None, limit=20 if prop else 4)
    return n, out, 0, (bool(rec['conn']) and len(rec['a']) >= 2 and any(rec['ma'])) or (bool(rec['anti']) and n == 3)


PART_LABELS = {'str': lambda c: 'abcdefgh'[c - 1], 'int': lambda c: {1: 9, 2: 10, 3: 2, 4: 100}.get(c, 1000 + c)}


def check_partials(rec, variant, nc):
    """from_partials on token-valued partial RDMs that list their patterns in their own order, combined list explicit
    (any order) or the union in order of first appearance: every value must sit at the pair it names"""
    lab = PART_LABELS[('str', 'int')[variant % 2]]
    case = {'record': {k: rec[k] for k in ('ords', 'allp', 'parts', 'lst')}, 'labels': ('str', 'int')[variant % 2]}
    parts = []
    for r, (o, v) in enumerate(zip(rec['ords'], rec['parts'])):
        pd = [lab(c) for c in o]
        parts.append(RDMs(np.array([v], dtype=float), dissimilarity_measure='tok', rdm_descriptors={'subj': [f's{r}']},
                          pattern_descriptors={'conds': pd if variant % 4 < 2 else np.array(pd)}))
    kw = {'all_patterns': [lab(c) for c in rec['allp']]} if rec['allp'] else {}
    try:
        ob = from_partials(parts, descriptor='conds', **kw)
    except Exception as e:  # noqa: BLE001
        return 1, [(f'mask/from_partials/raises/{type(e).__name__}', repr(e), case)], 0, True
    out = []
    got_list = list(np.asarray(ob.pattern_descriptors['conds']).tolist())
    want_list = [lab(c) for c in rec['lst']]
    if got_list != want_list:
        out.append(('mask/from_partials/pattern-list', 'the combined pattern list is not the explicit list / the union in '
                    'order of first appearance', {**case, 'got': got_list, 'expected': want_list}))
    got = np.asarray(ob.dissimilarities, dtype=float)
    want = masked(rec['vecs'], rec['miss'])
    if got.shape != want.shape or not np.array_equal(np.isnan(got), np.isnan(want)):
        out.append(('mask/from_partials/nan-pattern', 'entries are missing at other pairs than the pairs outside the '
                    'pattern set of the partial RDM', {**case, 'got': got, 'expected': want}))
    elif not np.array_equal(np.nan_to_num(got, nan=-1.0), np.nan_to_num(want, nan=-1.0)):
        out.append(('mask/from_partials/values', 'a dissimilarity sits at another pattern pair than the one it belongs to '
                    '(token 10*p+q names the pair)', {**case, 'got': got, 'expected': want}))
    permuted = any(list(o) != sorted(o) for o in rec['ords']) or (rec['allp'] and rec['allp'] != sorted(rec['allp']))
    return 1, out, 0, bool(permuted)


CHECKERS = {'cmp': check_cmp, 'pool': check_pool, 'mean': check_mean, 'mean2': check_mean2, 'resc': check_resc,
            'partials': check_partials}


def replay_chunk(args):
    """worker: replay a chunk of emitted JSON lines -> counters and violations"""
    import json
    import warnings
    warnings.filterwarnings('ignore')
    base, lines, nc = args
    n_eval = n_rec = n_nontriv = 0
    vio, unsupported = [], 0
    classes = {}
    for j, line in enumerate(lines):
        rec = json.loads(line)
        try:
            n, out, _, nontriv = CHECKERS[rec['t']](rec, base + j, nc)
        except KernelMismatch as e:
            return {'kernel': str(e)}
        except DrawMismatch as e:
            return {'kernel': f'bootstrap draw could not be forced: {e}'}
        n_rec += 1
        n_eval += n
        n_nontriv += bool(nontriv)
        c = rec.get('cls', rec['t'])
        if rec['t'] == 'resc':
            c = 'resc/' + rec['fam'] + ('/units' if any(rec['exp']) else '') + ('/anti' if rec['anti'] else '') + ('/neg' if rec['neg'] else '') \
                + ('' if n == 3 else '/not-converged')
        classes[c] = classes.get(c, 0) + 1
        for key, what, case in out:
            if key == 'degenerate':
                continue
            if key == 'unsupported':
                unsupported += 1
            else:
                vio.append((key, what, case))
    return {'n_rec': n_rec, 'n_eval': n_eval, 'nontriv': n_nontriv, 'vio': vio, 'unsupported': unsupported,
            'classes': classes}


# ------------------------------------------------------------------------------------------------
# implementation -> specification: recorded sessions
# ------------------------------------------------------------------------------------------------
def _mask_of(v):
    return [[int(k) + 1 for k in np.nonzero(np.isnan(row))[0]] for row in v]


def _ints(v):
    return [[0 if np.isnan(x) else int(round(x)) for x in row] for row in v]


def _vectors(x):
    if isinstance(x, np.ndarray):
        return np.atleast_2d(np.asarray(x, dtype=float))
    return np.asarray(x.get_vectors(), dtype=float)


def _event(m, a, b, got, err, sg=None):
    ma, mb = _mask_of(a), _mask_of(b)
    ev = {'m': m, 'a': _ints(a), 'b': _ints(b), 'ma': ma, 'mb': mb, 'err': bool(err),
          'sg': sg or {'kind': 'none', 'v': [], 'm': []}, 'out': [], 'raw': []}
    if not err:
        kept = a.shape[1] - len(ma[0])
        ev['out'] = encode_out(m, np.asarray(got, dtype=float), kept)
        ev['raw'] = np.asarray(got, dtype=float).tolist()
    return ev


def _admissible(m, x):
    x = x[~np.isnan(x)]
    if x.size < 2:
        return False
    if m in ('cosine', 'cosine_cov'):
        return bool(np.any(x))
    if m in ('corr', 'corr_cov', 'spearman', 'kendall'):
        return np.ptp(x) > 0
    return True


def record_session(seed, nc):
    """one session: (1) a real eval_bootstrap_pattern run on integer model / data RDMs with the name
    rsatoolbox.inference.evaluate.compare wrapped; (2) direct compare calls on masked integer stacks
    with common and with differing masks.  Returns (events, skipped_degenerate)."""
    import rsatoolbox.inference.evaluate as ev_mod
    rng = np.random.default_rng(seed)
    L = nc * (nc - 1) // 2
    events, skipped = [], 0
    methods = [m for m in CMP_METHODS if m not in COV_METHODS]
    m = methods[int(rng.integers(0, len(methods)))]
    data = full_rdms(rng.integers(0, 7, (int(rng.integers(2, 4)), L)), nc, 'd')
    models = [ModelFixed(f'm{i}', full_rdms(rng.integers(0, 7, (1, L)), nc, f'm{i}')) for i in range(2)]
    real = ev_mod.compare
    seen = []

    def spy(r1, r2, method='cosine', sigma_k=None):
        a, b = _vectors(r1), _vectors(r2)
        try:
            got = real(r1, r2, method) if sigma_k is None else real(r1, r2, method, sigma_k)
        except Exception:
            seen.append((method, a, b, None, True))
            raise
        seen.append((method, a, b, np.asarray(got, dtype=float), False))
        return got
    ev_mod.compare = spy
    state = np.random.get_state()
    try:
        np.random.seed(seed % (2 ** 31))
        rsatoolbox.inference.eval_bootstrap_pattern(models, data, method=m, N=3, boot_noise_ceil=False)
    finally:
        ev_mod.compare = real
        np.random.set_state(state)
    for meth, a, b, got, err in seen:
        if not all(_admissible(meth, x) for x in list(a) + list(b)):
            skipped += 1
            continue
        if not err and not np.all(np.isfinite(got)):
            skipped += 1
            continue
        events.append(_event(meth, a, b, got, err))
    # direct calls
    for _ in range(3):
        meth = CMP_METHODS[int(rng.integers(0, len(CMP_METHODS)))]
        n1, n2 = int(rng.integers(1, 3)), int(rng.integers(1, 3))
        a = rng.integers(0, 6, (n1, L)).astype(float)
        b = rng.integers(0, 6, (n2, L)).astype(float)
        kind = int(rng.integers(0, 4))
        nm = int(rng.integers(1, max(2, L // 3)))
        m1 = rng.choice(L, nm, replace=False)
        masks = [m1] * (n1 + n2)
        if kind == 1:      # equal count, different positions between the stacks
            m2 = rng.choice(L, nm, replace=False)
            masks = [m1] * n1 + [m2] * n2
        elif kind == 2:    # different counts
            masks = [m1] * n1 + [rng.choice(L, nm + 1, replace=False)] * n2
        elif kind == 3:    # no mask
            masks = [np.array([], dtype=int)] * (n1 + n2)
        for r in range(n1):
            a[r, masks[r]] = NAN
        for r in range(n2):
            b[r, masks[n1 + r]] = NAN
        if not all(_admissible(meth, x) for x in list(a) + list(b)):
            skipped += 1
            continue
        sg = {'kind': 'none', 'v': [], 'm': []}
        kw = {}
        if meth in COV_METHODS and int(rng.integers(0, 2)):
            Bm = rng.integers(-1, 2, (nc, nc))
            sg = {'kind': 'mat', 'v': [], 'm': (Bm @ Bm.T + np.eye(nc, dtype=int)).tolist()}
            kw = {'sigma_k': np.array(sg['m'], dtype=float)}
        try:
            got = np.asarray(rsa_compare(a, b, method=meth, **kw), dtype=float)
            if not np.all(np.isfinite(got)):
                skipped += 1
                continue
            events.append(_event(meth, a, b, got, False, sg))
        except Exception:  # noqa: BLE001
            events.append(_event(meth, a, b, None, True, sg))
    return events, skipped


def trace_job(args):
    import warnings
    warnings.filterwarnings('ignore')
    seed, nc = args
    try:
        return seed, nc, record_session(seed, nc), None
    except Exception as e:  # noqa: BLE001
        return seed, nc, ([], 0), repr(e)


def finish_cov_event(ev, acc):
    """whitened call accepted structurally by the trace specification: the kernel applies V^-1"""
    tol = ATOL_CG if ev['sg']['kind'] == 'mat' else ATOL_CLOSED
    bad = []
    for i, row in enumerate(acc['uv']):
        for j, st in enumerate(row):
            e = value_from_stat(ev['m'], st, acc['V'])
            if abs(ev['raw'][i][j] - e) > tol:
                bad.append((i, j, ev['raw'][i][j], e))
    return bad


def corrupt_trace(trace):
    t = copy.deepcopy(trace)
    for ev in t:
        if ev.get('out') and ev['m'] not in COV_METHODS:
            o = ev['out'][0][0]
            o['q'] += 5 if ev['m'] not in RATIONAL_METHODS else 1
            return t
    return None
