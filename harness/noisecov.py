"""Binding of specs/NoiseCov.tla to rsatoolbox.data.noise (property C14).

S -> I   ``check_vector``: one test vector emitted by TLC (input blocks + exact Full = XP/dof) is
         turned into numpy arrays / Dataset objects in a *flavour* (dtype, dof container, label
         kind), every applicable public estimator is called with all four methods and
         * 'full' / 'diag' are compared exactly (rtol 1e-10; 1e-6 for float32 data),
         * the two shrinkage methods are checked by RELATION only: one intensity l is recovered
           from the best conditioned entry, l in [0,1], EVERY entry equals l*T + (1-l)*Full,
           symmetric, eigvalsh >= -1e-12*scale, positive definite when l > 0 and T is,
         * measurement-based vs unbalanced estimator on balanced designs,
         * list results: one matrix per element with that element's dof,
         * inputs fingerprinted before/after,
         * prec_from_* @ cov_from_* = I with a tolerance tied to the condition number.
I -> S   ``record_trace``: numpy-generated larger integer designs, outputs logged as scaled
         integers and validated by specs/Trace_NoiseCov.tla.

Only this file knows how rsatoolbox is called.
"""
from __future__ import annotations

import hashlib
from fractions import Fraction
from math import gcd

import numpy as np

METHODS = ['full', 'diag', 'shrinkage_eye', 'shrinkage_diag']
FORMCLASS = {1: 'matrix', 2: 'list', 3: 'array3d', 4: 'dataset', 5: 'dataset-list'}
DOFCLASS = {0: 'dof-none', 1: 'dof-scalar', 2: 'dof-list'}
DTYPES = ['float64', 'float32', 'int64', 'float64']
LAB_INT = [7, 3, 9, 1, 5, 8, 2]
LAB_STR = ['c7', 'a3', 'z9', 'b1', 'm5', 'q8', 'd2']
EPS = float(np.finfo(np.float64).eps)


# scale flavours (float64 data only): the same integer design multiplied by a physical unit factor.
# The property is scale-equivariant, cov(c x) = c^2 cov(x): every returned matrix is divided by c^2
# and then judged exactly as the unit-scale one (relative tolerances in the units of the design).
SCALES = [1.0, 1e-9, 1.0, 1e-12, 1.0, 1e6]


# channel-scale flavour (float64, P >= 2): channel j is multiplied by CH_EXP[j % 2] = 2**7 or 2**-42
# (standard deviations 5.6e14 apart, covariance eigenvalue ratio ~3e29: "Tesla next to arbitrary
# units").  Powers of two keep all arithmetic exactly equivariant: Full' = D Full D, Diag' likewise,
# shrinkage_diag' = D out D (its relation is equivariant under channel scaling); shrinkage_eye is
# judged in raw units against Full'.  The precision clause is judged per entry relative to the
# channel scales (equilibrated by the covariance's own diagonal).
CH_EXP = (7, -42)


def flavour(i):
    dt = DTYPES[i % 4]
    if dt == 'int64' and (i // 4) % 2:
        dt = 'int32'
    return {'dtype': dt, 'dofcont': ('list', 'array', 'tuple')[(i // 4) % 3],
            'labkind': ('int', 'str')[(i // 2) % 2], 'desccont': ('list', 'array')[(i // 3) % 2],
            'scale': SCALES[(i // 4) % 6] if dt == 'float64' else 1.0,
            'chscale': bool(dt == 'float64' and (i // 4) % 6 == 2)}


def channel_factors(P, fl):
    if not fl.get('chscale') or P < 2:
        return None
    return np.array([2.0 ** CH_EXP[j % 2] for j in range(P)])


def _api():
    from rsatoolbox.data import noise
    from rsatoolbox.data import Dataset
    return noise, Dataset


# ------------------------------------------------------------------ inputs
def build_input(vec, fl):
    """the real argument objects for the vector: (data, dof)"""
    _, Dataset = _api()
    dt = np.dtype(fl['dtype'])
    arrs = [np.array(b['x'], dtype=dt).reshape(len(b['x']), vec['P']) for b in vec['blocks']]
    c = float(fl.get('scale', 1.0))
    if c != 1.0:
        arrs = [a * c for a in arrs]
    chf = channel_factors(vec['P'], fl)
    if chf is not None:
        arrs = [a * chf[None, :] for a in arrs]
    form = vec['form']
    if form == 1:
        data = arrs[0]
    elif form == 2:
        data = arrs
    elif form == 3:
        data = np.stack(arrs)
    else:
        names = LAB_INT if fl['labkind'] == 'int' else LAB_STR
        dss = []
        for a, b in zip(arrs, vec['blocks']):
            lab = [names[g - 1] for g in b['lab']]
            lab = lab if fl['desccont'] == 'list' else np.array(lab)
            dss.append(Dataset(a, descriptors={'subj': 1}, obs_descriptors={'cond': lab}))
        data = dss[0] if form == 4 else dss
    opt = vec['dofopt']
    if opt == 0:
        dof = None
    elif opt == 1 or form in (1, 4):
        dof = int(vec['dofv'][0])
    else:
        dv = [int(d) for d in vec['dofv']]
        dof = dv if fl['dofcont'] == 'list' else (np.array(dv) if fl['dofcont'] == 'array' else tuple(dv))
    return data, dof


def fingerprint(obj):
    h = hashlib.sha1()

    def upd(o):
        if isinstance(o, np.ndarray):
            h.update(str((o.dtype, o.shape)).encode())
            h.update(np.ascontiguousarray(o).tobytes() if o.dtype != object else repr(o.tolist()).encode())
        elif isinstance(o, (list, tuple)):
            h.update(f'{type(o).__name__}{len(o)}'.encode())
            for x in o:
                upd(x)
        elif isinstance(o, dict):
            for k in sorted(o):
                h.update(str(k).encode())
                upd(o[k])
        elif hasattr(o, 'measurements'):
            upd(o.measurements)
            upd(o.obs_descriptors)
            upd(o.descriptors)
            upd(o.channel_descriptors)
        else:
            h.update(repr(o).encode())
    upd(obj)
    return h.hexdigest()


def expected_full(vec):
    """per block: exact Full as float64 (num/den) and the integer cross-product"""
    out = []
    for k, f in enumerate(vec['full']):
        num = np.array([[e[0] for e in row] for row in f], dtype=np.int64)
        den = np.array([[e[1] for e in row] for row in f], dtype=np.int64)
        out.append((num / den, num, int(vec['dof'][k])))
    return out


def balanced(block):
    lab = block['lab']
    cnt = {g: lab.count(g) for g in set(lab)}
    return len(set(cnt.values())) == 1


def exact_rank(num):
    m = [[Fraction(int(v)) for v in row] for row in num]
    n = len(m)
    r = 0
    for c in range(n):
        p = next((i for i in range(r, n) if m[i][c] != 0), None)
        if p is None:
            continue
        m[r], m[p] = m[p], m[r]
        for i in range(r + 1, n):
            f = m[i][c] / m[r][c]
            if f:
                m[i] = [a - f * b for a, b in zip(m[i], m[r])]
        r += 1
    return r


# ------------------------------------------------------------------ relations
def nan_class(method, num, rows):
    """class of an input on which a shrinkage method may legitimately have no information
    (Full equals its target); used to name non-finite outputs"""
    P = num.shape[0]
    off = num[~np.eye(P, dtype=bool)]
    if not num.any():
        return 'zero-residuals'
    if method == 'shrinkage_diag' and (np.diag(num) == 0).any():
        return 'zero-variance-channel'
    if P == 1:
        return 'single-channel'
    if method == 'shrinkage_eye' and not off.any() and len(set(np.diag(num).tolist())) == 1:
        return 'full-equals-target'
    if method == 'shrinkage_diag' and not off.any():
        return 'full-equals-target'
    return 'other'


def shrink_relation(method, M, F, tol, lam_slack=0.0):
    """Is M = l*T + (1-l)*F for ONE l in [0,1]?  returns (class or None, l or None, detail)"""
    P = F.shape[0]
    scale = max(1.0, float(np.abs(F).max()))
    T = np.eye(P) * (np.trace(F) / P) if method == 'shrinkage_eye' else np.diag(np.diag(F))
    D = F - T
    dmax = float(np.abs(D).max())
    if dmax <= 1e-13 * scale:
        # target equals Full: every l gives Full
        if np.abs(M - F).max() <= tol * scale:
            return None, None, 'lambda-unidentified'
        return 'not-convex-combination', None, {'maxdev': float(np.abs(M - F).max())}
    i, j = np.unravel_index(np.argmax(np.abs(D)), D.shape)
    lam = float((F[i, j] - M[i, j]) / D[i, j])
    tl = 1e-12 + 64 * EPS * scale / dmax + lam_slack
    if not np.isfinite(lam) or lam < -tl or lam > 1 + tl:
        return 'lambda-out-of-range', lam, {'entry': [int(i), int(j)]}
    R = lam * T + (1 - lam) * F
    dev = float(np.abs(M - R).max())
    if dev > tol * scale:
        return 'not-convex-combination', lam, {'maxdev': dev, 'at': [int(x) for x in
                                                                     np.unravel_index(np.argmax(np.abs(M - R)), R.shape)]}
    return None, min(max(lam, 0.0), 1.0), {'T': T}


def _const_scale(M, F, tol):
    """c if M = c*F-like (traces differ by the factor c != 1), else None"""
    tf, tm = float(np.trace(F)), float(np.trace(M))
    if tf > 0 and tm > 0 and abs(tm / tf - 1) > 1e-9:
        return tm / tf
    return None


# ------------------------------------------------------------------ S -> I
class Findings:
    def __init__(self):
        self.viol = []      # (key, what, detail)
        self.unsup = []     # (class, msg)
        self.stats = {}

    def v(self, key, what, detail):
        self.viol.append((key, what, detail))

    def s(self, k, n=1):
        self.stats[k] = self.stats.get(k, 0) + n


def _as_mats(res, K, P, single):
    """normalise a returned value to a list of K (P,P) float arrays, or None"""
    if single:
        if isinstance(res, np.ndarray) and res.shape == (P, P):
            return [res]
        return None
    if isinstance(res, np.ndarray) and res.shape == (K, P, P):
        return [res[k] for k in range(K)]
    if isinstance(res, (list, tuple)) and len(res) == K and \
            all(isinstance(r, np.ndarray) and r.shape == (P, P) for r in res):
        return list(res)
    return None


def _describe(res):
    if isinstance(res, np.ndarray):
        return f'ndarray{res.shape}'
    if isinstance(res, (list, tuple)):
        return f'{type(res).__name__}[{", ".join(_describe(r) for r in res[:3])}{", .." if len(res) > 3 else ""}]'
    return type(res).__name__


def estimators_for(vec):
    form = vec['form']
    if form in (1, 2, 3):
        return ['residuals']
    allbal = all(balanced(b) for b in vec['blocks'])
    return ['unbalanced'] + (['measurements'] if allbal else [])


def call(est, kind, data, dof, method):
    noise, _ = _api()
    fn = getattr(noise, f'{kind}_from_{est}')
    if est == 'residuals':
        return fn(data, dof=dof, method=method)
    return fn(data, 'cond', dof=dof, method=method)


def check_vector(vec, idx):
    """all checks of C14 on one TLC vector; returns Findings"""
    fd = Findings()
    fl = flavour(idx)
    form, P, K = vec['form'], vec['P'], len(vec['blocks'])
    single = form in (1, 4)
    fc, dc = FORMCLASS[form], DOFCLASS[vec['dofopt']]
    exp = expected_full(vec)
    tol = 1e-6 if fl['dtype'] == 'float32' else 1e-10
    case = {'vector': vec, 'flavour': fl}
    covs, raw = {}, {}
    for est in estimators_for(vec):
        for method in METHODS:
            cname, pname = f'cov_from_{est}', f'prec_from_{est}'
            data, dof = build_input(vec, fl)
            before = fingerprint((data, dof))
            fd.s('calls')
            dtc = '/int-dtype' if fl['dtype'].startswith('int') else ''
            if form in (4, 5):
                fd.s(f'dataset_calls_{est}')
                fd.s(f'dataset_calls_{fl["dtype"]}')
                if any(len(set(b['lab'])) == 1 for b in vec['blocks']):
                    fd.s(f'single_condition_dataset_calls_{est}')
                if any(len(set(b['lab'])) == len(b['lab']) for b in vec['blocks']):
                    fd.s(f'one_repetition_dataset_calls_{est}')
            try:
                res = call(est, 'cov', data, dof, method)
            except Exception as e:  # noqa: BLE001
                fd.v(f'C14/a/{cname}/{fc}/{dc}/raises/{type(e).__name__}' + dtc,
                     f'{cname} raises on an admissible input ({fl["dtype"]} data): {e}', {**case, 'method': method})
                continue
            if fingerprint((data, dof)) != before:
                fd.v(f'C14/f/{cname}/{fc}/input-modified', f'{cname} modified its input', {**case, 'method': method})
            mats = _as_mats(res, K, P, single)
            shape_bad = mats is None
            c2 = float(fl.get('scale', 1.0)) ** 2
            if c2 != 1.0:
                fd.s('scaled_calls')
                if est == 'residuals' and any(np.array(b['x']).sum(axis=0).any() for b in vec['blocks']):
                    fd.s('scaled_residual_calls_nonzero_column_means')
            if shape_bad:
                cl = 'e' if not single else 'a'
                fd.v(f'C14/{cl}/{cname}/{dc}/result-shape' if not single else f'C14/a/{cname}/{fc}/result-shape',
                     f'{cname} does not return one {P}x{P} matrix per element: got {_describe(res)}',
                     {**case, 'method': method})
            else:
                chf = channel_factors(P, fl)
                dd = np.outer(chf, chf) if chf is not None else 1.0
                if all(np.isfinite(np.asarray(m, float)).all() for m in mats):
                    raw[(est, method)] = [np.asarray(m, np.float64) / c2 / dd for m in mats]
                ok = True
                for k in range(K):
                    Mk, ex = np.asarray(mats[k], dtype=np.float64) / c2, exp[k]
                    if chf is not None:
                        fd.s('channel_scaled_matrices')
                        if method == 'shrinkage_eye':      # not equivariant: raw units, Full' = D Full D
                            ex = (ex[0] * dd, ex[1], ex[2])
                        else:                              # equivariant: standardise exactly (powers of 2)
                            Mk = Mk / dd
                    ok &= _check_matrix(fd, cname, method, Mk, ex,
                                        vec['blocks'][k], tol, fc, dc, {**case, 'method': method, 'element': k},
                                        sc='/scaled-data' if c2 != 1.0 else ('/channel-scaled-data' if chf is not None else ''))
                if ok:
                    covs[(est, method)] = mats
            # ---- precision = inverse of the covariance returned for the same arguments
            _check_prec(fd, est, method, vec, fl, mats, shape_bad, single, K, P, fc, dc, case)
    # ---- d: measurement-based = unbalanced on balanced designs
    if form in (4, 5):
        for method in METHODS:
            a, b = raw.get(('measurements', method)), raw.get(('unbalanced', method))
            fd.s('d_pairs_possible')
            if a is None or b is None:
                continue
            fd.s('d_pairs_compared')
            for k in range(K):
                sc = max(1.0, float(np.abs(b[k]).max()))
                if not np.abs(np.asarray(a[k], float) - np.asarray(b[k], float)).max() <= max(tol, 1e-9) * sc:
                    fd.v('C14/d/measurements-vs-unbalanced/disagree' + ('/scaled-data' if fl.get('scale', 1.0) != 1.0 else '')
                         + ('/channel-scaled-data' if channel_factors(P, fl) is not None else ''),
                         'cov_from_measurements and cov_from_unbalanced differ on a balanced design',
                         {**case, 'method': method, 'element': k})
    return fd


def _check_matrix(fd, cname, method, M, ex, block, tol, fc, dc, case, sc=''):
    """clauses a, b, c for one returned matrix; True iff it is in the specification"""
    F, num, dofk = ex
    P = F.shape[0]
    scale = max(1.0, float(np.abs(F).max()))
    if not np.isfinite(M).all():
        if method in ('shrinkage_eye', 'shrinkage_diag'):
            cls = nan_class(method, num, block['x'])
            if cls in ('zero-residuals', 'zero-variance-channel'):
                fd.unsup.append((f'{method}/{cls}', 'degenerate input: non-finite estimate'))
                fd.s('degenerate_excluded')
            else:
                fd.v(f'C14/c/{method}/nan/{cls}{sc}', f'{method} returns non-finite values ({cls})', case)
        else:
            fd.v(f'C14/{"a" if method == "full" else "b"}/{cname}/{fc}/{dc}/nonfinite{sc}', f'{method}: non-finite values', case)
        return False
    if method in ('full', 'diag'):
        E = F if method == 'full' else np.diag(np.diag(F))
        fd.s('exact_compared')
        if np.abs(M - E).max() <= tol * scale:
            return True
        c = _const_scale(M, E, tol)
        cls = 'values'
        if c is not None and np.abs(M / c - E).max() <= tol * scale:
            cls = 'scaled-by-constant'
        fd.v(f'C14/{"a" if method == "full" else "b"}/{cname}/{fc}/{dc}/{cls}{sc}',
             f"{cname}(method='{method}') differs from cross-product/dof"
             + (f' by the constant factor {c:.6g}' if cls == 'scaled-by-constant' else ''),
             {**case, 'got': M, 'expected': E, 'dof_expected': dofk})
        return False
    # shrinkage: relations only
    if not num.any() or (method == 'shrinkage_diag' and (np.diag(num) == 0).any()):
        # finite answer on a degenerate input: nothing to demand beyond what follows
        fd.s('degenerate_finite')
    fd.s('shrink_checked')
    slack = 2e-9 if sc else 0.0
    cls, lam, det = shrink_relation(method, M, F, tol, slack)
    if cls is not None:
        c = _const_scale(M, F, tol)
        if c is not None:
            cls2, lam2, _ = shrink_relation(method, M / c, F, tol, slack)
            if cls2 is None:
                cls, det = 'scaled-by-constant', {'factor': c, 'lambda_after_rescaling': lam2}
        fd.v(f'C14/c/{cname}/{fc}/{dc}/{method}/{cls}{sc}',
             f"{cname}(method='{method}') is not l*target+(1-l)*Full for one l in [0,1]: {cls}",
             {**case, 'got': M, 'full': F, 'lambda': lam, 'detail': {k: v for k, v in det.items() if k != 'T'}
              if isinstance(det, dict) else det})
        return False
    good = True
    if np.abs(M - M.T).max() > 1e-12 * scale:
        fd.v(f'C14/c/{cname}/{method}/asymmetric{sc}', 'shrinkage estimate is not symmetric', {**case, 'got': M})
        good = False
    ev = np.linalg.eigvalsh((M + M.T) / 2)
    if ev.min() < -1e-12 * max(1.0, float(np.trace(M))):
        fd.v(f'C14/c/{cname}/{method}/not-psd{sc}', f'smallest eigenvalue {ev.min():.3g}', {**case, 'got': M})
        good = False
    if lam is None:
        fd.s('lambda_unidentified')
    else:
        fd.s('lambda_recovered')
        fd.s('lambda_interior' if 1e-9 < lam < 1 - 1e-9 else ('lambda_one' if lam >= 1 - 1e-9 else 'lambda_zero'))
        T = det['T']
        tmin = float(np.diag(T).min())
        if lam > 1e-9 and tmin > 0:
            fd.s('pd_checked')
            if not ev.min() >= lam * tmin * (1 - 1e-9) - 1e-12 * scale or not ev.min() > 0:
                fd.v(f'C14/c/{cname}/{method}/not-pd-with-active-shrinkage{sc}',
                     f'l={lam:.6g} but smallest eigenvalue {ev.min():.3g}', {**case, 'got': M})
                good = False
    return good


def _check_prec(fd, est, method, vec, fl, mats, shape_bad, single, K, P, fc, dc, case):
    pname = f'prec_from_{est}'
    case = {**case, 'method': method}
    if mats is not None and not all(np.isfinite(np.asarray(m, float)).all() for m in mats):
        fd.s('prec_skipped_nonfinite_cov')
        return
    # per-entry RELATIVE oracle: equilibrate by the covariance's own diagonal, C = S^-1 M S^-1 with
    # S = sqrt(diag M); then (S prec S) @ C = I must hold with a tolerance tied to cond(C), which does
    # not depend on the units of the channels (raw cond(M) does: 1e29 for Tesla next to arbitrary units)
    conds, sds, tols = None, None, None
    if mats is not None:
        conds, sds, tols = [], [], []
        for m in mats:
            m64 = np.asarray(m, np.float64)
            dg = np.diag(m64)
            if not (dg > 0).all():
                fd.s('prec_skipped_singular')
                return
            sd = np.sqrt(dg)
            cc = float(np.linalg.cond(m64 / np.outer(sd, sd)))
            eps = float(np.finfo(m.dtype).eps) if m.dtype.kind == 'f' else EPS
            tk = 1e-10 + 256 * eps * P * cc
            if not np.isfinite(cc) or tk > 1e-2:
                fd.s('prec_skipped_singular')
                return
            conds.append(cc)
            sds.append(sd)
            tols.append(tk)
    data, dof = build_input(vec, fl)
    before = fingerprint((data, dof))
    fd.s('calls')
    try:
        pres = call(est, 'prec', data, dof, method)
    except Exception as e:  # noqa: BLE001
        if shape_bad:
            fd.v(f'C14/e/{pname}/{dc}/result-shape', f'{pname} fails on a list input with {dc}: {type(e).__name__}', case)
        else:
            fd.v(f'C14/g/{pname}/{fc}/raises/{type(e).__name__}', f'{pname} raises although the covariance is invertible: {e}', case)
        return
    if fingerprint((data, dof)) != before:
        fd.v(f'C14/f/{pname}/{fc}/input-modified', f'{pname} modified its input', case)
    pm = _as_mats(pres, K, P, single)
    if pm is None or shape_bad:
        fd.v(f'C14/e/{pname}/{dc}/result-shape' if not single else f'C14/g/{pname}/{fc}/result-shape',
             f'{pname} does not return one {P}x{P} matrix per element: got {_describe(pres)}', case)
        return
    for k in range(K):
        Mk = np.asarray(mats[k], np.float64)
        ss = np.outer(sds[k], sds[k])
        tolk = tols[k]
        chs = channel_factors(P, fl) is not None
        fd.s('prec_checked')
        if chs:
            fd.s('prec_checked_channel_scaled')
        if not np.isfinite(np.asarray(pm[k], np.float64)).all():
            dev = float('inf')
        else:
            dev = float(np.abs((np.asarray(pm[k], np.float64) * ss) @ (Mk / ss) - np.eye(P)).max())
        fd.stats['prec_max_dev_over_tol'] = max(fd.stats.get('prec_max_dev_over_tol', 0.0), dev / tolk)
        if not dev <= tolk:
            fd.v(f'C14/g/{pname}/{method}/not-inverse' + ('/channel-scaled-data' if chs else ''),
                 f'{pname} @ cov_from_{est} (equilibrated by the channel scales) differs from I by {dev:.3g} '
                 f'(tolerance {tolk:.3g}, equilibrated cond {conds[k]:.3g})',
                 {**case, 'element': k, 'prec': pm[k], 'cov': Mk})


def nontrivial_key(vec):
    """a vector is non-trivial if some block has a non-zero off-diagonal or P = 1 with non-zero variance"""
    for f in vec['full']:
        n = np.array([[e[0] for e in row] for row in f])
        if n.any():
            return True
    return False


# ------------------------------------------------------------------ I -> S
def _lcm(xs):
    m = 1
    for x in xs:
        m = m * x // gcd(m, x)
    return m


def random_input(rng, big=True):
    """a larger integer design in the vector format of NoiseCov (data scaled by the lcm of the group sizes)"""
    form = int(rng.choice([1, 2, 3, 4, 4, 5, 5]))
    P = int(rng.integers(2, 7)) if rng.random() < 0.9 else 1
    K = 1 if form in (1, 4) else int(rng.integers(2, 4))
    blocks = []
    n3 = int(rng.integers(3, 21))
    bal = rng.random() < 0.5
    onerep = rng.random() < 0.15      # one repetition per condition everywhere: needs a passed dof
    for _ in range(K):
        if form in (4, 5):
            C = int(rng.integers(1, 6))
            if C == 1:
                cnt = [int(rng.integers(2, 21))]          # single-condition Dataset
            elif bal:
                cnt = [int(rng.integers(2, 6))] * C
            else:
                cnt = [1 if onerep else int(rng.integers(1, 6)) for _ in range(C)]
                if sum(cnt) == C and not onerep:
                    cnt[0] += 1
            lab = [g + 1 for g, n in enumerate(cnt) for _ in range(n)]
            lab = [lab[i] for i in rng.permutation(len(lab))]
        else:
            n = n3 if form == 3 else int(rng.integers(2, 21))
            cnt = [n]
            lab = [1] * n
        L = _lcm(cnt)
        raw = rng.integers(-3, 4, size=(len(lab), P))
        blocks.append({'lab': [int(v) for v in lab], 'x': (raw * L).astype(int).tolist()})
    opt = int(rng.choice([0, 0, 1, 2])) if K > 1 else int(rng.choice([0, 0, 1]))
    if opt == 0 and any(len(b['lab']) == len(set(b['lab'])) for b in blocks):
        opt = 1                           # natural dof 0: only admissible with a passed dof
    if opt == 0:
        dofv = [0] * K
    elif opt == 1:
        dofv = [int(rng.integers(1, 30))] * K
    else:
        dofv = [int(v) for v in rng.integers(1, 30, size=K)]
    return {'form': form, 'P': P, 'dofopt': opt, 'dofv': dofv, 'blocks': blocks}


def believed_dof(vec, k):
    b = vec['blocks'][k]
    return len(b['lab']) - len(set(b['lab'])) if vec['dofopt'] == 0 else int(vec['dofv'][k])


def record_trace(vec, est, idx, corrupt=False):
    """call cov_from_<est> with the four methods on the input and log the outputs as scaled integers.
    Returns (trace or None, notes).  No expected value is computed here: intensities are recovered
    from the implementation's OWN 'full' output; Trace_NoiseCov recomputes the definition."""
    fl = flavour(idx)
    fl['dtype'] = 'float64' if idx % 3 else ('int64' if idx % 2 else 'int32')
    fl['chscale'] = False
    fl['scale'] = SCALES[idx % 6] if fl['dtype'] == 'float64' else 1.0
    P, K = vec['P'], len(vec['blocks'])
    single = vec['form'] in (1, 4)
    calls, notes = [], []
    fulls = None
    for mi, method in enumerate(METHODS):
        data, dof = build_input(vec, fl)
        before = fingerprint((data, dof))
        try:
            res = call(est, 'cov', data, dof, method)
        except Exception as e:  # noqa: BLE001
            notes.append(('raises', method, f'{type(e).__name__}: {e}', fl['dtype']))
            continue
        if fingerprint((data, dof)) != before:
            notes.append(('modified', method, 'cov'))
        data2, dof2 = build_input(vec, fl)
        before = fingerprint((data2, dof2))
        try:
            call(est, 'prec', data2, dof2, method)
        except Exception:  # noqa: BLE001  (singular covariance: not demanded here)
            pass
        if fingerprint((data2, dof2)) != before:
            notes.append(('modified', method, 'prec'))
        mats = _as_mats(res, K, P, single)
        if mats is None:
            notes.append(('shape', method, _describe(res)))
            continue
        c2 = float(fl.get('scale', 1.0)) ** 2
        if method == 'full':
            fulls = [np.asarray(m, float) / c2 for m in mats]
        for k in range(K):
            M = np.asarray(mats[k], np.float64) / c2
            d = believed_dof(vec, k)
            ev = {'est': {'residuals': 1, 'measurements': 2, 'unbalanced': 3}[est], 'meth': mi + 1, 'k': k + 1,
                  'dofS': d, 'Q': 1, 'lamQ': 0}
            if not np.isfinite(M).all():
                notes.append(('nonfinite', method, k))
                continue
            if mi < 2:
                V = M * d
            else:
                if fulls is None or not np.isfinite(fulls[k]).all():
                    continue
                Fk = fulls[k]
                T = np.eye(P) * (np.trace(Fk) / P) if method == 'shrinkage_eye' else np.diag(np.diag(Fk))
                D = Fk - T
                if np.abs(D).max() <= 1e-12 * max(1.0, np.abs(Fk).max()):
                    notes.append(('lambda-unidentified', method, k))
                    continue
                i, j = np.unravel_index(np.argmax(np.abs(D)), D.shape)
                lam = (Fk[i, j] - M[i, j]) / D[i, j]
                big = max(1.0, np.trace(Fk) * d, P * np.abs(Fk).max() * d) * (P if mi == 2 else 1)
                Q = 10000
                while Q > 1 and big * Q >= 2 ** 30:
                    Q //= 10
                if Q < 10 or not np.isfinite(lam) or abs(lam) > 10:
                    notes.append(('lambda-not-loggable', method, k, float(lam)))
                    continue
                ev['Q'], ev['lamQ'] = Q, int(round(lam * Q))
                V = M * d * Q * (P if mi == 2 else 1)
            R = np.rint(V)
            bound = 1e-6 * np.maximum(1.0, np.abs(V)) if mi < 2 else 0.5 + 1e-6 * np.abs(V)
            ev['integral'] = int(bool((np.abs(V - R) <= bound).all()) and float(np.abs(R).max()) < 2 ** 31 - 1)
            if np.abs(R).max() >= 2 ** 31 - 1:
                R = np.zeros_like(R)
            ev['num'] = R.astype(np.int64).tolist()
            calls.append(ev)
    if corrupt and calls:
        calls[0]['num'][0][0] += 1
    if not calls:
        return None, notes
    return {'inp': {**vec, 'bal': 0, 'draw': []}, 'calls': calls}, notes
