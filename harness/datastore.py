"""Binding of specs/DataStore.tla to rsatoolbox.data.Dataset / TemporalDataset.

* ``make_source``   builds the real source object of the specification's ``Source(s)`` for a flavour
* ``project``       real object -> observable projection (the shape of ``Obs(ob)`` in the spec):
                    descriptor columns decoded to the spec's value domain, dataset descriptors,
                    cells as exact rationals
* ``expected``      ghost labels emitted by TLC (``Strip(ob)``) -> the same observable projection;
                    a mirror of RowVal / ColVal / TLVal / Cell of the spec, cross-checked against
                    ``Obs(ob)`` printed by TLC itself on every run (props/c11.py: mirror run)
* ``apply_event``   performs one specification event on a heap of real objects
* ``replay``        steps a TLC behaviour through real objects, comparing ALL live objects and
                    everything the call returned after every step (S -> I)
* ``random_trace``  issues a random admissible history on real objects and records the projected
                    heap and outputs after every call (I -> S, validated by Trace_DataStore.tla)

Value encoding.  Abstract descriptor values are integers (obs, cond, sess, chan, roi, phase),
rationals [num, den] (time) or lists of rationals (bins).  Flavours: descriptor container
list | ndarray  x  label type int | str ('o01', 'c02', ... zero padded, so that string order is the
integer order).  'time' is always a float coordinate.  Cells are tokens
101*obs + 10*chan + sum_t w_t 2^(t-1)/d  (see the spec), decoded with
``Fraction.limit_denominator(MAXDEN)`` and an absolute error bound of 1e-9: denominators are capped
at MaxDen <= 6 by the specification's enabling condition of bin_time, so neighbouring admissible
values are >= 1/30 apart and the decode is unambiguous.
"""
from __future__ import annotations

import io
import os
import re
import tempfile
import warnings
from fractions import Fraction
from math import gcd

import numpy as np

MAXDEN = 6
FLAVOURS = [(c, t) for c in ('list', 'array') for t in ('int', 'str')]
OKEYS = ('obs', 'cond', 'sess', 'time', 'lat', 'phase', 'bins', 'flag', 'mark')
CKEYS = ('chan', 'roi', 'time', 'lat', 'phase', 'bins')
TKEYS = ('time', 'lat', 'phase', 'bins')
RATKEYS = ('time', 'lat')        # numeric time descriptors (rational values)
DKEYS = ('obs', 'cond', 'sess', 'time', 'lat', 'phase', 'bins', 'flag', 'mark', 'chan', 'roi')
INTKEYS = ('obs', 'cond', 'sess', 'chan', 'roi', 'phase', 'flag', 'mark')
MISSKEYS = ('flag', 'mark')
MISSING = -1
LAYOUTS = ('C', 'F', 'T', 'S')    # memory layout of the source measurements
# dtype of the source measurements ('narrow' = uint8 when every token fits, else int16)
DTYPES = ('float64', 'int64', 'float32', 'int32', 'narrow')
# real 'time' coordinate of abstract time value q (rational): A + B*q, or a label
#   f1 float q | i small int | q q/250 | L 1.2e5 + q | E 1.7e9 + q/250 | s 't01'
# i, q, E, s only for histories without bin_time: q and E are not exact in binary, so two bins with the
# same rational mean time may differ in the last bit (the specification compares rationals); i and s
# cannot hold a mean.  f1 and L stay exact for the denominators that occur.
TIMEFLAVS = ('f1', 'L', 'i', 'q', 'E', 's')
TIMEFLAVS_EXACT = ('f1', 'L')
_TIMEMAP = {'f1': (0.0, 1.0, 1e-9), 'i': (0.0, 1.0, 1e-9), 'q': (0.0, 1 / 250, 1e-9), 'L': (1.2e5, 1.0, 1e-8),
            'E': (1.7e9, 1 / 250, 5e-4), 's': (0.0, 1.0, 1e-9)}
# per-behaviour decoding context (set by configure(); one behaviour at a time per process)
CTX = {'time': 'f1', 'tol60': 6e-8, 'numtol': 1e-9}


def configure(dtype='float64', timeflav='f1'):
    """tolerances follow the mechanism: float64 data are exact to 1e-9; float32 data carry means
    rounded to 24 bits (values < 2000: |error| < 2.5e-4 after a few operations); integer data are exact"""
    CTX['time'] = timeflav
    if dtype == 'float32':
        CTX['tol60'], CTX['numtol'] = 0.03, 5e-4
    else:
        CTX['tol60'], CTX['numtol'] = 6e-8, 1e-9


def pick_flavours(i, hist_ops):
    """rotation of (dtype, time flavour) with the replay index"""
    dtype = DTYPES[(i // 3) % len(DTYPES)]
    pool = TIMEFLAVS_EXACT if 'bin_time' in hist_ops else TIMEFLAVS
    return dtype, pool[(i // 7) % len(pool)]
_PFX = {'obs': 'o', 'cond': 'c', 'sess': 's', 'chan': 'h', 'roi': 'r', 'phase': 'p', 'flag': 'f', 'mark': 'm'}
PRODUCERS = ('split_obs', 'split_channel', 'split_time', 'split_merge', 'subset_obs', 'subset_channel',
             'subset_time', 'merge', 'odd_even', 'nested_odd_even', 'bin_time', 'time_as_observations',
             'time_as_channels', 'df', 'copy', 'saveload', 'dict')
MULTIPART = ('split_obs', 'split_channel', 'split_time', 'odd_even', 'nested_odd_even')
TRIVIAL_OPS = ('copy', 'saveload', 'dict', 'drop')


# ------------------------------------------------------------------ mirror of the spec's functions
def cond(o):
    return 1 + (o % 2)


def sess(o):
    return (o + 1) // 2


def roi(c):
    return 1 + (c % 2)


def phase(t):
    return 1 + (t % 2)


def flag(o):
    return 1 if o % 2 == 0 else MISSING


def mark(o):
    return MISSING if o % 3 == 0 else o % 3


def absent(k):
    return 0 if k in INTKEYS else []


def q(fr):
    fr = Fraction(fr)
    return [fr.numerator, fr.denominator]


def _tl_time(tl):
    w, d, _b, _ph = tl
    return Fraction(sum(w[t] * (t + 1) for t in range(len(w))), d)


def lat(t):
    return (t - 2) * (t - 2)


def _tl_lat(tl):
    w, d, _b, _ph = tl
    return Fraction(sum(w[t] * lat(t + 1) for t in range(len(w))), d)


def _tl_tok(tl):
    w, d, _b, _ph = tl
    return Fraction(sum(w[t] * 2 ** t for t in range(len(w))), d)


def _tlval(tl, k):
    if tl == 0:
        return absent(k)
    if k == 'time':
        return q(_tl_time(tl))
    if k == 'lat':
        return q(_tl_lat(tl))
    if k == 'phase':
        return tl[3]
    return [list(x) for x in tl[2]]


def _rowval(row, k):
    o, tl = row
    if k == 'obs':
        return o
    if k == 'cond':
        return cond(o)
    if k == 'sess':
        return sess(o)
    if k == 'flag':
        return flag(o)
    if k == 'mark':
        return mark(o)
    return _tlval(tl, k)


def _colval(col, k):
    c, tl = col
    if k == 'chan':
        return c
    if k == 'roi':
        return roi(c)
    return _tlval(tl, k)


def _cell(row, col, tl):
    t = tl if tl != 0 else (row[1] if row[1] != 0 else col[1])
    v = Fraction(101 * row[0] + 10 * col[0])
    if t != 0:
        v += _tl_tok(t)
    return q(v)


NULL_OBS = {'kind': 'N', 'od': {k: [] for k in OKEYS}, 'cd': {k: [] for k in CKEYS},
            'td': {k: [] for k in TKEYS}, 'dd': {k: absent(k) for k in DKEYS}, 'val': []}


def expected(strip):
    """ghost labels (Strip(ob) as printed by TLC) -> observable projection (shape of Obs(ob))"""
    if strip == 0 or strip is None:
        return dict(NULL_OBS)
    rows, cols, tims = strip['rows'], strip['cols'], strip['tims']
    dd = {k: absent(k) for k in DKEYS}
    for k, v in strip['dd']:
        dd[k] = [list(x) for x in v] if k == 'bins' else (list(v) if k in RATKEYS else v)
    return {'kind': strip['kind'],
            'od': {k: ([_rowval(r, k) for r in rows] if k in strip['okeys'] else []) for k in OKEYS},
            'cd': {k: ([_colval(c, k) for c in cols] if k in strip['ckeys'] else []) for k in CKEYS},
            'td': {k: ([_tlval(t, k) for t in tims] if k in strip['tkeys'] else []) for k in TKEYS},
            'dd': dd,
            'val': [[[_cell(r, c, t) for t in tims] for c in cols] for r in rows]}


def norm_obs(o):
    """observable projection printed by TLC (Obs(ob)) -> plain lists"""
    def L(x):
        return [L(y) for y in x] if isinstance(x, (list, tuple)) else x
    return {'kind': o['kind'], 'od': {k: L(o['od'][k]) for k in OKEYS}, 'cd': {k: L(o['cd'][k]) for k in CKEYS},
            'td': {k: L(o['td'][k]) for k in TKEYS}, 'dd': {k: L(o['dd'][k]) for k in DKEYS}, 'val': L(o['val'])}


# ------------------------------------------------------------------ encoding / decoding of values
def enc(key, v, flavour):
    """abstract descriptor value -> fresh value of the flavour"""
    if key == 'time':
        return enc_time(Fraction(v[0], v[1]))
    if key == 'lat':
        return float(Fraction(v[0], v[1]))
    if key == 'phase':
        return f'p{int(v):02d}'            # a label: string-valued in every flavour (bin_time averages numbers)
    if key == 'bins':
        return np.array2string(np.array([enc_time(Fraction(a, b)) for a, b in v]), precision=2, separator=',')
    if v == MISSING and key in MISSKEYS:
        return float('nan') if flavour[1] == 'int' else None      # a missing entry
    if flavour[1] == 'int':
        return float(v) if key in MISSKEYS else int(v)
    return f'{_PFX[key]}{int(v):02d}'


_TIME_CACHE = {}


def enc_time(fr):
    tf = CTX['time']
    if tf == 's' and fr.denominator == 1:
        return f't{int(fr):02d}'
    if tf == 'i' and fr.denominator == 1:
        return int(fr)
    a, b, _ = _TIMEMAP[tf]
    return a + float(fr) * b if b == 1.0 else a + float(fr) / round(1 / b)


def _dec_time(x, tol_scale=1.0, what='time'):
    if isinstance(x, (str, np.str_)):
        s = str(x)
        if len(s) >= 2 and s[0] == 't' and s[1:].isdigit():
            return Fraction(int(s[1:]))
        raise ProjectionError(what, f'time label {x!r}')
    ck = (CTX['time'], float(x), tol_scale)
    fr = _TIME_CACHE.get(ck)
    if fr is not None:
        return fr
    a, b, tol = _TIMEMAP[CTX['time']]
    y = (float(x) - a) / b
    if not np.isfinite(y):
        raise ProjectionError(what, f'{x!r} is not finite')
    fr = Fraction(y).limit_denominator(MAXDEN)
    if abs(float(fr) - y) > tol * tol_scale:
        raise ProjectionError(what, f'{x!r} is not a mean of source time points (flavour {CTX["time"]})')
    if len(_TIME_CACHE) < 100000:
        _TIME_CACHE[ck] = fr
    return fr


class EqualityError(Exception):
    """a value copy does not compare equal to its source"""


class ProjectionError(Exception):
    """the real object is not well-formed / not decodable"""

    def __init__(self, field, msg, cls=None):
        super().__init__(msg)
        self.field = field
        self.cls = cls        # a named class of failure with its own violation key, if any


def _frac(x, tol=None, what='val'):
    """decode a float to the rational with denominator <= MAXDEN it stands for; the tolerance follows
    the dtype of the behaviour's data (float32 data carry 24-bit means)"""
    tol = CTX['numtol'] if tol is None else tol
    x = float(x)
    if not np.isfinite(x):
        raise ProjectionError(what, f'{x!r} is not finite')
    fr = Fraction(x).limit_denominator(MAXDEN)
    if abs(float(fr) - x) > tol:
        raise ProjectionError(what, f'{x!r} is not a mean of source values (denominator <= {MAXDEN})')
    return fr


_Q60_CACHE = {}


def _q60(n):
    r = _Q60_CACHE.get(n)
    if r is None:
        g = gcd(n, 60)
        if 60 // g > MAXDEN:
            raise ProjectionError('val', f'cell {n}/60 has a denominator above {MAXDEN}')
        r = _Q60_CACHE[n] = (n // g, 60 // g)
    return [r[0], r[1]]


def dec(key, v):
    """real descriptor entry -> abstract value"""
    if isinstance(v, (bytes, np.bytes_)):
        v = v.decode()
    if key in MISSKEYS and (v is None or (isinstance(v, (float, np.floating)) and v != v)):
        return MISSING
    if key == 'time':
        return q(_dec_time(v))
    if key == 'lat':
        return q(_frac(v, what='lat'))
    if key == 'bins':
        s = str(v).strip()
        if not (s.startswith('[') and s.endswith(']')):
            raise ProjectionError('bins', f'bins entry {v!r}')
        nums = [x for x in re.split(r'[,\s]+', s[1:-1]) if x]
        plain = _TIMEMAP[CTX['time']][0] > 0     # offset time flavour: a small number is a 'lat' value
        return [q(_frac(float(x), tol=0.0051, what='bins')) if (plain and float(x) < 1e4) else
                q(_dec_time(float(x), tol_scale=0.0051 / _TIMEMAP[CTX['time']][2], what='bins')) for x in nums]
    if isinstance(v, (str, np.str_)):
        s = str(v)
        if key in MISSKEYS and s in ('nan', 'None', '<NA>', 'NaN'):
            raise ProjectionError(key, f'the missing {key} entry has become the string {s!r}', cls='missing-stringified')
        if len(s) >= 2 and s[0] == _PFX[key] and s[1:].isdigit():
            return int(s[1:])
        raise ProjectionError(key, f'{key} entry {v!r} does not carry the prefix {_PFX[key]!r}')
    f = float(v)
    if f != int(f):
        raise ProjectionError(key, f'{key} entry {v!r} is not an integer label')
    return int(f)


def _column(level, key, col, n):
    try:
        vals = list(col)
    except TypeError:
        raise ProjectionError(f'{level}/{key}', f'descriptor {key!r} is not a sequence: {col!r}')
    if len(vals) != n:
        raise ProjectionError(f'{level}/{key}', f'descriptor {key!r} has {len(vals)} entries for {n} items')
    try:
        return [dec(key, v) for v in vals]
    except ProjectionError as pe:
        raise ProjectionError(f'{level}/{key}', str(pe), cls=pe.cls)
    except (TypeError, ValueError) as ex:
        raise ProjectionError(f'{level}/{key}', f'cannot decode {key!r}: {ex!r}')


def project(ob):
    """real Dataset / TemporalDataset -> observable projection"""
    from rsatoolbox.data.dataset import TemporalDataset, Dataset
    temporal = isinstance(ob, TemporalDataset)
    if not isinstance(ob, Dataset):
        raise ProjectionError('kind', f'{type(ob).__name__} is not a Dataset')
    m = np.asarray(ob.measurements)
    if m.dtype.kind not in 'fiu':
        raise ProjectionError('val', f'measurements have dtype {m.dtype}')
    m = m.astype(np.float64)
    if m.ndim != (3 if temporal else 2):
        raise ProjectionError('val', f'measurements has ndim {m.ndim}')
    if temporal:
        nr, nc, nt = m.shape
        if (ob.n_obs, ob.n_channel, ob.n_time) != m.shape:
            raise ProjectionError('val', f'n_obs/n_channel/n_time {(ob.n_obs, ob.n_channel, ob.n_time)} vs shape {m.shape}')
    else:
        nr, nc = m.shape
        nt = 1
        if (ob.n_obs, ob.n_channel) != m.shape:
            raise ProjectionError('val', f'n_obs/n_channel {(ob.n_obs, ob.n_channel)} vs shape {m.shape}')
        m = m.reshape(nr, nc, 1)
    if nr == 0 or nc == 0 or nt == 0:
        raise ProjectionError('val', f'empty measurements {m.shape}')
    out = {'kind': 'T' if temporal else 'F'}
    for name, level, keys, n, d in (('od', 'od', OKEYS, nr, ob.obs_descriptors), ('cd', 'cd', CKEYS, nc, ob.channel_descriptors),
                                    ('td', 'td', TKEYS, nt, getattr(ob, 'time_descriptors', {}) if temporal else {})):
        unknown = [k for k in d if k not in keys]
        if unknown:
            raise ProjectionError(f'{level}/{unknown[0]}', f'unexpected descriptor {unknown[0]!r}')
        out[name] = {k: (_column(level, k, d[k], n) if k in d else []) for k in keys}
    dd = {k: absent(k) for k in DKEYS}
    for k, v in ob.descriptors.items():
        if k == 'session':
            if (v.decode() if isinstance(v, bytes) else v) != 'x':
                raise ProjectionError('dd/session', f'session descriptor is {v!r}')
            continue
        if k not in DKEYS:
            raise ProjectionError(f'dd/{k}', f'unexpected dataset descriptor {k!r}')
        try:
            dd[k] = dec(k, v)
        except ProjectionError as pe:
            raise ProjectionError(f'dd/{k}', str(pe))
        except (TypeError, ValueError) as ex:
            raise ProjectionError(f'dd/{k}', f'cannot decode {k!r}: {ex!r}')
    if 'session' not in ob.descriptors:
        raise ProjectionError('dd/session', 'session descriptor lost')
    out['dd'] = dd
    # cells: exact rationals with denominator <= MAXDEN (60 = lcm(1..6)); vectorised decode
    m60 = m * 60.0
    r60 = np.rint(m60)
    if not np.all(np.isfinite(m60)) or float(np.max(np.abs(m60 - r60))) > CTX['tol60']:
        bad = [float(x) for x in m.ravel() if not np.isfinite(x) or abs(x * 60 - round(x * 60)) > CTX['tol60']][:3]
        raise ProjectionError('val', f'cells {bad} are not means of source values (denominator <= {MAXDEN})')
    ints = r60.astype(np.int64).tolist()
    out['val'] = [[[_q60(n) for n in col] for col in row] for row in ints]
    return out


def diff(real, spec):
    """first differing field between two observable projections"""
    if real['kind'] != spec['kind']:
        return 'kind'
    rs = (len(real['val']), len(real['val'][0]) if real['val'] else 0, len(real['val'][0][0]) if real['val'] else 0)
    ss = (len(spec['val']), len(spec['val'][0]) if spec['val'] else 0, len(spec['val'][0][0]) if spec['val'] else 0)
    if rs != ss:
        return 'shape'
    for name, keys in (('od', OKEYS), ('cd', CKEYS), ('td', TKEYS), ('dd', DKEYS)):
        for k in keys:
            if real[name][k] != spec[name][k]:
                return f'{name}/{k}'
    if real['val'] != spec['val']:
        return 'val'
    return None


# ------------------------------------------------------------------ real objects
def src_fields(src):
    kind = src // 10000
    return kind, (src // 100) % 100, (src // 10) % 10, (1 if kind in (1, 4) else src % 10)


def _container(vals, flavour):
    if flavour[0] == 'list':
        return list(vals)
    if any(v is None for v in vals):
        return np.array(vals, dtype=object)
    return np.array(vals)


def _layout(m, layout):
    """the same logical array in another memory layout: C-contiguous, Fortran-contiguous, a
    transposed view of an array stored with the axes reversed, a strided (non-contiguous) slice"""
    if layout == 'C':
        return np.ascontiguousarray(m)
    if layout == 'F':
        return np.asfortranarray(m)
    if layout == 'T':
        stored = np.ascontiguousarray(m.transpose(tuple(range(m.ndim))[::-1]))
        return stored.transpose(tuple(range(m.ndim))[::-1])
    big = np.full(m.shape[:-1] + (2 * m.shape[-1],), -7.0)
    big[..., ::2] = m
    view = big[..., ::2]
    if m.ndim == 2:                       # also strided along the observations
        big2 = np.full((2 * m.shape[0], 2 * m.shape[1]), -7.0)
        big2[::2, ::2] = m
        view = big2[::2, ::2]
    return view


def make_source(src, flavour, layout='C', dtype='float64', timeflav=None):
    """the specification's Source(src) as a real object.  ``timeflav`` None: the configured one."""
    from rsatoolbox.data.dataset import Dataset, TemporalDataset
    kind, no, nc, nt = src_fields(src)
    m = np.zeros((no, nc, nt))
    for o in range(no):
        for c in range(nc):
            for t in range(nt):
                m[o, c, t] = 101 * (o + 1) + 10 * (c + 1) + (0 if kind in (1, 4) else 2 ** t)
    od = {'obs': _container([enc('obs', o + 1, flavour) for o in range(no)], flavour),
          'cond': _container([enc('cond', cond(o + 1), flavour) for o in range(no)], flavour),
          'sess': _container([enc('sess', sess(o + 1), flavour) for o in range(no)], flavour)}
    cd = {'chan': _container([enc('chan', c + 1, flavour) for c in range(nc)], flavour),
          'roi': _container([enc('roi', roi(c + 1), flavour) for c in range(nc)], flavour)}
    if kind in (4, 5):
        od['flag'] = _container([enc('flag', flag(o + 1), flavour) for o in range(no)], flavour)
        od['mark'] = _container([enc('mark', mark(o + 1), flavour) for o in range(no)], flavour)
    if dtype == 'narrow':
        dtype = 'uint8' if m.max() <= 255 else 'int16'
    m = m.astype(dtype)
    if kind in (1, 4):
        return Dataset(_layout(m[:, :, 0].copy(), layout), descriptors={'session': 'x'}, obs_descriptors=od,
                       channel_descriptors=cd)
    m = _layout(m, layout)
    if timeflav is not None:
        CTX['time'] = timeflav
    td = {'time': _container([enc_time(Fraction(t + 1)) for t in range(nt)], flavour)}
    if kind == 6:
        td['lat'] = _container([float(lat(t + 1)) for t in range(nt)], flavour)
    if kind in (3, 6):
        td['phase'] = _container([enc('phase', phase(t + 1), flavour) for t in range(nt)], flavour)
    return TemporalDataset(m, descriptors={'session': 'x'}, obs_descriptors=od, channel_descriptors=cd,
                           time_descriptors=td)


def free_slot(heap, maxobj):
    for o in range(1, maxobj + 1):
        if o not in heap:
            return o
    return None


def _real_values(ob, level, key, vals, flavour, variant):
    """abstract argument values -> values to hand to the library: the object's own entry carrying
    that value when there is one (odd variants; always for float / string-formatted keys), else a
    freshly encoded value"""
    d = {'od': ob.obs_descriptors, 'cd': ob.channel_descriptors, 'td': getattr(ob, 'time_descriptors', {})}[level]
    col = list(d[key])
    out = []
    for v in vals:
        v = [list(x) for x in v] if key == 'bins' else (list(v) if key in RATKEYS else v)
        found = None
        if key in ('time', 'bins', 'lat') or variant % 2 == 1:
            for x in col:
                try:
                    if dec(key, x) == v:
                        found = x
                        break
                except (ProjectionError, TypeError, ValueError):
                    continue
        out.append(found if found is not None else enc(key, v, flavour))
    return out


def apply_event(heap, e, flavour, maxobj, scratch=None, variant=0):
    """perform event e on the real heap (dict slot -> object).  Returns (tag, payload) describing
    what the call returned besides the object stored in the heap, or None."""
    from rsatoolbox.data.dataset import Dataset, load_dataset, dataset_from_dict, merge_subsets
    from rsatoolbox.data.ops import merge_datasets
    from rsatoolbox.data.computations import average_dataset_by, average_dataset
    op, o, o2, by, by2, vals = e['op'], e['o'], e['o2'], e['by'], e['by2'], list(e['vals'])
    ob = heap[o]
    new, extra = None, None

    def arg(level):
        v = _real_values(ob, level, by, vals, flavour, variant)
        if len(v) == 1 and variant % 4 < 2:
            return v[0]                       # a single value is documented as well
        if variant % 3 == 1:
            return tuple(v)
        if variant % 3 == 2 and by != 'bins':
            return np.array(v)
        return v
    with warnings.catch_warnings():
        warnings.simplefilter('ignore')
        if op in ('split_obs', 'split_channel', 'split_time'):
            parts = getattr(ob, op)(by)
            extra = ('parts', list(parts))
            new = parts[o2 - 1]
        elif op == 'split_merge':
            parts = ob.split_obs(by)
            new = merge_datasets(parts) if variant % 2 == 0 else merge_subsets(parts)
        elif op == 'subset_obs':
            new = ob.subset_obs(by, arg('od'))
        elif op == 'subset_channel':
            new = ob.subset_channel(by, arg('cd'))
        elif op == 'subset_time':
            lo, hi = _real_values(ob, 'td', by, vals, flavour, variant)
            new = ob.subset_time(by, lo, hi)
        elif op == 'sort_by':
            ob.sort_by(by)
        elif op == 'merge':
            new = merge_datasets([ob, heap[o2]])
        elif op == 'odd_even':
            parts = ob.odd_even_split(by)
            extra = ('parts', list(parts))
            new = parts[o2 - 1]
        elif op == 'nested_odd_even':
            parts = ob.nested_odd_even_split(by, by2)
            extra = ('parts', list(parts))
            new = parts[o2 - 1]
        elif op == 'bin_time':
            bins = [[float(x) for x in _real_values(ob, 'td', by, b, flavour, variant)] for b in vals]
            if variant % 4 == 1 and len({len(b) for b in bins}) == 1:
                bins = np.array(bins)          # equally long bins as one 2-d array
            elif variant % 4 == 2:
                bins = [np.array(b) for b in bins]      # list of arrays
            elif variant % 4 == 3:
                bins = tuple(tuple(b) for b in bins)    # nested tuples (array-like)
            new = ob.bin_time(by, bins)                  # else: list of lists
        elif op == 'time_as_observations':
            if variant % 3 == 1:
                new = ob.convert_to_dataset(by)
            elif by == 'time' and variant % 3 == 2:
                new = ob.time_as_observations()
            else:
                new = ob.time_as_observations(by)
        elif op == 'time_as_channels':
            new = ob.time_as_channels()
        elif op == 'df':
            first = list(ob.channel_descriptors.keys())[0]
            df = ob.to_df() if (by == first and variant % 2 == 0) else ob.to_df(channel_descriptor=by)
            names = list(ob.channel_descriptors[by])
            other_float = [c for c, t in df.dtypes.items() if 'float' in str(t) and not any(c is n or c == n for n in names)]
            if not other_float and len(names) == sum('float' in str(t) for t in df.dtypes) and variant % 4 < 2:
                new = Dataset.from_df(df, channel_descriptor=by)      # float columns are the channels
            else:
                new = Dataset.from_df(df, channels=names, channel_descriptor=by)
            extra = ('df', df)
        elif op == 'copy':
            new = ob.copy()
        elif op == 'saveload':
            ft = 'hdf5' if variant % 2 == 0 else 'pkl'
            if variant % 4 < 2:
                fd, path = tempfile.mkstemp(suffix='.h5' if ft == 'hdf5' else '.pkl', dir=scratch)
                os.close(fd)
                ob.save(path, file_type=ft, overwrite=True)
                new = load_dataset(path, file_type=ft if variant % 8 < 4 else None)
                os.unlink(path)
            else:
                buf = io.BytesIO()
                ob.save(buf, file_type=ft)
                buf.seek(0)
                new = load_dataset(buf, file_type=ft)
        elif op == 'dict':
            new = dataset_from_dict(ob.to_dict())
        elif op == 'average_by':
            extra = ('avg', average_dataset_by(ob, by))
        elif op == 'average':
            extra = ('mean', average_dataset(ob))
        elif op == 'tensor':
            extra = ('tensor', ob.get_measurements_tensor(by))
        elif op == 'drop':
            del heap[o]
        else:
            raise ValueError(op)
    if new is not None:
        heap[free_slot(heap, maxobj)] = new
        if op in ('copy', 'dict', 'saveload') and not any(k in ob.obs_descriptors for k in MISSKEYS) \
                and not any(k in ob.descriptors for k in MISSKEYS):
            # __eq__: a value copy equals its source and vice versa (NaN-valued missing entries
            # excepted: NaN != NaN)
            eq = (bool(new == ob), bool(ob == new))
            if eq != (True, True):
                raise EqualityError(f'{op}: copy == source is {eq[0]}, source == copy is {eq[1]}')
    return extra


# ------------------------------------------------------------------ comparing what a call returned
def _num_eq(x, fr):
    return abs(float(x) - float(Fraction(fr[0], fr[1]))) <= CTX['numtol']


def _label_eq(key, real, spec):
    try:
        return dec(key, real) == spec
    except (ProjectionError, TypeError, ValueError):
        return False


def check_out(e, extra, out_expected):
    """compare the value(s) returned by the call with the specification's OutOf(h, e), given as a
    list of observable projections (splits) or group records.  Returns None or (field, detail)."""
    op, by = e['op'], e['by']
    if op in MULTIPART:
        parts = extra[1]
        if len(parts) != len(out_expected):
            return 'parts/count', f'{len(parts)} parts returned, {len(out_expected)} expected'
        for i, (p, x) in enumerate(zip(parts, out_expected)):
            try:
                real = project(p)
            except ProjectionError as pe:
                if pe.cls:
                    return f'CLASS/{pe.cls}', f'part {i}: {pe}'
                return f'parts/{pe.field}', f'part {i}: {pe}'
            f = diff(real, x)
            if f:
                return f'parts/{f}', {'part': i, 'real': _get(real, f), 'spec': _get(x, f)}
        return None
    if op == 'average_by':
        avg, uniq, n = extra[1]
        if len(uniq) != len(out_expected) or avg.shape[0] != len(out_expected):
            return 'groups', f'{len(uniq)} groups, {len(out_expected)} expected'
        for g, x in enumerate(out_expected):
            if not _label_eq(by, uniq[g], _plain(x['label'])):
                return 'label', f'group {g}: label {uniq[g]!r}, expected {x["label"]}'
            if int(n[g]) != x['n']:
                return 'n', f'group {g}: n_obs {n[g]}, expected {x["n"]}'
            if avg.shape[1] != len(x['mean']) or not all(_num_eq(avg[g, c], x['mean'][c]) for c in range(len(x['mean']))):
                return 'mean', f'group {g}: {avg[g].tolist()} expected {x["mean"]}'
        return None
    if op == 'average':
        mean = np.asarray(extra[1], dtype=float)
        mean = mean.reshape(mean.shape[0], -1)
        if mean.shape != (len(out_expected), len(out_expected[0])):
            return 'shape', f'average has shape {mean.shape}'
        for c in range(mean.shape[0]):
            for k in range(mean.shape[1]):
                if not _num_eq(mean[c, k], out_expected[c][k]):
                    return 'mean', f'channel {c} time {k}: {mean[c, k]} expected {out_expected[c][k]}'
        return None
    if op == 'tensor':
        ten, uniq = extra[1]
        if len(uniq) != len(out_expected) or ten.shape[0] != len(out_expected):
            return 'groups', f'{len(uniq)} groups, {len(out_expected)} expected'
        for g, x in enumerate(out_expected):
            if not _label_eq(by, uniq[g], _plain(x['label'])):
                return 'label', f'group {g}: label {uniq[g]!r}, expected {x["label"]}'
            cells = x['cells']
            if ten.shape[1:] != (len(cells), len(cells[0])):
                return 'shape', f'tensor shape {ten.shape}'
            for c in range(len(cells)):
                for j in range(len(cells[0])):
                    if not _num_eq(ten[g, c, j], cells[c][j]):
                        return 'cells', f'group {g} channel {c} item {j}: {ten[g, c, j]} expected {cells[c][j]}'
        return None
    return None


def _plain(x):
    return [_plain(y) for y in x] if isinstance(x, (list, tuple)) else x


def check_df(df, pre, by):
    """the DataFrame lists every observation with its channel values under the channel names and
    with every observation / dataset descriptor value (pre = projection of the source object)"""
    nr = len(pre['val'])
    if len(df) != nr:
        return f'{len(df)} rows in the DataFrame for {nr} observations'
    names = list(df.columns[:len(pre['val'][0])])
    try:
        if [dec(by, n) for n in names] != pre['cd'][by]:
            return f'channel columns {names} for channel labels {pre["cd"][by]}'
    except (ProjectionError, TypeError, ValueError) as ex:
        return f'channel columns {names}: {ex}'
    vals = df.iloc[:, :len(names)].values
    for r in range(nr):
        for c in range(len(names)):
            if not _num_eq(vals[r, c], pre['val'][r][c][0]):
                return f'row {r} column {c}: {vals[r, c]}'
        for k in OKEYS:
            col = pre['od'][k]
            want = col[r] if col else (pre['dd'][k] if pre['dd'][k] != absent(k) else None)
            if want is None:
                continue
            if k not in df.columns or not _label_eq(k, df[k].iloc[r], want):
                return f'row {r}: descriptor {k} is {df[k].iloc[r] if k in df.columns else None!r}, expected {want}'
    return None


def _get(proj, field):
    if '/' in field:
        a, b = field.split('/', 1)
        return proj.get(a, {}).get(b) if isinstance(proj.get(a), dict) else None
    if field == 'shape':
        v = proj['val']
        return [len(v), len(v[0]) if v else 0, len(v[0][0]) if v else 0]
    return proj.get(field)


# ------------------------------------------------------------------ classes of failures (stable keys)
def _shape_class(pre):
    """configuration class of the target object, for violation keys"""
    nr, nc, nt = len(pre['val']), len(pre['val'][0]), len(pre['val'][0][0])
    if nc == 1:
        return 'single-channel'
    if nr == 1:
        return 'single-observation'
    if nt == 1 and pre['kind'] == 'T':
        return 'single-time'
    return 'general'


def classify_raise(e, pre, ob, ex):
    op = e['op']
    name = type(ex).__name__
    if isinstance(ex, EqualityError):
        return f'{op}/eq'
    if op == 'time_as_observations':
        return f'{op}/{_shape_class(pre)}/raises/{name}'
    if op == 'bin_time' and isinstance(getattr(ob, 'time_descriptors', {}).get('time'), list):
        return f'{op}/list-time-descriptor/raises/{name}'
    return f'{op}/raises/{name}'


def classify_diff(e, pre, real, spec, field):
    op = e['op']
    if op == 'sort_by' and real is not None:
        by = e['by']
        key = (lambda v: Fraction(v[0], v[1])) if by in RATKEYS else (lambda v: v)
        rcol, scol = real['od'][by], spec['od'][by]
        items_r = sorted(zip(map(repr, real['val']), *[map(repr, real['od'][k]) for k in OKEYS if real['od'][k]]))
        items_s = sorted(zip(map(repr, spec['val']), *[map(repr, spec['od'][k]) for k in OKEYS if spec['od'][k]]))
        if rcol == scol and rcol and all(key(rcol[i]) <= key(rcol[i + 1]) for i in range(len(rcol) - 1)) \
                and items_r == items_s:
            # sorted, every row still with its own descriptors, but ties not in their original order
            return f"sort_by/unstable/{'temporal' if pre['kind'] == 'T' else 'flat'}"
    return f'{op}/{field}'


# ------------------------------------------------------------------ S -> I
def project_heap(heap, maxobj):
    return [project(heap[o]) if o in heap else dict(NULL_OBS) for o in range(1, maxobj + 1)]


def replay(src, hist, maxobj, flavour, variant=0, scratch=None, layout=None, dtype=None, timeflav=None):
    """Step one TLC behaviour through real objects.  Returns None or (step, key-suffix, detail)."""
    layout = layout or LAYOUTS[variant % 4]
    d0, t0 = pick_flavours(variant, {st['ev']['op'] for st in hist})
    dtype, timeflav = dtype or d0, timeflav or t0
    configure(dtype, timeflav)
    heap = {1: make_source(src, flavour, layout, dtype)}
    prev = [expected(None)] * maxobj
    prev[0] = project(heap[1])
    for k, st in enumerate(hist):
        e = st['ev']
        pre = prev[e['o'] - 1]
        target_before = heap[e['o']]
        try:
            extra = apply_event(heap, e, flavour, maxobj, scratch=scratch, variant=variant + k)
        except Exception as ex:  # the specification says the operation is admissible here
            return k, classify_raise(e, pre, target_before, ex), f'{type(ex).__name__}: {ex}'
        post = [expected(x) for x in st['post']]
        new_slot = None
        if e['op'] in PRODUCERS:
            new_slot = next(o for o in range(1, maxobj + 1) if prev[o - 1]['kind'] == 'N')
        for o in range(1, maxobj + 1):
            spec_ob = post[o - 1]
            live_spec = spec_ob['kind'] != 'N'
            if (o in heap) != live_spec:
                return k, f"{e['op']}/liveness", f'slot {o}'
            if not live_spec:
                continue
            is_result = (o == new_slot) or (o == e['o'] and e['op'] == 'sort_by')
            try:
                real = project(heap[o])
            except ProjectionError as pe:
                where = e['op'] if is_result else f"frame/{e['op']}"
                if pe.cls and is_result:     # every such operation goes through merge_datasets
                    return k, f'merge_datasets/{pe.cls}', str(pe)
                return k, f'{where}/{pe.field}', str(pe)
            f = diff(real, spec_ob)
            if f:
                if is_result:
                    return k, classify_diff(e, pre, real, spec_ob, f), {'slot': o, 'field': f, 'real': _get(real, f), 'spec': _get(spec_ob, f)}
                return k, f"frame/{e['op']}/{f}", {'slot': o, 'real': _get(real, f), 'spec': _get(spec_ob, f)}
        if extra is not None:
            if extra[0] == 'df':
                msg = check_df(extra[1], pre, e['by'])
                if msg:
                    return k, 'df/to_df', msg
            else:
                out = st['out']
                if e['op'] in MULTIPART:
                    out = [expected(x) for x in out]
                res = check_out(e, extra, out)
                if res:
                    if res[0].startswith('CLASS/'):
                        return k, f"merge_datasets/{res[0][6:]}", res[1]
                    return k, f"{e['op']}/out/{res[0]}", res[1]
        prev = post
    return None


# ------------------------------------------------------------------ I -> S: random histories
def _grid(x, den):
    x = float(x)
    n = round(x * den)
    if not np.isfinite(x) or abs(x * den - n) > max(CTX['tol60'], 1e-6) * den / 60:
        raise ProjectionError('out', f'{x!r} is not a mean of the group\'s cells')
    return Fraction(n, den)


def _tp(v, o, c):
    return Fraction(v[0], v[1]) - 101 * o - 10 * c


def _ids(a):
    """decode observation id per row and channel id per column from the cells themselves"""
    val = a['val']
    obs = [int(Fraction(val[r][0][0][0], val[r][0][0][1]) // 101) for r in range(len(val))]
    ch = [int((Fraction(val[0][c][0][0], val[0][c][0][1]) - 101 * obs[0]) // 10) for c in range(len(val[0]))]
    return obs, ch


def _colsig(a):
    """what identifies the columns / time slices of an object beyond its descriptors"""
    obs, ch = _ids(a)
    val = a['val']
    if a['kind'] == 'T' or a['cd']['time']:
        return [[(ch[c], _tp(val[0][c][t], obs[0], ch[c])) for t in range(len(val[0][c]))] for c in range(len(ch))]
    return [[(ch[c],)] for c in range(len(ch))]


def _untracked(a):
    """a flat object whose cells carry a time part that no descriptor reports any more"""
    if a['kind'] != 'F' or a['cd']['time'] or a['od']['time'] or a['dd']['time']:
        return False
    obs, ch = _ids(a)
    return any(_tp(a['val'][r][c][0], obs[r], ch[c]) != 0 for r in range(len(obs)) for c in range(len(ch)))


def _groups(col):
    u = []
    for v in col:
        if v not in u:
            u.append(v)
    return u, [[i for i, x in enumerate(col) if x == v] for v in u]


def random_trace(rng, src, const, flavour, length, ops, scratch=None, layout='C', dtype='float64', timeflav='f1'):
    """random admissible history on real objects; returns the list of events with the projected
    post heap and output.  Admissibility mirrors Enabled() of the specification; the trace
    specification checks Enabled() itself, so a disagreement shows up as 'not enabled' (a machinery
    error, not a verdict)."""
    maxobj, maxrows, maxcols, maxtims = const['MaxObj'], const['MaxRows'], const['MaxCols'], const['MaxTims']
    configure(dtype, timeflav)
    if timeflav not in TIMEFLAVS_EXACT:
        ops = [x for x in ops if x != 'bin_time']
    heap = {1: make_source(src, flavour, layout, dtype)}
    kind, no, nc0, nt0 = src_fields(src)
    # ghost time weights of temporal objects, only to respect the MaxDen enabling condition of bin_time
    ghost = {1: [[Fraction(int(u == t)) for u in range(nt0)] for t in range(nt0)] if kind not in (1, 4) else None}
    events = []
    tries = 0
    while len(events) < length and tries < length * 40:
        tries += 1
        o = int(rng.choice(sorted(heap)))
        a = project(heap[o])
        op = str(rng.choice(ops))
        nr, nc, nt = len(a['val']), len(a['val'][0]), len(a['val'][0][0])
        okeys = [k for k in OKEYS if a['od'][k]]
        ckeys = [k for k in CKEYS if a['cd'][k]]
        tkeys = [k for k in TKEYS if a['td'][k]]
        free = free_slot(heap, maxobj)
        e = {'op': op, 'o': o, 'o2': 0, 'by': '', 'by2': '', 'vals': []}
        newghost = None
        if op in PRODUCERS and free is None:
            continue
        if op in ('split_obs', 'split_merge', 'subset_obs', 'sort_by', 'odd_even', 'nested_odd_even', 'average_by', 'tensor'):
            cand = [k for k in okeys if not (op == 'sort_by' and k == 'bins')
                    and not (k in MISSKEYS and op != 'subset_obs')]
            if not cand or (op in ('average_by', 'tensor') and a['kind'] != 'F'):
                continue
            e['by'] = str(rng.choice(cand))
            col = a['od'][e['by']]
            u, gs = _groups(col)
            newghost = ghost[o]
            if op == 'split_obs':
                e['o2'] = int(rng.integers(1, min(len(u), 4) + 1))
            elif op == 'subset_obs':
                kk = int(rng.integers(1, 3))
                u = [v for v in u if not (e['by'] in MISSKEYS and v == MISSING)]
                if not u:
                    continue
                e['vals'] = [u[int(i)] for i in rng.integers(0, len(u), size=kk)]
            elif op == 'odd_even':
                if len(u) < 2:
                    continue
                e['o2'] = int(rng.integers(1, 3))
            elif op == 'nested_odd_even':
                e['by2'] = str(rng.choice([k for k in okeys if k not in MISSKEYS]))
                col2 = a['od'][e['by2']]
                if any(len({repr(col2[i]) for i in g}) < 2 for g in gs):
                    continue
                e['o2'] = int(rng.integers(1, 3))
            elif op == 'tensor':
                if len({len(g) for g in gs}) != 1:
                    continue
        elif op in ('split_channel', 'subset_channel', 'df'):
            if not ckeys or (op == 'df' and a['kind'] != 'F'):
                continue
            e['by'] = str(rng.choice(ckeys))
            col = a['cd'][e['by']]
            u, gs = _groups(col)
            newghost = ghost[o]
            if op == 'split_channel':
                e['o2'] = int(rng.integers(1, min(len(u), 4) + 1))
            elif op == 'subset_channel':
                kk = int(rng.integers(1, 3))
                e['vals'] = [u[int(i)] for i in rng.integers(0, len(u), size=kk)]
            elif len(u) != len(col):
                continue
            if op == 'df':
                newghost = None
        elif op in ('split_time', 'subset_time', 'time_as_observations'):
            if a['kind'] != 'T':
                continue
            cand = [k for k in tkeys if not (op == 'subset_time' and k == 'bins')]
            e['by'] = str(rng.choice(cand))
            col = a['td'][e['by']]
            u, gs = _groups(col)
            if op == 'split_time':
                e['o2'] = int(rng.integers(1, min(len(u), 4) + 1))
                newghost = [ghost[o][i] for i in gs[e['o2'] - 1]]
            elif op == 'subset_time':
                key = (lambda v: Fraction(v[0], v[1])) if e['by'] in RATKEYS else (lambda v: v)
                lo, hi = sorted([u[int(rng.integers(0, len(u)))], u[int(rng.integers(0, len(u)))]], key=key)
                e['vals'] = [lo, hi]
                newghost = [ghost[o][i] for i in range(nt) if key(lo) <= key(col[i]) <= key(hi)]
            else:
                if len(u) != len(col) or nr * nt > maxrows:
                    continue
        elif op == 'time_as_channels':
            if a['kind'] != 'T' or nc * nt > maxcols:
                continue
        elif op == 'bin_time':
            if a['kind'] != 'T':
                continue
            e['by'] = str(rng.choice([k for k in tkeys if k in RATKEYS]))
            col = a['td'][e['by']]
            u, _ = _groups(col)
            nb = int(rng.integers(1, maxtims + 1))
            bins = []
            for _ in range(nb):
                size = int(rng.integers(1, len(u) + 1))
                pick = sorted(rng.choice(len(u), size=size, replace=False).tolist())
                bins.append(sorted([u[i] for i in pick], key=lambda v: Fraction(v[0], v[1])))
            newghost = []
            for b in bins:
                mem = [i for i in range(nt) if col[i] in b]
                newghost.append([sum(ghost[o][i][t] for i in mem) / len(mem) for t in range(len(ghost[o][0]))])
            dens = []
            for w in newghost:
                d = 1
                for x in w:
                    d = d * x.denominator // np.gcd(d, x.denominator)
                dens.append(int(d))
            if max(dens) > const['MaxDen']:
                continue
            e['vals'] = bins
        elif op == 'merge':
            o2 = int(rng.choice(sorted(heap)))
            b = project(heap[o2])
            e['o2'] = o2
            if nr + len(b['val']) > maxrows or a['kind'] != b['kind']:
                continue
            if any(x['dd'][k] == MISSING for x in (a, b) for k in MISSKEYS):
                continue
            if o2 != o:
                if _untracked(a) or _untracked(b) or a['cd'] != b['cd'] or a['td'] != b['td'] or _colsig(a) != _colsig(b):
                    continue
                if a['kind'] == 'T' and ghost[o] != ghost[o2]:
                    continue
            newghost = ghost[o]
        elif op in ('copy', 'saveload', 'dict'):
            newghost = ghost[o]
        elif op == 'average':
            pass
        elif op == 'drop':
            if len(heap) < 2:
                continue
        else:
            raise ValueError(op)
        target_before = heap[o]
        try:
            extra = apply_event(heap, e, flavour, maxobj, scratch=scratch, variant=int(rng.integers(0, 24)))
        except Exception as ex:
            events.append({'ev': e, 'post': None, 'error': f'{type(ex).__name__}: {ex}',
                           'key': classify_raise(e, a, target_before, ex)})
            break
        lost = False
        if op in PRODUCERS:
            ghost[free] = newghost if heap[free].__class__.__name__ == 'TemporalDataset' else None
            # the ghost only serves admissibility; if the real object does not even have the expected
            # number of time slices, record this event (the trace specification will reject it) and stop
            lost = ghost[free] is not None and len(ghost[free]) != heap[free].measurements.shape[-1]
        elif op == 'drop':
            ghost.pop(o, None)
        try:
            post = project_heap(heap, maxobj)
            out = []
            if extra is not None and extra[0] == 'parts':
                out = [project(p) for p in extra[1]]
            elif extra is not None and extra[0] == 'avg':
                avg, uniq, n = extra[1]
                # a mean of n rows whose cells have denominators dividing 60
                out = [{'label': dec(e['by'], uniq[g]), 'n': int(n[g]),
                        'mean': [q(_grid(x, 60 * max(int(n[g]), 1))) for x in avg[g]]} for g in range(len(uniq))]
            elif extra is not None and extra[0] == 'mean':
                mean = np.asarray(extra[1], dtype=float)
                mean = mean.reshape(mean.shape[0], -1)
                out = [[q(_grid(x, 60 * nr)) for x in row] for row in mean]
            elif extra is not None and extra[0] == 'tensor':
                ten, uniq = extra[1]
                out = [{'label': dec(e['by'], uniq[g]),
                        'cells': [[q(_frac(x)) for x in ten[g, c]] for c in range(ten.shape[1])]} for g in range(len(uniq))]
        except ProjectionError as pe:
            events.append({'ev': e, 'post': None, 'error': f'projection/{pe.field}: {pe}',
                           'key': f'merge_datasets/{pe.cls}' if pe.cls else f'{op}/{pe.field}'})
            break
        if extra is not None and extra[0] == 'df':
            msg = check_df(extra[1], a, e['by'])
            if msg:
                events.append({'ev': e, 'post': None, 'error': f'to_df: {msg}', 'key': 'df/to_df'})
                break
        events.append({'ev': e, 'post': post, 'out': out})
        if lost:
            break
    return events
