"""Drivers, kernels and recorder for specs/Unbalanced.tla (property C15).

* ``engine_check`` compares cengine/similarity.pyx with the source lines Cython embedded as comments
  in the generated similarity.c; an edited .pyx cannot be rebuilt in this sandbox (no Cython), so a
  difference is a MachineryError("compiled engine stale") - never a pass on old code.
* ``check_record`` replays one record emitted by TLC into calc_rdm_unbalanced and calc_one_similarity
  in one dtype / memory-layout / label-type flavour, compares labels exactly and values at rtol 1e-10
  with the exact rationals of the specification (dot / quadratic kernels) or with the kernel fed with
  the pairs, factors, weights and statistics the specification fixed (correlation: sqrt; Poisson:
  log), and compares with calc_rdm on the design classes where the definitions coincide.
* ``record_design`` issues larger random integer designs for Trace_Unbalanced.

Known-defect classes of the compiled engine are keyed by CLASS (kernel, NaN presence, weighting,
cross-validation), never by value: the mahalanobis kernel reads past its buffers when channels are
missing, its result is not deterministic.
"""
from __future__ import annotations

import math
import os
import re
from fractions import Fraction
from pathlib import Path

import numpy as np

import rsatoolbox
from rsatoolbox.data import Dataset
from rsatoolbox.rdm import calc_rdm, calc_rdm_unbalanced
from rsatoolbox.rdm.calc_unbalanced import calc_one_similarity

from harness.core import MachineryError

NAN = float('nan')
RTOL = 1e-10
ATOL = 1e-12
PRIOR_LAMBDA, PRIOR_WEIGHT = 1.0, 0.1
INVARIANTS = ['CondOrder', 'BalancedAnyReps', 'SingleObsStructure', 'SingleObsCvIsNaN', 'CrossFoldBalanced',
              'PoissonCoefficients', 'NaNChannelIsDeleted', 'NaNIffNoPair', 'PairsAdmissible',
              'WeightingIrrelevantWhenComplete', 'ReverseInvariant', 'NoDescIsSingle']
ALL_METHODS = ('euclidean', 'correlation', 'mahalanobis', 'crossnobis', 'poisson', 'poisson_cv')


# ------------------------------------------------------------------------------------------------
# the compiled engine must be the code that is in the tree
# ------------------------------------------------------------------------------------------------
def engine_check():
    """-> dict for the evidence file; raises MachineryError('compiled engine stale ...')"""
    pkg = Path(rsatoolbox.__file__).resolve().parent / 'cengine'
    pyx = pkg / 'similarity.pyx'
    so = [p for p in pkg.glob('similarity*.so')]
    import importlib
    import sys
    importlib.import_module('rsatoolbox.cengine.similarity')
    eng = sys.modules['rsatoolbox.cengine.similarity']
    if not so or Path(eng.__file__).resolve().parent != pkg:
        raise MachineryError(f'compiled engine is not loaded from the tree under test: {eng.__file__}')
    cfile = pkg / 'similarity.c'
    ref = 'similarity.c next to the .pyx'
    if not cfile.exists():
        # a scratch worktree: similarity.c is git-ignored; the reference is the generated C file of the
        # installed tree PROVIDED the extension module is byte-identical to the installed one
        base = Path('/repo/src/rsatoolbox/cengine')
        bso = list(base.glob('similarity*.so'))
        if (base / 'similarity.c').exists() and bso and bso[0].read_bytes() == so[0].read_bytes():
            cfile = base / 'similarity.c'
            ref = 'similarity.c of /repo (extension module byte-identical)'
        else:
            raise MachineryError('compiled engine stale: no generated similarity.c to compare similarity.pyx with')
    if cfile.stat().st_mtime > so[0].stat().st_mtime + 600 and cfile.parent == pkg:
        raise MachineryError('compiled engine stale: similarity.c is newer than the extension module')
    src = pyx.read_text().split('\n')
    text = cfile.read_text(errors='replace')
    embedded = {}
    for m in re.finditer(r'/\* "rsatoolbox/cengine/similarity\.pyx":(\d+)\n(.*?)\*/', text, re.S):
        n = int(m.group(1))
        body = [ln for ln in m.group(2).split('\n')]
        lines = []
        for ln in body:
            ln = ln.rstrip()
            if ln.startswith(' * '):
                lines.append(ln[3:])
            elif ln.strip() in ('*', ''):
                if ln.strip() == '*':
                    lines.append('')
            else:
                lines.append(ln.lstrip(' *'))
        mark = [k for k, ln in enumerate(lines) if ln.rstrip().endswith('# <<<<<<<<<<<<<<')]
        if len(mark) != 1:
            continue
        k0 = mark[0]
        for k, ln in enumerate(lines):
            if k == k0:
                ln = ln[:ln.rstrip().rfind('# <<<<<<<<<<<<<<')]
            embedded.setdefault(n + (k - k0), set()).add(ln.rstrip())
    if len(embedded) < 100:
        raise MachineryError(f'could not read the embedded source of similarity.c ({len(embedded)} lines)')
    diff = []
    for n, variants in sorted(embedded.items()):
        cur = src[n - 1].rstrip() if 0 < n <= len(src) else None
        if cur not in variants:
            diff.append((n, cur, sorted(variants)[0]))
    if diff:
        n, cur, was = diff[0]
        raise MachineryError(f'compiled engine stale: similarity.pyx differs from the source the extension was '
                             f'generated from at {len(diff)} line(s); first: line {n}: now {cur!r}, compiled {was!r}')
    return {'reference': ref, 'embedded_lines_compared': len(embedded), 'pyx_lines': len(src)}


# ------------------------------------------------------------------------------------------------
# TLC configuration
# ------------------------------------------------------------------------------------------------
def _set(xs):
    return '{' + ', '.join(f'"{x}"' if isinstance(x, str) else str(x) for x in xs) + '}'


def cfg(*, nobs, nch, nlab, nfold=2, vals=(0, 1, 2), datasrc='cat', dataids=(1,), methods=ALL_METHODS,
        weightings=('number', 'equal'), precids=(0, 1), foldmodes=('none', 'given'), nanmode='none',
        design='any', nodescs=(False,), idxkinds=('none',), priors=(False,), emitmod=1, spec=None, invariants=True):
    lines = ['CONSTANTS', f'  NObs = {nobs}', f'  NCh = {nch}', f'  NLab = {nlab}', f'  NFold = {nfold}',
             f'  Vals = {_set(vals)}', f'  DataSrc = "{datasrc}"', '  DataCat <- DataCatDef',
             f'  DataIds = {_set(dataids)}', f'  Methods = {_set(methods)}', f'  Weightings = {_set(weightings)}',
             '  PrecCat <- PrecCatDef', f'  PrecIds = {_set(precids)}', f'  FoldModes = {_set(foldmodes)}',
             f'  NanMode = "{nanmode}"', f'  Design = "{design}"',
             '  NoDescs = {' + ', '.join('TRUE' if b else 'FALSE' for b in nodescs) + '}',
             f'  IdxKinds = {_set(idxkinds)}',
             '  Priors = {' + ', '.join('TRUE' if b else 'FALSE' for b in priors) + '}', f'  EmitMod = {emitmod}']
    if spec:
        lines.append(f'SPECIFICATION {spec}')
        lines += [f'INVARIANT {i}' for i in INVARIANTS]
    else:
        lines += ['INIT Init', 'NEXT Next']
        lines += [f'INVARIANT {i}' for i in INVARIANTS] + ['INVARIANT Emit', 'PROPERTY DatasetFrame']
    lines.append('CHECK_DEADLOCK FALSE')
    return '\n'.join(lines) + '\n'


def trace_cfg():
    return cfg(nobs=1, nch=1, nlab=1, spec='TSpec')


# ------------------------------------------------------------------------------------------------
# kernels: the last irrational step on the statistics the specification fixed
# ------------------------------------------------------------------------------------------------
def _rate(x):
    return (x + PRIOR_LAMBDA * PRIOR_WEIGHT) / (1 + PRIOR_WEIGHT)


def sim_value(kind, st):
    if kind in ('dot', 'quad'):
        return float(st)
    if kind == 'corr':
        return st['ab'] / math.sqrt(st['aa'] * st['bb']) * st['n'] / 2.0
    if kind == 'pois':
        s = 0.0
        for xa, xb in st:
            ra, rb = _rate(xa), _rate(xb)
            s += (rb - ra) * (math.log(ra) - math.log(rb))
        return s / 2.0
    raise ValueError(kind)


def slot_value(kind, slot, weighting):
    """value and weight sum of one slot from its pair list (a, b, f2, w, st)"""
    if not slot['pairs']:
        return NAN, 0.0
    ws = slot['wsum'][0] / slot['wsum'][1]
    acc = 0.0
    for p in slot['pairs']:
        s = sim_value(kind, p['st']) * p['f2'] / 2.0
        acc += s if weighting == 'number' else s / p['w']
    return acc / ws, ws


def expected_rdm(rec):
    """-> (conds, rdm floats with NaN, self slot values, cross slot values/weights)"""
    out = rec['out']
    kind = out['kind']
    nc = len(out['conds'])
    selfv = [slot_value(kind, s, rec['w'])[0] for s in out['self']]
    cross = [slot_value(kind, s, rec['w']) for s in out['cross']]
    pairs = [(k, l) for k in range(nc) for l in range(k + 1, nc)]
    rdm = np.array([selfv[k] + selfv[l] - 2 * cross[p][0] for p, (k, l) in enumerate(pairs)])
    if kind in ('dot', 'quad'):       # the kernel arithmetic against the exact rationals of TLC
        ex = np.array([NAN if q == [0, 0] else q[0] / q[1] for q in out['rdm']])
        if not np.array_equal(np.isnan(ex), np.isnan(rdm)) or \
                not np.allclose(np.nan_to_num(ex), np.nan_to_num(rdm), rtol=1e-13, atol=1e-13):
            raise KernelMismatch(f'slot arithmetic {rdm} != exact {out["rdm"]}')
        for s, v in zip(out['self'] + out['cross'], selfv + [c[0] for c in cross]):
            e = NAN if s['val'] == [0, 0] else s['val'][0] / s['val'][1]
            if not (math.isnan(e) and math.isnan(v)) and abs(e - v) > 1e-13 * max(1, abs(e)):
                raise KernelMismatch(f'slot value {v} != exact {s["val"]}')
    if not np.array_equal(np.isnan(rdm), np.array(out['nan'], dtype=bool)):
        raise KernelMismatch('NaN pattern of the kernel differs from the specification')
    return out['conds'], rdm, selfv, cross


class KernelMismatch(Exception):
    pass


# independent array-form kernels for the balanced side (only used to DIAGNOSE a calc_rdm deviation)
def balanced_poisson_cv_per_fold(X, lab, fold):
    labs = sorted(set(lab))
    folds = sorted(set(fold))
    res = []
    for f in folds:
        tr = np.array([np.mean([X[o] for o in range(len(lab)) if lab[o] == k and fold[o] != f], axis=0) for k in labs])
        te = np.array([np.mean([X[o] for o in range(len(lab)) if lab[o] == k and fold[o] == f], axis=0) for k in labs])
        tr, te = _rate(tr), _rate(te)
        Kmat = tr @ np.log(te).T
        d = np.diag(Kmat)
        r = d[None, :] + d[:, None] - Kmat - Kmat.T
        res.append(np.array([r[i, j] for i in range(len(labs)) for j in range(i + 1, len(labs))]) / X.shape[1])
    return labs, res


# ------------------------------------------------------------------------------------------------
# flavours
# ------------------------------------------------------------------------------------------------
DTYPES = ('float64', 'float32', 'int64', 'int32')
LAYOUTS = ('C', 'F', 'slice')
LABEL_MAPS = {'int': lambda k: int(k) * 7 % 10,                      # not monotone: 1->7, 2->4, 3->1
              'str': lambda k: {1: 'pear', 2: 'apple', 3: 'fig', 4: 'kiwi', 5: 'date', 6: 'lime'}.get(k, f'c{k}'),
              'int10': lambda k: {1: 9, 2: 10, 3: 2, 4: 100, 5: 11, 6: 1}.get(k, 1000 + k)}   # '10' < '9' as strings
FOLD_MAPS = {'int': lambda f: int(f), 'int10': lambda f: {1: 9, 2: 10, 3: 100, 4: 11}.get(f, 1000 + f),
             'str': lambda f: f'run{f}', 'float': lambda f: float(f) / 2 - 0.25}      # 0.25, 0.75, 1.25: distinct, equal when truncated


def flavour(i, complete):
    dt = DTYPES[i % 4] if complete else DTYPES[i % 2]
    return {'dtype': dt, 'layout': LAYOUTS[(i // 4) % 3], 'lab': ('int', 'str', 'int10')[(i // 2) % 3],
            'cont': ('list', 'array')[(i // 3) % 2], 'fold': ('int', 'int10', 'str', 'float')[(i // 5) % 4],
            'noise_layout': ('C', 'F')[(i // 7) % 2]}


def _layout(a, layout):
    if layout == 'C':
        return np.ascontiguousarray(a)
    if layout == 'F':
        return np.asfortranarray(a)
    big = np.zeros((a.shape[0] * 2, a.shape[1] * 2 + 1), dtype=a.dtype)
    big[:] = 99 if a.dtype.kind in 'iu' else 77.5
    big[::2, 1::2] = a
    v = big[::2, 1::2]
    assert not v.flags['C_CONTIGUOUS'] and not v.flags['F_CONTIGUOUS']
    return v


def measurements(rec, fl):
    X = np.array(rec['x'], dtype=float)
    for o, vs in enumerate(rec['valid']):
        for c in range(X.shape[1]):
            if (c + 1) not in vs:
                X[o, c] = NAN
    return _layout(X.astype(fl['dtype']), fl['layout'])


def index_values(kind, n):
    """an obs descriptor NAMED 'index' the dataset already carries: unique but permuted values, or repeated
    values (a within-run trial counter, two merged sessions)"""
    if kind == 'perm':
        return [(3 * o + 1) % n if n % 3 else n - 1 - o for o in range(n)]
    return [o % ((n + 1) // 2) for o in range(n)]


def make_dataset(rec, fl, *, use_desc=True):
    M = measurements(rec, fl)
    lab = [LABEL_MAPS[fl['lab']](k) for k in rec.get('dlab', rec['lab'])]
    od = {}
    od['cond'] = lab if fl['cont'] == 'list' else np.array(lab)
    if rec.get('idx', 'none') != 'none':
        iv = [int(v) for v in rec['ival']]              # the values the specification chose (IdxSeq)
        assert iv == index_values(rec['idx'], len(lab))
        od['index'] = iv if fl['cont'] == 'list' else np.array(iv)
    if rec['usefold']:
        f = [FOLD_MAPS[fl['fold']](k) for k in rec['fold']]
        od['fold'] = f if fl['cont'] == 'list' else np.array(f)
    od['trial'] = list(range(100, 100 + len(lab)))
    return Dataset(M, descriptors={'subj': 3}, obs_descriptors=od), lab


def noise_of(rec, fl):
    if not rec['prec']:
        return None
    N = np.array(rec['prec'], dtype=float)
    return np.asfortranarray(N) if fl['noise_layout'] == 'F' else np.ascontiguousarray(N)


# ------------------------------------------------------------------------------------------------
# classification of a deviation (by class, never by value)
# ------------------------------------------------------------------------------------------------
def dataset_fingerprint(ds):
    """everything a call could change on the caller's dataset object"""
    return (ds.measurements.dtype.str, ds.measurements.shape, np.ascontiguousarray(ds.measurements).tobytes(),
            tuple((k, repr(np.asarray(v).tolist())) for k, v in ds.obs_descriptors.items()),
            tuple((k, repr(np.asarray(v).tolist())) for k, v in ds.channel_descriptors.items()),
            repr(sorted(ds.descriptors.items())))


def fingerprint_diff(a, b):
    names = ('measurements dtype', 'shape', 'measurements', 'obs_descriptors', 'channel_descriptors', 'descriptors')
    return [n for n, x, y in zip(names, a, b) if x != y]


def design_class(rec):
    lab, fold = rec['lab'], rec['fold']
    nch = len(rec['x'][0])
    complete = all(len(v) == nch for v in rec['valid'])
    single = len(set(lab)) == len(lab)
    cv = rec['usefold'] or rec['m'] in ('crossnobis', 'poisson_cv')
    foldbal = onepercell = False
    if rec['usefold']:
        cells = {}
        for l, f in zip(lab, fold):
            cells[(l, f)] = cells.get((l, f), 0) + 1
        fs, ls = set(fold), set(lab)
        cnts = {cells.get((l, f), 0) for l in ls for f in fs}
        foldbal = len(fs) >= 2 and len(cnts) == 1 and 0 not in cnts
        onepercell = foldbal and cnts == {1}
    return {'complete': complete, 'single': single, 'cv': cv, 'foldbal': foldbal, 'onepercell': onepercell}


POISON = 'c/empty-self-slot/other-entries-nan'
FRAME_KEY = 'frame/cv-method-without-cv_descriptor/adds-index-to-callers-dataset'


def defect_class(rec, dc):
    """the known-defect class of the compiled engine an input belongs to (None: fully checked)"""
    kind = rec['out']['kind'] if 'out' in rec else None
    if kind is None:
        kind = 'corr' if rec['m'] == 'correlation' else 'quad' if (rec['m'] in ('mahalanobis', 'crossnobis') and rec['prec']) \
            else 'pois' if rec['m'].startswith('poisson') else 'dot'
    if rec['w'] == 'equal' and not dc['cv']:
        return 'a/weighting=equal/no-crossvalidation'
    if not dc['complete'] and kind == 'corr':
        return 'c/kernel=correlation/nan'
    if not dc['complete'] and kind == 'quad':
        return 'c/kernel=mahalanobis/nan'
    # a condition without any admissible pair of its own while other entries are defined
    if 'out' in rec and any(not s['pairs'] for s in rec['out']['self']) and not all(rec['out']['nan']):
        return POISON
    return None


def _same(got, exp):
    got = np.asarray(got, dtype=float)
    exp = np.asarray(exp, dtype=float)
    return got.shape == exp.shape and np.array_equal(np.isnan(got), np.isnan(exp)) and \
        np.allclose(np.nan_to_num(got), np.nan_to_num(exp), rtol=RTOL, atol=ATOL)


def _case(rec, fl, **kw):
    c = {k: rec[k] for k in ('dlab', 'nodesc', 'idx', 'prior', 'lab', 'fold', 'usefold', 'x', 'valid', 'm', 'w', 'prec')
         if k in rec}
    c['flavour'] = fl
    c.update(kw)
    return c


# ------------------------------------------------------------------------------------------------
# one record
# ------------------------------------------------------------------------------------------------
def check_record(rec, i):
    """-> (evaluations, [(key, what, case)], info)"""
    out = []
    dc = design_class(rec)
    fl = flavour(i, dc['complete'])
    conds, exp, selfv, cross = expected_rdm(rec)
    known = defect_class(rec, dc)
    m, w = rec['m'], rec['w']
    # descriptor=None (every observation its own condition): where the specification says so, and - as before -
    # for every third design that has one observation per condition anyway
    use_desc = not (rec.get('nodesc', False) or (dc['single'] and i % 3 == 2))
    ds, lab = make_dataset(rec, fl, use_desc=use_desc)
    noise = noise_of(rec, fl)
    kw = dict(method=m, descriptor='cond' if use_desc else None, noise=noise, weighting=w,
              cv_descriptor='fold' if rec['usefold'] else None)
    n = 1
    idx_kind = rec.get('idx', 'none')
    cv_default = dc['cv'] and not rec['usefold']          # the wrapper falls back to an 'index' obs descriptor
    if rec.get('prior', False):
        # two-step session on the SAME dataset object: a cross-validated call with the condition descriptor and
        # without a fold descriptor comes first
        n += 1
        fp0 = dataset_fingerprint(ds)
        try:
            calc_rdm_unbalanced(ds, method='crossnobis', descriptor='cond')
        except Exception as e:  # noqa: BLE001
            out.append((f'frame/prior-call/raises/{type(e).__name__}', repr(e), _case(rec, fl)))
        d = fingerprint_diff(fp0, dataset_fingerprint(ds))
        if d:
            out.append((FRAME_KEY, 'calc_rdm_unbalanced (cross-validated method, no cv_descriptor) changed the '
                        f'dataset object of the caller: {d}; obs descriptors now {list(ds.obs_descriptors)}',
                        _case(rec, fl, changed=d, obs_descriptors=list(ds.obs_descriptors))))
    fp_before = dataset_fingerprint(ds)
    cls = f'{m}/{w}/' + ('cv' if dc['cv'] else 'nocv') + '/' + ('complete' if dc['complete'] else 'nan')
    got = None
    try:
        r = calc_rdm_unbalanced(ds, **kw)
        got = np.asarray(r.dissimilarities, dtype=float)
    except Exception as e:  # noqa: BLE001
        out.append((known or f'a/raises/{type(e).__name__}/{cls}', f'calc_rdm_unbalanced raises {e!r}', _case(rec, fl)))
    d = fingerprint_diff(fp_before, dataset_fingerprint(ds))
    if d:
        out.append((FRAME_KEY if (cv_default and use_desc) else 'frame/modifies-callers-dataset',
                    f'calc_rdm_unbalanced changed the dataset object of the caller: {d}; obs descriptors now '
                    f'{list(ds.obs_descriptors)}', _case(rec, fl, changed=d, obs_descriptors=list(ds.obs_descriptors))))
    ok_main = False
    if got is not None:
        want_labels = [LABEL_MAPS[fl['lab']](k) for k in conds] if use_desc else list(range(len(rec['lab'])))
        dn = 'cond' if use_desc else 'index'
        got_labels = list(np.asarray(r.pattern_descriptors.get(dn, [])).tolist())
        if got_labels != want_labels:
            out.append((f'a/labels/{"descriptor" if use_desc else "no-descriptor"}' + ('' if idx_kind == 'none' else f'/index={idx_kind}'),
                        'conditions are not labelled in order of first appearance',
                        _case(rec, fl, got_labels=got_labels, expected_labels=want_labels)))
        if got.shape != (1, len(exp)):
            out.append((f'a/shape/{cls}', f'dissimilarities have shape {got.shape}', _case(rec, fl)))
        elif not _same(got[0], exp):
            out.append((known or f'a/value/{cls}' + ('' if use_desc else '/no-descriptor')
                        + ('' if idx_kind == 'none' else f'/index={idx_kind}'), 'calc_rdm_unbalanced differs from the average over admissible pairs',
                        _case(rec, fl, got=got[0], expected=exp)))
        else:
            ok_main = True
    # clause d: the same input as float64 / C order must give the identical answer (when it is not the base flavour)
    if got is not None and (fl['dtype'] != 'float64' or fl['layout'] != 'C') and known is None:
        n += 1
        base = dict(fl, dtype='float64', layout='C', noise_layout='C')
        ds0, _ = make_dataset(rec, base, use_desc=use_desc)
        try:
            g0 = np.asarray(calc_rdm_unbalanced(ds0, **dict(kw, noise=noise_of(rec, base))).dissimilarities, dtype=float)
            if not _same(got[0], g0[0]):
                out.append((f'd/dtype-or-layout/{fl["dtype"]}/{fl["layout"]}',
                            'result depends on dtype / memory layout of the measurements',
                            _case(rec, fl, got=got[0], float64_C=g0[0])))
        except Exception as e:  # noqa: BLE001
            out.append((f'd/raises/{type(e).__name__}', repr(e), _case(rec, base)))
    # clause b: the balanced estimator on the design classes where the definitions coincide
    if dc['complete'] and not use_desc and not dc['cv'] and m in ('euclidean', 'correlation', 'mahalanobis', 'poisson'):
        n += 1
        try:
            ds64, _ = make_dataset(rec, dict(fl, dtype='float64', layout='C'), use_desc=False)
            gb = np.asarray(calc_rdm(ds64, method=m, descriptor=None, noise=noise).dissimilarities, dtype=float)[0]
            if not _same(gb, exp) and (ok_main or known):
                out.append((f'b/{m}/calc_rdm-differs/no-descriptor', 'calc_rdm(descriptor=None) differs from '
                            'calc_rdm_unbalanced(descriptor=None)', _case(rec, fl, balanced=gb, expected=exp)))
        except Exception as e:  # noqa: BLE001
            out.append((f'b/{m}/calc_rdm-raises/{type(e).__name__}', repr(e), _case(rec, fl)))
    if dc['complete'] and use_desc:
        bal = None
        if not dc['cv'] and (dc['single'] or m in ('euclidean', 'mahalanobis')) and m in ('euclidean', 'correlation',
                                                                                         'mahalanobis', 'poisson'):
            bal = dict(method=m, descriptor='cond', noise=noise)
        elif rec['usefold'] and m == 'crossnobis' and dc['foldbal']:
            bal = dict(method=m, descriptor='cond', noise=noise, cv_descriptor='fold')
        elif rec['usefold'] and m == 'poisson_cv' and dc['onepercell']:
            bal = dict(method=m, descriptor='cond', cv_descriptor='fold')
        if bal is not None:
            n += 1
            try:
                # (float64 data for the balanced side: calc_rdm computes in the dtype it is given - C01's subject)
                ds64, _ = make_dataset(rec, dict(fl, dtype='float64', layout='C'), use_desc=True)
                rb = calc_rdm(ds64, **bal)
                gb = np.asarray(rb.dissimilarities, dtype=float)[0]
                lb = list(np.asarray(rb.pattern_descriptors['cond']).tolist())
                # calc_rdm sorts its conditions: match entries by label pair
                idx = {l: k for k, l in enumerate(lb)}
                nb = len(lb)
                sq = np.zeros((nb, nb))
                sq[np.triu_indices(nb, 1)] = gb
                sq = sq + sq.T
                wl = [LABEL_MAPS[fl['lab']](k) for k in conds]
                gbm = np.array([sq[idx[wl[k]], idx[wl[l]]] for k in range(nb) for l in range(k + 1, nb)])
                if not _same(gbm, exp):
                    key = f'b/{m}/calc_rdm-differs'
                    if m == 'poisson_cv':
                        _, per = balanced_poisson_cv_per_fold(np.array(rec['x'], dtype=float), lab,
                                                              [FOLD_MAPS[fl['fold']](k) for k in rec['fold']])
                        if np.allclose(gb, per[-1], rtol=1e-9, atol=1e-12):
                            key = 'b/poisson_cv/calc_rdm-keeps-last-fold-only'
                    if ok_main or known:
                        out.append((key, 'calc_rdm differs from calc_rdm_unbalanced on a design where the two '
                                    'definitions coincide (the unbalanced value equals the specification)',
                                    _case(rec, fl, balanced=gbm, unbalanced=None if got is None else got[0], expected=exp)))
            except Exception as e:  # noqa: BLE001
                out.append((f'b/{m}/calc_rdm-raises/{type(e).__name__}', repr(e), _case(rec, fl)))
    # clause e: the single-pair helper against the cross slots (and the self slots under cross-validation)
    if use_desc:
        k1, vio = check_one_similarity(rec, fl, ds, lab, conds, cross, selfv, noise, dc, known)
        n += k1
        out += vio
    return n, out, {'class': cls, 'known': known, 'dc': dc, 'flavour': fl}


def check_one_similarity(rec, fl, ds, lab, conds, cross, selfv, noise, dc, known):
    out = []
    n = 0
    m, w = rec['m'], rec['w']
    nc = len(conds)
    pairs = [(k, l) for k in range(nc) for l in range(k + 1, nc)]
    fold = rec['fold'] if rec['usefold'] else (list(rec['ival']) if rec.get('ival') else list(range(1, len(lab) + 1)))
    kind_known = None
    if not dc['complete'] and rec['out']['kind'] == 'corr':
        kind_known = 'c/kernel=correlation/nan'
    if not dc['complete'] and rec['out']['kind'] == 'quad':
        kind_known = 'c/kernel=mahalanobis/nan'
    for p, (k, l) in enumerate(pairs[:3]):
        lk, ll = LABEL_MAPS[fl['lab']](conds[k]), LABEL_MAPS[fl['lab']](conds[l])
        dk, dl = ds.subset_obs('cond', lk), ds.subset_obs('cond', ll)
        ck = np.array([fold[o] for o in range(len(lab)) if rec['lab'][o] == conds[k]], dtype=np.int64)
        cl = np.array([fold[o] for o in range(len(lab)) if rec['lab'][o] == conds[l]], dtype=np.int64)
        if not dc['cv']:
            ck, cl = np.arange(len(ck), dtype=np.int64), np.arange(len(cl), dtype=np.int64) + 1000
        n += 1
        ev, ew = cross[p]
        try:
            v, ws = calc_one_similarity(dk, dl, ck, cl, method=m, noise=noise, weighting=w)
        except Exception as e:  # noqa: BLE001
            out.append((kind_known or f'e/calc_one_similarity/raises/{type(e).__name__}', repr(e), _case(rec, fl)))
            continue
        if not _same([v], [ev]) or not _same([ws], [ew]):
            out.append((kind_known or f'e/calc_one_similarity/{m}/{w}/' + ('complete' if dc['complete'] else 'nan'),
                        'calc_one_similarity differs from the cross slot of the full computation',
                        _case(rec, fl, conds=[conds[k], conds[l]], got=[v, ws], expected=[ev, ew])))
    return n, out


# ------------------------------------------------------------------------------------------------
# worker
# ------------------------------------------------------------------------------------------------
def replay_chunk(args):
    import json
    import warnings
    warnings.filterwarnings('ignore')
    base, lines = args
    res = {'n_rec': 0, 'n_eval': 0, 'vio': [], 'classes': {}, 'nontriv': 0, 'flavours': {}, 'sessions': {}}
    for j, line in enumerate(lines):
        rec = json.loads(line)
        try:
            n, out, info = check_record(rec, base + j)
        except KernelMismatch as e:
            return {'kernel': f'{e} on {line[:300]}'}
        res['n_rec'] += 1
        res['n_eval'] += n
        c = info['class']
        res['classes'][c] = res['classes'].get(c, 0) + 1
        f = f"{info['flavour']['dtype']}/{info['flavour']['layout']}"
        res['flavours'][f] = res['flavours'].get(f, 0) + 1
        sk = f"nodesc={rec.get('nodesc', False)}/index={rec.get('idx', 'none')}/prior={rec.get('prior', False)}"
        res['sessions'][sk] = res['sessions'].get(sk, 0) + 1
        dc = info['dc']
        res['nontriv'] += int((not dc['single']) or (not dc['complete']))
        res['vio'] += out
    return res


# ------------------------------------------------------------------------------------------------
# implementation -> specification
# ------------------------------------------------------------------------------------------------
def _frac(v):
    if math.isnan(v):
        return [0, 0], True
    q = Fraction(v).limit_denominator(200000)
    ok = abs(float(q) - v) <= 1e-9 * max(1.0, abs(v))
    return [q.numerator, q.denominator], ok


def record_design(seed):
    """one random integer design larger than the exhaustive grid -> event for Trace_Unbalanced"""
    rng = np.random.default_rng(seed)
    nobs = int(rng.integers(5, 9))
    nch = int(rng.integers(2, 5))
    nlab = int(rng.integers(2, 5))
    while True:
        lab = rng.integers(1, nlab + 1, nobs).tolist()
        if len(set(lab)) >= 2:
            break
    m = ALL_METHODS[int(rng.integers(0, 6))]
    w = ('number', 'equal')[int(rng.integers(0, 2))]
    usefold = bool(rng.integers(0, 2))
    fold = rng.integers(1, 4, nobs).tolist() if usefold else []
    x = rng.integers(0, 6, (nobs, nch))
    nan_kind = int(rng.integers(0, 3))
    valid = [list(range(1, nch + 1)) for _ in range(nobs)]
    if nan_kind == 1:
        c = int(rng.integers(1, nch + 1))
        valid = [[d for d in v if d != c] for v in valid]
    elif nan_kind == 2:
        valid = [[d for d in v if rng.random() > 0.25] for v in valid]
    prec = []
    if m in ('mahalanobis', 'crossnobis') and rng.integers(0, 3):
        B = rng.integers(-1, 2, (nch, nch))
        prec = (B @ B.T + np.eye(nch, dtype=int)).tolist()
    rec = {'lab': lab, 'fold': fold, 'usefold': usefold, 'x': x.tolist(), 'valid': valid, 'm': m, 'w': w, 'prec': prec}
    dc = design_class(rec)
    known = defect_class(rec, dc)
    # generator constraints (the Adm predicate of the specification)
    if m == 'correlation':
        for a in range(nobs):
            for b in range(a, nobs):
                vs = [c - 1 for c in valid[a] if c in valid[b]]
                if vs and (np.ptp(x[a, vs]) == 0 or np.ptp(x[b, vs]) == 0):
                    return None
    fl = flavour(seed, dc['complete'])
    fl['lab'] = 'int'
    ds, labs = make_dataset(rec, fl)
    try:
        r = calc_rdm_unbalanced(ds, method=m, descriptor='cond', noise=noise_of(rec, fl), weighting=w,
                                cv_descriptor='fold' if usefold else None)
    except Exception as e:  # noqa: BLE001
        return {'rec': rec, 'error': repr(e), 'known': known, 'flavour': fl}
    got = np.asarray(r.dissimilarities, dtype=float)[0]
    inv = {LABEL_MAPS['int'](k): k for k in range(1, 7)}
    conds = [inv[int(v)] for v in np.asarray(r.pattern_descriptors['cond']).tolist()]
    fr = [_frac(float(v)) for v in got]
    exact = m in ('euclidean', 'mahalanobis', 'crossnobis')
    ev = dict(rec, conds=conds, nan=[bool(math.isnan(v)) for v in got],
              rdm=[q for q, _ in fr] if exact else [], exact=exact)
    return {'rec': rec, 'ev': ev, 'raw': got.tolist(), 'known': known, 'flavour': fl,
            'frac_ok': all(ok for _, ok in fr) if exact else True}


def trace_job(seed):
    import warnings
    warnings.filterwarnings('ignore')
    return seed, record_design(seed)
